//go:build verif

// Contracts for package json, read by /verif/engine (vcgo). Comments only.
package json

//@ pred isContainer(s) := s == ObjectKeyState || s == ObjectValueState || s == ArrayState
// pInv: cursor well-formed; the state stack is never empty, its bottom is the document state and
// every other entry is an open container.
//@ pred pInv(p) := p != nil && p.r != nil && inputInv(p.r) && len(p.state) >= 1 && p.state[0] == ValueState &&
//@     forall(i, 1, len(p.state), isContainer(p.state[i]))
//@ pred pStep(p) := pInv(p) && p.r.pos >= old(p.r.pos)
//@ pred isJSONWS(c) := c == ' ' || c == '\n' || c == '\r' || c == '\t'

//@ func Parser.State
//@   requires[S] pInv(p)
//@   ensures[F,C10] result == p.state[len(p.state)-1]

//@ func Parser.moveWhitespace
//@   preserves[S] p != nil && p.r != nil && bufInv(p.r) && p.r.pos >= old(p.r.pos)
//@   ensures[S]  !isJSONWS(p.r.buf[p.r.pos])
//@   ensures[T]  forall(k, old(p.r.pos), p.r.pos, isJSONWS(p.r.buf[k]))
//@   loop 1 invariant[T] forall(k, old(p.r.pos), p.r.pos, isJSONWS(p.r.buf[k]))
//@   loop 1 decreases len(p.r.buf) - p.r.pos

//@ func Parser.consumeLiteralToken
//@   preserves[S] p != nil && p.r != nil && bufInv(p.r) && p.r.pos >= old(p.r.pos)
//@   ensures[S]  !result ==> p.r.pos == old(p.r.pos)
//@   ensures[S]  result ==> p.r.pos >= old(p.r.pos)+4

//@ func Parser.consumeNumberToken
//@   preserves[S] p != nil && p.r != nil && inputInv(p.r) && p.r.pos >= old(p.r.pos)
//@   ensures[S]  !result ==> p.r.pos == old(p.r.pos)
//@   ensures[S]  result ==> p.r.pos > old(p.r.pos)
//@   loop * invariant p.r.pos > old(p.r.pos)
//@   loop * decreases len(p.r.buf) - p.r.pos

//@ func Parser.consumeStringToken
//@   preserves[S] p != nil && p.r != nil && inputInv(p.r) && p.r.pos >= old(p.r.pos)
//@   requires[S] p.r.buf[p.r.pos] != 0
//@   ensures[S]  p.r.pos > old(p.r.pos)
//@   ensures[S]  !result ==> p.r.buf[p.r.pos] == 0
//@   loop 1 invariant p.r.pos > old(p.r.pos)
//@   loop 1 decreases len(p.r.buf) - p.r.pos
//@   loop 2 invariant -1 <= i && i <= p.r.pos - p.r.start - 1
//@   loop 2 decreases i + 1

//@ func Parser.Next
//@   preserves[S] pInv(p)
//@   ensures[S,C01] @progress: result0 != ErrorGrammar ==> p.r.pos > old(p.r.pos)
//@   ensures[S,C01] @monotone: p.r.pos >= old(p.r.pos)
//@   ensures[S,C01] @sticky: old(p.r.pos) == len(p.r.buf)-1 ==> result0 == ErrorGrammar && p.r.pos == old(p.r.pos)
//@   ensures[S,C01] @noinvent: result0 == ErrorGrammar ==> result1 == nil

//go:build verif

// Contracts for package json, read by /verif/engine (vcgo). Comments only.
package json

//@ pred isContainer(s) := s == ObjectKeyState || s == ObjectValueState || s == ArrayState
// pInv: cursor well-formed; the state stack is never empty, its bottom is the document state and
// every other entry is an open container.
//@ pred pInv(p) := p != nil && p.r != nil && inputInv(p.r) && len(p.state) >= 1 && p.state[0] == ValueState &&
//@     forall(i, 1, len(p.state), isContainer(p.state[i]))
//@ pred pStep(p) := pInv(p) && p.r.pos >= old(p.r.pos)
//@ pred tokStart(p, tok) := ptr(tok) - ptr(p.r.buf)
//@ pred isJSONWS(c) := c == ' ' || c == '\n' || c == '\r' || c == '\t'

//@ func Parser.State
//@   requires[S] pInv(p)
//@   ensures[F,C10] result == p.state[len(p.state)-1]

//@ func Parser.moveWhitespace
//@   preserves[S] p != nil && p.r != nil && bufInv(p.r) && p.r.pos >= old(p.r.pos)
//@   ensures[S]  !isJSONWS(p.r.buf[p.r.pos])
//@   ensures[T]  forall(k, old(p.r.pos), p.r.pos, isJSONWS(p.r.buf[k]))
//@   loop 1 invariant[T] forall(k, old(p.r.pos), p.r.pos, isJSONWS(p.r.buf[k]))
//@   loop 1 decreases len(p.r.buf) - p.r.pos

//@ func Parser.consumeLiteralToken
//@   preserves[S] p != nil && p.r != nil && bufInv(p.r) && p.r.pos >= old(p.r.pos)
//@   ensures[S]  !result ==> p.r.pos == old(p.r.pos)
//@   ensures[S]  result ==> p.r.pos >= old(p.r.pos)+4
//@   ensures[F]  result ==> old(p.r.buf[p.r.pos]) == 't' || old(p.r.buf[p.r.pos]) == 'f' || old(p.r.buf[p.r.pos]) == 'n'

//@ func Parser.consumeNumberToken
//@   preserves[S] p != nil && p.r != nil && inputInv(p.r) && p.r.pos >= old(p.r.pos)
//@   ensures[S]  !result ==> p.r.pos == old(p.r.pos)
//@   ensures[S]  result ==> p.r.pos > old(p.r.pos)
//@   ensures[F]  result ==> old(p.r.buf[p.r.pos]) == '-' || ('0' <= old(p.r.buf[p.r.pos]) && old(p.r.buf[p.r.pos]) <= '9')
//@   loop * invariant p.r.pos > old(p.r.pos)
//@   loop * decreases len(p.r.buf) - p.r.pos

//@ func Parser.consumeStringToken
//@   preserves[S] p != nil && p.r != nil && inputInv(p.r) && p.r.pos >= old(p.r.pos)
//@   requires[S] p.r.buf[p.r.pos] != 0
//@   ensures[S]  p.r.pos > old(p.r.pos)
//@   ensures[S]  !result ==> p.r.buf[p.r.pos] == 0
//@   loop 1 invariant p.r.pos > old(p.r.pos)
//@   loop 1 decreases len(p.r.buf) - p.r.pos
//@   loop 2 invariant -1 <= i && i <= p.r.pos - p.r.start - 1
//@   loop 2 decreases i + 1

//@ func Parser.Next
//@   preserves[S] pInv(p)
//@   ensures[S,C01] @progress: result0 != ErrorGrammar ==> p.r.pos > old(p.r.pos)
//@   ensures[S,C01] @monotone: p.r.pos >= old(p.r.pos)
//@   ensures[S,C01] @sticky: old(p.r.pos) == len(p.r.buf)-1 ==> result0 == ErrorGrammar && p.r.pos == old(p.r.pos)
//@   ensures[S,C01] @noinvent: result0 == ErrorGrammar ==> result1 == nil
// ---- C10: nesting and conservation (F/T facets)
//@   ensures[T,C10] @slice: result0 != ErrorGrammar ==> len(result1) > 0 && within(result1, p.r.buf[old(p.r.pos):p.r.pos])
//@   ensures[T,C10] @skipped: result0 != ErrorGrammar ==> forall(k, old(p.r.pos), tokStart(p, result1),
//@        isJSONWS(p.r.buf[k]) || (p.r.buf[k] == ',' && forall(j, old(p.r.pos), k, isJSONWS(p.r.buf[j]))))
//@   ensures[T,C10] @value-end: result0 != ErrorGrammar && !(result0 == StringGrammar && old(p.state[len(p.state)-1]) == ObjectKeyState) ==>
//@        tokStart(p, result1) + len(result1) == p.r.pos
//@   ensures[T,C10] @key-colon: result0 == StringGrammar && old(p.state[len(p.state)-1]) == ObjectKeyState ==>
//@        p.r.buf[p.r.pos-1] == ':' && forall(k, tokStart(p, result1) + len(result1), p.r.pos-1, isJSONWS(p.r.buf[k]))
//@   ensures[F,C10] @push-obj: result0 == StartObjectGrammar ==> len(p.state) == old(len(p.state))+1 && p.state[len(p.state)-1] == ObjectKeyState
//@   ensures[F,C10] @push-arr: result0 == StartArrayGrammar ==> len(p.state) == old(len(p.state))+1 && p.state[len(p.state)-1] == ArrayState
//@   ensures[F,C10] @push-keeps: result0 == StartObjectGrammar || result0 == StartArrayGrammar ==> forall(i, 0, old(len(p.state)), p.state[i] == old(p.state[i]))
//@   ensures[F,C10] @pop-obj: result0 == EndObjectGrammar ==> old(p.state[len(p.state)-1]) == ObjectKeyState && len(p.state) == old(len(p.state))-1
//@   ensures[F,C10] @pop-arr: result0 == EndArrayGrammar ==> old(p.state[len(p.state)-1]) == ArrayState && len(p.state) == old(len(p.state))-1
//@   ensures[F,C10] @pop-top: result0 == EndObjectGrammar || result0 == EndArrayGrammar ==>
//@        p.state[len(p.state)-1] == ite(old(p.state[len(p.state)-2]) == ObjectValueState, ObjectKeyState, old(p.state[len(p.state)-2])) &&
//@        forall(i, 0, len(p.state)-1, p.state[i] == old(p.state[i]))
//@   ensures[F,C10] @same-depth: result0 == StringGrammar || result0 == NumberGrammar || result0 == LiteralGrammar || result0 == ErrorGrammar ==> len(p.state) == old(len(p.state))
//@   ensures[F,C10] @key-value: old(p.state[len(p.state)-1]) == ObjectKeyState && result0 != ErrorGrammar && result0 != EndObjectGrammar ==>
//@        result0 == StringGrammar && result1[0] == '"' && p.state[len(p.state)-1] == ObjectValueState
//@   ensures[F,C10] @value-done: old(p.state[len(p.state)-1]) == ObjectValueState && (result0 == StringGrammar || result0 == NumberGrammar || result0 == LiteralGrammar) ==>
//@        p.state[len(p.state)-1] == ObjectKeyState
//@   ensures[F,C10] @delims: result0 != ErrorGrammar ==> (result1[0] == '{' <==> result0 == StartObjectGrammar) && (result1[0] == '}' <==> result0 == EndObjectGrammar) &&
//@        (result1[0] == '[' <==> result0 == StartArrayGrammar) && (result1[0] == ']' <==> result0 == EndArrayGrammar)
//@   ensures[F,C10] @missing-comma: old(p.needComma) && result0 != ErrorGrammar && result0 != EndObjectGrammar && result0 != EndArrayGrammar ==>
//@        exists(k, old(p.r.pos), tokStart(p, result1), p.r.buf[k] == ',')
//@   ensures[F,C10] @need-comma: result0 == NumberGrammar || result0 == LiteralGrammar || result0 == EndObjectGrammar || result0 == EndArrayGrammar ||
//@        (result0 == StringGrammar && old(p.state[len(p.state)-1]) != ObjectKeyState) ==> p.needComma
//@   ensures[F,C10] @no-comma-needed: result0 == StartObjectGrammar || result0 == StartArrayGrammar ||
//@        (result0 == StringGrammar && old(p.state[len(p.state)-1]) == ObjectKeyState) ==> !p.needComma

// ---- C15: a new error is reported for the byte the parser stopped at: only whitespace and at most one comma were
// skipped before a grammar error, and the cursor has not moved past the reported byte
//@   ensures[F,C15] @err-at-cursor: p.err != old(p.err) ==> result0 == ErrorGrammar && p.err != nil && errOff(p.err) == p.r.pos && old(p.r.pos) <= p.r.pos && p.r.pos <= len(p.r.buf)-1

//@ func Parser.Err
//@   requires[S] pInv(p)

//@ func NewParser
//@   requires[S] bufInv(r) && r.start <= r.pos
//@   ensures[S]  pInv(result) && result.r == r && len(result.state) == 1 && !result.needComma

//go:build verif

// Contracts for package json, read by /verif/engine (vcgo). Comments only.
package json

//@ pred isContainer(s) := s == ObjectKeyState || s == ObjectValueState || s == ArrayState
// pInv: cursor well-formed; the state stack is never empty, its bottom is the document state and
// every other entry is an open container.
//@ pred pInv(p) := p != nil && p.r != nil && inputInv(p.r) && len(p.state) >= 1 && p.state[0] == ValueState &&
//@     forall(i, 1, len(p.state), isContainer(p.state[i]))
//@ pred pStep(p) := pInv(p) && p.r.pos >= old(p.r.pos)
//@ pred tokStart(p, tok) := ptr(tok) - ptr(p.r.buf)
//@ pred isJSONWS(c) := c == ' ' || c == '\n' || c == '\r' || c == '\t'

//@ func Parser.State
//@   requires[S] pInv(p)
//@   ensures[F,C10] result == p.state[len(p.state)-1]

//@ func Parser.moveWhitespace
//@   preserves[S] p != nil && p.r != nil && bufInv(p.r) && p.r.pos >= old(p.r.pos)
//@   ensures[S]  !isJSONWS(p.r.buf[p.r.pos])
//@   ensures[T]  forall(k, old(p.r.pos), p.r.pos, isJSONWS(p.r.buf[k]))
//@   loop 1 invariant[T] forall(k, old(p.r.pos), p.r.pos, isJSONWS(p.r.buf[k]))
//@   loop 1 decreases len(p.r.buf) - p.r.pos

//@ pred litTrue(b, p) := b[p] == 't' && b[p+1] == 'r' && b[p+2] == 'u' && b[p+3] == 'e'
//@ pred litFalse(b, p) := b[p] == 'f' && b[p+1] == 'a' && b[p+2] == 'l' && b[p+3] == 's' && b[p+4] == 'e'
//@ pred litNull(b, p) := b[p] == 'n' && b[p+1] == 'u' && b[p+2] == 'l' && b[p+3] == 'l'
//@ func Parser.consumeLiteralToken
//@   ensures[F,C10] @literal: p.r.pos == old(p.r.pos) + ite(litTrue(p.r.buf, old(p.r.pos)) || litNull(p.r.buf, old(p.r.pos)), 4, ite(litFalse(p.r.buf, old(p.r.pos)), 5, 0)) && (result <==> p.r.pos > old(p.r.pos))
//@   preserves[S] p != nil && p.r != nil && bufInv(p.r) && p.r.pos >= old(p.r.pos)
//@   ensures[S]  !result ==> p.r.pos == old(p.r.pos)
//@   ensures[S]  result ==> p.r.pos >= old(p.r.pos)+4
//@   ensures[F]  result ==> old(p.r.buf[p.r.pos]) == 't' || old(p.r.buf[p.r.pos]) == 'f' || old(p.r.buf[p.r.pos]) == 'n'

// RFC 8259 number starting at p:  -? (0 | [1-9][0-9]*) (. [0-9]+)? ((e|E) (+|-)? [0-9]+)?   (jsonNumEnd == p: none)
//@ pred jDig(c) := '0' <= c && c <= '9'
//@ pred jS(b, p) := p + ite(b[p] == '-', 1, 0)
//@ pred jI(b, p) := ite(b[jS(b, p)] == '0', jS(b, p) + 1, ite('1' <= b[jS(b, p)] && b[jS(b, p)] <= '9', digitEnd(b, jS(b, p)), p))
//@ pred jF(b, p) := ite(b[jI(b, p)] == '.' && jDig(b[jI(b, p)+1]), digitEnd(b, jI(b, p)+1), jI(b, p))
//@ pred jT(b, p) := jF(b, p) + 1 + ite(b[jF(b, p)+1] == '+' || b[jF(b, p)+1] == '-', 1, 0)
//@ pred jsonNumEnd(b, p) := ite(jI(b, p) == p, p, ite((b[jF(b, p)] == 'e' || b[jF(b, p)] == 'E') && jDig(b[jT(b, p)]), digitEnd(b, jT(b, p)), jF(b, p)))
//@ func Parser.consumeNumberToken
//@   ensures[F,C10] @number: p.r.pos == jsonNumEnd(p.r.buf, old(p.r.pos)) && (result <==> p.r.pos > old(p.r.pos))
//@   loop 1 invariant[F] '1' <= p.r.buf[jS(p.r.buf, old(p.r.pos))] && p.r.buf[jS(p.r.buf, old(p.r.pos))] <= '9' && jS(p.r.buf, old(p.r.pos)) < p.r.pos && forall(k, jS(p.r.buf, old(p.r.pos)), p.r.pos, jDig(p.r.buf[k]))
//@   loop 2 invariant[F] jI(p.r.buf, old(p.r.pos)) > old(p.r.pos) && p.r.buf[jI(p.r.buf, old(p.r.pos))] == '.' && jI(p.r.buf, old(p.r.pos)) + 1 <= p.r.pos && jDig(p.r.buf[jI(p.r.buf, old(p.r.pos))+1]) && forall(k, jI(p.r.buf, old(p.r.pos))+1, p.r.pos, jDig(p.r.buf[k]))
//@   loop 3 invariant[F] jI(p.r.buf, old(p.r.pos)) > old(p.r.pos) && (p.r.buf[jF(p.r.buf, old(p.r.pos))] == 'e' || p.r.buf[jF(p.r.buf, old(p.r.pos))] == 'E') && jT(p.r.buf, old(p.r.pos)) <= p.r.pos && jDig(p.r.buf[jT(p.r.buf, old(p.r.pos))]) && forall(k, jT(p.r.buf, old(p.r.pos)), p.r.pos, jDig(p.r.buf[k]))
//@   preserves[S] p != nil && p.r != nil && inputInv(p.r) && p.r.pos >= old(p.r.pos)
//@   ensures[S]  !result ==> p.r.pos == old(p.r.pos)
//@   ensures[S]  result ==> p.r.pos > old(p.r.pos)
//@   ensures[F]  result ==> old(p.r.buf[p.r.pos]) == '-' || ('0' <= old(p.r.buf[p.r.pos]) && old(p.r.buf[p.r.pos]) <= '9')
//@   loop * invariant p.r.pos > old(p.r.pos)
//@   loop * decreases len(p.r.buf) - p.r.pos

// bsPar(s, lo, hi): parity of the run of backslashes that ends at hi-1 (0 if s[hi-1] is not a backslash): a quote at hi
// closes the string iff it is 0
//@ fold bsPar(s, k, acc) init 0 := ite(s[k] == '\\', 1 - acc, 0)
//@ pred jsClose(b, lo, j) := b[j] == '"' && bsPar(b, lo, j) == 0
//@ func Parser.consumeStringToken
//@   requires[F] p.r.buf[p.r.pos] == '"' && p.r.start <= p.r.pos
// the string ends at the first quote preceded by an even number of backslashes, and contains no NUL
//@   ensures[F,C10] @string-end: result ==> jsClose(p.r.buf, old(p.r.pos)+1, p.r.pos-1) && forall(j, old(p.r.pos)+1, p.r.pos-1, !jsClose(p.r.buf, old(p.r.pos)+1, j) && p.r.buf[j] != 0)
//@   ensures[F,C10] @string-open: !result ==> forall(j, old(p.r.pos)+1, p.r.pos, !jsClose(p.r.buf, old(p.r.pos)+1, j) && p.r.buf[j] != 0)
//@   loop 1 invariant[F] forall(j, old(p.r.pos)+1, p.r.pos, !jsClose(p.r.buf, old(p.r.pos)+1, j) && p.r.buf[j] != 0)
//@   loop 2 invariant[F] c == '"' && p.r.buf[p.r.pos] == '"' && i + p.r.start + 1 >= old(p.r.pos) + 1 && bsPar(p.r.buf, old(p.r.pos)+1, p.r.pos) == ite(escaped, 1 - bsPar(p.r.buf, old(p.r.pos)+1, i + p.r.start + 1), bsPar(p.r.buf, old(p.r.pos)+1, i + p.r.start + 1))
//@   preserves[S] p != nil && p.r != nil && inputInv(p.r) && p.r.pos >= old(p.r.pos)
//@   requires[S] p.r.buf[p.r.pos] != 0
//@   ensures[S]  p.r.pos > old(p.r.pos)
//@   ensures[S]  !result ==> p.r.buf[p.r.pos] == 0
//@   loop 1 invariant p.r.pos > old(p.r.pos)
//@   loop 1 decreases len(p.r.buf) - p.r.pos
//@   loop 2 invariant -1 <= i && i <= p.r.pos - p.r.start - 1
//@   loop 2 decreases i + 1

//@ func Parser.Next
//@   preserves[S] pInv(p)
//@   ensures[S,C01] @progress: result0 != ErrorGrammar ==> p.r.pos > old(p.r.pos)
//@   ensures[S,C01] @monotone: p.r.pos >= old(p.r.pos)
//@   ensures[S,C01] @sticky: old(p.r.pos) == len(p.r.buf)-1 ==> result0 == ErrorGrammar && p.r.pos == old(p.r.pos)
//@   ensures[S,C01] @noinvent: result0 == ErrorGrammar ==> result1 == nil
// ---- C10: nesting and conservation (F/T facets)
//@   ensures[T,C10] @slice: result0 != ErrorGrammar ==> len(result1) > 0 && within(result1, p.r.buf[old(p.r.pos):p.r.pos])
//@   ensures[T,C10] @skipped: result0 != ErrorGrammar ==> forall(k, old(p.r.pos), tokStart(p, result1),
//@        isJSONWS(p.r.buf[k]) || (p.r.buf[k] == ',' && forall(j, old(p.r.pos), k, isJSONWS(p.r.buf[j]))))
//@   ensures[T,C10] @value-end: result0 != ErrorGrammar && !(result0 == StringGrammar && old(p.state[len(p.state)-1]) == ObjectKeyState) ==>
//@        tokStart(p, result1) + len(result1) == p.r.pos
//@   ensures[T,C10] @key-colon: result0 == StringGrammar && old(p.state[len(p.state)-1]) == ObjectKeyState ==>
//@        p.r.buf[p.r.pos-1] == ':' && forall(k, tokStart(p, result1) + len(result1), p.r.pos-1, isJSONWS(p.r.buf[k]))
//@   ensures[F,C10] @push-obj: result0 == StartObjectGrammar ==> len(p.state) == old(len(p.state))+1 && p.state[len(p.state)-1] == ObjectKeyState
//@   ensures[F,C10] @push-arr: result0 == StartArrayGrammar ==> len(p.state) == old(len(p.state))+1 && p.state[len(p.state)-1] == ArrayState
//@   ensures[F,C10] @push-keeps: result0 == StartObjectGrammar || result0 == StartArrayGrammar ==> forall(i, 0, old(len(p.state)), p.state[i] == old(p.state[i]))
//@   ensures[F,C10] @pop-obj: result0 == EndObjectGrammar ==> old(p.state[len(p.state)-1]) == ObjectKeyState && len(p.state) == old(len(p.state))-1
//@   ensures[F,C10] @pop-arr: result0 == EndArrayGrammar ==> old(p.state[len(p.state)-1]) == ArrayState && len(p.state) == old(len(p.state))-1
//@   ensures[F,C10] @pop-top: result0 == EndObjectGrammar || result0 == EndArrayGrammar ==>
//@        p.state[len(p.state)-1] == ite(old(p.state[len(p.state)-2]) == ObjectValueState, ObjectKeyState, old(p.state[len(p.state)-2])) &&
//@        forall(i, 0, len(p.state)-1, p.state[i] == old(p.state[i]))
//@   ensures[F,C10] @same-depth: result0 == StringGrammar || result0 == NumberGrammar || result0 == LiteralGrammar || result0 == ErrorGrammar ==> len(p.state) == old(len(p.state))
// a string unit (key or value) is exactly the string literal: it starts and ends with a quote (white space before ':' is
// not part of a key)
//@   ensures[F,C10] @string-closed: result0 == StringGrammar ==> result1[0] == '"' && result1[len(result1)-1] == '"'
//@   ensures[F,C10] @key-value: old(p.state[len(p.state)-1]) == ObjectKeyState && result0 != ErrorGrammar && result0 != EndObjectGrammar ==>
//@        result0 == StringGrammar && result1[0] == '"' && p.state[len(p.state)-1] == ObjectValueState
//@   ensures[F,C10] @value-done: old(p.state[len(p.state)-1]) == ObjectValueState && (result0 == StringGrammar || result0 == NumberGrammar || result0 == LiteralGrammar) ==>
//@        p.state[len(p.state)-1] == ObjectKeyState
//@   ensures[F,C10] @delims: result0 != ErrorGrammar ==> (result1[0] == '{' <==> result0 == StartObjectGrammar) && (result1[0] == '}' <==> result0 == EndObjectGrammar) &&
//@        (result1[0] == '[' <==> result0 == StartArrayGrammar) && (result1[0] == ']' <==> result0 == EndArrayGrammar)
//@   ensures[F,C10] @missing-comma: old(p.needComma) && result0 != ErrorGrammar && result0 != EndObjectGrammar && result0 != EndArrayGrammar ==>
//@        exists(k, old(p.r.pos), tokStart(p, result1), p.r.buf[k] == ',')
//@   ensures[F,C10] @need-comma: result0 == NumberGrammar || result0 == LiteralGrammar || result0 == EndObjectGrammar || result0 == EndArrayGrammar ||
//@        (result0 == StringGrammar && old(p.state[len(p.state)-1]) != ObjectKeyState) ==> p.needComma
//@   ensures[F,C10] @no-comma-needed: result0 == StartObjectGrammar || result0 == StartArrayGrammar ||
//@        (result0 == StringGrammar && old(p.state[len(p.state)-1]) == ObjectKeyState) ==> !p.needComma

// ---- C15: a new error is reported for the byte the parser stopped at: only whitespace and at most one comma were
// skipped before a grammar error, and the cursor has not moved past the reported byte
//@   ensures[F,C15] @err-at-cursor: p.err != old(p.err) ==> result0 == ErrorGrammar && p.err != nil && errOff(p.err) == p.r.pos && old(p.r.pos) <= p.r.pos && p.r.pos <= len(p.r.buf)-1

//@ func Parser.Err
//@   requires[S] pInv(p)

//@ func NewParser
//@   requires[S] bufInv(r) && r.start <= r.pos
//@   ensures[S]  pInv(result) && result.r == r && len(result.state) == 1 && !result.needComma

//go:build verif

// Contracts for package html, read by /verif/engine (vcgo). Comments only.
package html

// Template delimiters are arbitrary NUL-free byte strings (a superset of the six shipped dialects).
//@ pred tmplOK(l) := forall(k, 0, len(l.tmplBegin), l.tmplBegin[k] != 0) && forall(k, 0, len(l.tmplEnd), l.tmplEnd[k] != 0)
//@ pred hInv(l) := l != nil && l.r != nil && inputInv(l.r) && tmplOK(l)
//@ pred hScan(l) := hInv(l) && l.r.pos >= old(l.r.pos) && l.r.start >= old(l.r.start)
//@ pred isHTMLWS(c) := c == ' ' || c == '\t' || c == '\n' || c == '\r' || c == '\f'
//@ pred isUpperC(c) := 'A' <= c && c <= 'Z'
//@ pred isAlpha(c) := ('a' <= c && c <= 'z') || ('A' <= c && c <= 'Z')
//@ pred hOff(l, tok) := ptr(tok) - ptr(l.r.buf)
// lowerEdit: the only change to the input buffer is ASCII upper case -> lower case.
//@ pred lowerEdit(l) := forall(k, 0, len(l.r.buf), l.r.buf[k] == old(l.r.buf[k]) || ('A' <= old(l.r.buf[k]) && old(l.r.buf[k]) <= 'Z' && l.r.buf[k] == old(l.r.buf[k]) + 32))

// lowerEditIn: bytes change only inside buf[lo:hi], and only from upper to lower case.
//@ pred lowerEditIn(l, lo, hi) := lowerEdit(l) && forall(k, 0, lo, l.r.buf[k] == old(l.r.buf[k])) && forall(k, hi, len(l.r.buf), l.r.buf[k] == old(l.r.buf[k]))

//@ func Lexer.at
//@   requires[S] l != nil && l.r != nil && bufInv(l.r) && forall(k, 0, len(b), b[k] != 0)
//@   ensures[S]  result ==> l.r.pos + len(b) <= len(l.r.buf)-1
//@   ensures[F]  result ==> forall(k, 0, len(b), l.r.buf[l.r.pos+k] == b[k])
//@   ensures[F]  @nonzero: result ==> forall(k, l.r.pos, l.r.pos + len(b), l.r.buf[k] != 0)
//@   ensures[F]  @mismatch: !result ==> exists(k, 0, len(b), l.r.buf[l.r.pos+k] != b[k])
// the same with the witness as an index (k+0 keeps the quantifier over indices instead of addresses of b): the form in which
// callers carry the fact across loops
//@   ensures[F]  @mismatch-idx: !result ==> exists(k, 0, len(b), l.r.buf[l.r.pos+k] != b[k+0])
//@   loop 1 invariant -1 <= rangeindex && rangeindex < len(b) && l.r.pos + rangeindex + 1 <= len(l.r.buf)-1
//@   loop 1 invariant[F] forall(j, 0, rangeindex+1, l.r.buf[l.r.pos+j] == b[j])
//@   loop 1 invariant[F] forall(q, l.r.pos, l.r.pos+rangeindex+1, l.r.buf[q] != 0)
//@   loop 1 decreases len(b) - rangeindex

//@ func Lexer.atCaseInsensitive
// matches b (given in lower case) against the input ignoring the case of ASCII letters, byte by byte in any mixture
//@   ensures[F,C09] @ci-match: result ==> forall(k, 0, len(b), l.r.buf[l.r.pos+k] == b[k] || (l.r.buf[l.r.pos+k] + 32) % 256 == b[k])
//@   ensures[F,C09] @ci-mismatch: !result ==> exists(k, 0, len(b), l.r.buf[l.r.pos+k] != b[k+0] && (l.r.buf[l.r.pos+k] + 32) % 256 != b[k+0])
//@   loop 1 invariant[F] forall(j, 0, rangeindex+1, l.r.buf[l.r.pos+j] == b[j] || (l.r.buf[l.r.pos+j] + 32) % 256 == b[j])
//@   requires[S] l != nil && l.r != nil && bufInv(l.r) && forall(k, 0, len(b), b[k] != 0 && b[k] != 32)
//@   ensures[S]  result ==> l.r.pos + len(b) <= len(l.r.buf)-1
//@   loop 1 invariant -1 <= rangeindex && rangeindex < len(b) && l.r.pos + rangeindex + 1 <= len(l.r.buf)-1
//@   loop 1 decreases len(b) - rangeindex

//@ func Lexer.moveTemplate
// inside a quoted string of a template region a backslash escapes the next byte unless it is itself escaped: the flag is the
// parity of the run of backslashes just scanned (so the string's closing quote is found after an even run)
//@   loop 2 transition[F,C09] @escape-parity: escape <==> (prev(l.r.buf[l.r.pos]) == '\\' && !prev(escape))
//@   preserves[S] hScan(l)
//@   ensures[T] sameBytesExcept(0, 0)
//@   loop * candidate l.r.start == old(l.r.start)
//@   loop * decreases len(l.r.buf) - l.r.pos

//@ func Lexer.shiftBogusComment
//@   preserves[S] hScan(l)
//@   ensures[F,C09] @intag: l.inTag == old(l.inTag) && l.hasTmpl == old(l.hasTmpl)
//@   ensures[T]  sameMem(result, l.r.buf[old(l.r.start):l.r.pos]) && cap(result) == len(result)
//@   ensures[T]  l.text == old(l.text) || within(l.text, result)
//@   ensures[T,C02] @frame: sameBytesExcept(0, 0)
//@   loop * candidate[T] sameBytesExcept(0, 0)
//@   requires[S] l.r.pos - l.r.start >= 2 || (l.r.pos - l.r.start == 1 && l.r.buf[l.r.pos] == '?')
//@   ensures[S]  l.r.start == l.r.pos
//@   loop * candidate l.r.start == old(l.r.start)
//@   loop * candidate l.r.pos - l.r.start >= 2 || (l.r.pos - l.r.start == 1 && l.r.buf[l.r.pos] == '?')
//@   loop 1 decreases len(l.r.buf) - l.r.pos

//@ func Lexer.shiftEndTag
//@   preserves[S] hScan(l)
// white space between the tag name and '>' is not part of Text() (the name is compared with start-tag names)
//@   ensures[F,C09,local] @name-trimmed: len(l.text) > 0 ==> l.text[len(l.text)-1] != ' ' && l.text[len(l.text)-1] != '\t' && l.text[len(l.text)-1] != '\n' && l.text[len(l.text)-1] != '\r'
//@   ensures[F,C09] @lower: forall(k, 0, len(result), !isUpperC(result[k])) && l.inTag == old(l.inTag)
//@   ensures[T]  sameMem(result, l.r.buf[old(l.r.start):l.r.pos]) && cap(result) == len(result)
//@   ensures[T]  l.text == old(l.text) || within(l.text, result)
//@   ensures[T,C02] @frame: lowerEditIn(l, old(l.r.start), l.r.pos)
//@   loop * candidate[T] lowerEdit(l)
//@   requires[S] l.r.pos - l.r.start >= 2
//@   ensures[S]  l.r.start == l.r.pos
//@   loop * candidate l.r.start == old(l.r.start)
//@   loop 1 decreases len(l.r.buf) - l.r.pos
//@   loop 2 invariant 0 <= end && end <= len(l.text)
//@   loop 2 decreases end

// an attribute name keeps upper-case letters only if a template region was entered inside the name: some byte of the
// name then equals the first byte of the opening delimiter
//@ pred delimIn(l, lo, hi) := len(l.tmplBegin) > 0 && exists(q, lo, hi, l.r.buf[q] == l.tmplBegin[0])
// where a quoted attribute value ends: at its own closing quote (or at the end of the input), whatever template regions follow
// the attribute inside the same token
//@ pred attrValEnd(l) := l.attrVal != nil && len(l.attrVal) > 0 && (l.attrVal[0] == '"' || l.attrVal[0] == '\'') && (len(l.tmplBegin) == 0 || l.tmplBegin[0] != l.attrVal[0]) ==> (len(l.attrVal) >= 2 && l.attrVal[len(l.attrVal)-1] == l.attrVal[0]) || hOff(l, l.attrVal) + len(l.attrVal) == len(l.r.buf)-1
//@ func Lexer.shiftAttribute
//@   ensures[F,C09] @attrval-quoted-end: attrValEnd(l)
//@   loop 9 candidate[F] attrValEnd(l)
//@   loop 6 candidate[F] l.r.pos - l.r.start > attrPos
//@   loop 7 candidate[F] l.r.pos - l.r.start > attrPos
//@   ensures[F,C09] @key-lower: forall(k, 0, len(l.text), !isUpperC(l.text[k])) || delimIn(l, hOff(l, l.text), hOff(l, l.text) + len(l.text))
//@   loop * candidate[F] l.hasTmpl ==> delimIn(l, old(l.r.pos), l.r.pos)
//@   loop * candidate[F] nameHasTmpl ==> delimIn(l, old(l.r.pos), nameEnd + l.r.start)
//@   loop * candidate[F] l.hasTmpl ==> delimIn(l, old(l.r.pos), nameEnd + l.r.start)
//@   preserves[S] hScan(l)
//@   ensures[F,C09] @lower: len(l.tmplBegin) == 0 ==> forall(k, 0, len(l.text), !isUpperC(l.text[k]))
//@   ensures[F,C09] @tmpl: l.hasTmpl && !old(l.hasTmpl) ==> len(l.tmplBegin) > 0
//@   ensures[F,C09] @intag: l.inTag == old(l.inTag)
//@   loop * candidate[F] l.hasTmpl && !old(l.hasTmpl) ==> len(l.tmplBegin) > 0
//@   requires[F] !l.hasTmpl
//@   loop * candidate[F] len(l.tmplBegin) == 0 ==> !l.hasTmpl
//@   ensures[T]  sameMem(result, l.r.buf[old(l.r.start):l.r.pos]) && cap(result) == len(result)
//@   ensures[T]  l.text == old(l.text) || within(l.text, result)
//@   ensures[T,C02] @frame: lowerEditIn(l, hOff(l, l.text), hOff(l, l.text) + len(l.text))
//@   loop * candidate[T] sameBytesExcept(0, 0)
//@   loop * candidate[T] lowerEdit(l)
//@   loop * candidate[T] l.attrVal == nil || within(l.attrVal, l.r.buf[l.r.start:l.r.pos])
//@   requires[S] !isHTMLWS(l.r.buf[l.r.pos]) && l.r.buf[l.r.pos] != '>' && l.r.pos < len(l.r.buf)-1
//@   requires[S] l.r.buf[l.r.pos] == '/' ==> l.r.buf[l.r.pos+1] != '>'
//@   ensures[S]  l.r.start == l.r.pos && l.r.pos > old(l.r.pos)
//@   ensures[T]  l.attrVal == nil || within(l.attrVal, result)
//@   loop * candidate l.r.start == old(l.r.start)
//@   loop * candidate nameStart == old(l.r.pos) - old(l.r.start)
//@   loop * candidate nameStart <= l.r.pos - l.r.start
//@   loop * candidate nameStart <= nameEnd
//@   loop * candidate nameEnd <= l.r.pos - l.r.start
//@   loop * candidate nameEnd <= attrPos
//@   loop * candidate attrPos <= l.r.pos - l.r.start
//@   loop * candidate l.r.pos > old(l.r.pos)
//@   loop * candidate nameEnd == nameStart ==> l.r.pos == old(l.r.pos) && l.r.buf[l.r.pos] == '='
//@   loop * decreases len(l.r.buf) - l.r.pos

// dqPar: parity of the double quotes in a byte range. Inside an svg/math subtree a '</' between double quotes is attribute
// text, not an end tag: the scanner's quote flag must be exactly this parity over the bytes scanned so far (taken over the
// memory at entry: the scanner never writes the buffer).
//@ fold dqPar(s, k, acc) init 0 := ite(s[k] == '"', 1 - acc, acc)
//@ pred xmlQ(l, q) := old(dqPar(l.r.buf, l.r.pos, q))
//@ func Lexer.shiftXML
//@   loop 1 invariant[F] @quote-parity: (inQuote ==> xmlQ(l, l.r.pos) == 1) && (!inQuote ==> xmlQ(l, l.r.pos) == 0)
//@   loop 2 invariant[F] @quote-parity-name: !inQuote && xmlQ(l, l.r.pos) == 0
// element names are looked up in lower case (the hash table holds lower-case names only)
//@   callsite html.ToHash[F,C09] @lowered: forall(k, 0, len(arg0), !('A' <= arg0[k] && arg0[k] <= 'Z'))
//@   preserves[S] hScan(l)
//@   ensures[F,C09] @intag: l.inTag == old(l.inTag) && l.hasTmpl == old(l.hasTmpl)
//@   ensures[T]  sameMem(result, l.r.buf[old(l.r.start):l.r.pos]) && cap(result) == len(result)
//@   ensures[T]  l.text == old(l.text) || within(l.text, result)
//@   ensures[T,C02] @frame: sameBytesExcept(0, 0)
//@   loop * candidate[T] sameBytesExcept(0, 0)
//@   ensures[S]  l.r.start == l.r.pos
//@   loop * candidate l.r.start == old(l.r.start)
//@   loop * candidate mark <= l.r.pos - l.r.start - 2
//@   loop * candidate 0 <= mark
//@   loop * decreases len(l.r.buf) - l.r.pos

// a tag name ends at ASCII white space, '>' or '/>' (also at the end of input and at a template delimiter)
//@ pred htmlNameEnd(c, c1) := c == ' ' || c == '\t' || c == '\n' || c == '\r' || c == '\f' || c == '>' || (c == '/' && c1 == '>')
//@ func Lexer.shiftStartTag
// the elements whose content is raw text: when the tag name hashes to one of them, the lexer is armed with exactly that tag
//@   snapshot h0 = h#1
//@   ensures[F,C09,local] @raw-text-elements: result0 == StartTagToken && (h0 == Textarea || h0 == Title || h0 == Style || h0 == Xmp || h0 == Iframe || h0 == Script || h0 == Plaintext) ==> l.rawTag == h0
//@   ensures[F,C09,local] @foreign-elements: (h0 == Svg ==> result0 == SVGToken || result0 == ErrorToken) && (h0 == Math ==> result0 == MathToken || result0 == ErrorToken)
//@   ensures[F,C09,local] @not-raw: result0 == StartTagToken && !(h0 == Textarea || h0 == Title || h0 == Style || h0 == Xmp || h0 == Iframe || h0 == Script || h0 == Plaintext) ==> l.rawTag == old(l.rawTag)
//@   requires[F] @at-name: l.r.pos == l.r.start + 1
//@   ensures[F,C09,local] @name-extent: result0 == StartTagToken ==> forall(k, old(l.r.pos), old(l.r.pos) + len(l.text), !htmlNameEnd(old(l.r.buf[k]), old(l.r.buf[k+1])))
//@   loop 1 invariant[F] @name-scan: forall(k, old(l.r.pos), l.r.pos, !htmlNameEnd(l.r.buf[k], l.r.buf[k+1])) && sameBytesExcept(0, 0) && l.r.start == old(l.r.start)
// element names are looked up in lower case (the hash table holds lower-case names only)
//@   callsite html.ToHash[F,C09] @lowered: forall(k, 0, len(arg0), !('A' <= arg0[k] && arg0[k] <= 'Z'))
//@   preserves[S] hScan(l)
//@   requires[F] l.inTag
//@   ensures[F,C09] @lower: result0 == StartTagToken ==> forall(k, 0, len(l.text), !isUpperC(l.text[k]))
//@   ensures[F,C09] @intag: (result0 == StartTagToken ==> l.inTag) && (result0 == SVGToken || result0 == MathToken || result0 == XMLToken ==> !l.inTag)
//@   ensures[F,C09] @raw: l.rawTag != old(l.rawTag) ==> result0 == StartTagToken
//@   ensures[T]  result0 != ErrorToken ==> sameMem(result1, l.r.buf[old(l.r.start):l.r.pos]) && cap(result1) == len(result1)
//@   ensures[T]  l.text == old(l.text) || result0 == ErrorToken || within(l.text, result1)
//@   ensures[T,C02] @frame: lowerEditIn(l, old(l.r.start)+1, l.r.pos)
//@   loop * candidate[T] sameBytesExcept(0, 0)
//@   loop * candidate[T] lowerEdit(l)
//@   requires[S] l.r.pos - l.r.start >= 1
//@   ensures[S]  l.r.start == l.r.pos
//@   ensures[S]  result0 == ErrorToken ==> result1 == nil
//@   ensures[S]  result0 == StartTagToken || result0 == ErrorToken || result0 == SVGToken || result0 == MathToken || result0 == XMLToken
//@   loop * candidate l.r.start == old(l.r.start)
//@   loop * decreases len(l.r.buf) - l.r.pos

//@ func Lexer.readMarkup
// a comment ends at the first '-->' or '--!>' after its opening, a CDATA section at the first ']]>', a doctype at the first '>'
//@   loop 1 invariant[F] @comment-first-end: forall(k, old(l.r.pos) + 2, l.r.pos, !(l.r.buf[k] == '-' && l.r.buf[k+1] == '-' && (l.r.buf[k+2] == '>' || (l.r.buf[k+2] == '!' && l.r.buf[k+3] == '>'))))
//@   loop 2 invariant[F] @cdata-first-end: forall(k, old(l.r.pos) + 7, l.r.pos, !(l.r.buf[k] == ']' && l.r.buf[k+1] == ']' && l.r.buf[k+2] == '>'))
//@   loop 3 invariant[F] @doctype-first-end: forall(k, old(l.r.pos) + 7, l.r.pos, l.r.buf[k] != '>')
//@   loop * invariant[F] l.r.pos >= old(l.r.pos)
//@   preserves[S] hScan(l)
//@   ensures[F,C09] @intag: l.inTag == old(l.inTag) && l.hasTmpl == old(l.hasTmpl)
//@   ensures[T]  result0 != ErrorToken ==> sameMem(result1, l.r.buf[old(l.r.start):l.r.pos]) && cap(result1) == len(result1)
//@   ensures[T]  l.text == old(l.text) || result0 == ErrorToken || within(l.text, result1)
//@   ensures[T,C02] @frame: sameBytesExcept(0, 0)
//@   loop * candidate[T] sameBytesExcept(0, 0)
//@   requires[S] l.r.pos - l.r.start == 2
//@   ensures[S]  l.r.start == l.r.pos && (result0 == CommentToken || result0 == TextToken || result0 == DoctypeToken)
//@   loop * candidate l.r.start == old(l.r.start)
//@   loop * candidate l.r.pos - l.r.start >= 4
//@   loop * candidate l.r.pos - l.r.start >= 9
//@   loop * decreases len(l.r.buf) - l.r.pos

//@ func Lexer.shiftRawText
// only script data has the '<!--' escape states; the other raw-text elements end at their end tag whatever they contain
//@   loop 4 invariant[F] @script-only: l.rawTag == Script
//@   loop 5 invariant[F] @script-only-name: l.rawTag == Script
// script data inside '<!--': a '<script' tag name enters the double-escaped state, a '</script' leaves it (and ends the raw
// text when not in that state); nothing else changes the state
//@   loop 4 transition[F,C09] @double-escape: inScript <==> ite(prev(l.r.buf[l.r.pos]) == '<' && h#2 == Script, !isEnd, prev(inScript))
// element names are looked up in lower case (the hash table holds lower-case names only)
//@   callsite html.ToHash[F,C09] @lowered: forall(k, 0, len(arg0), !('A' <= arg0[k] && arg0[k] <= 'Z'))
//@   ensures[F,C15] @err-at-nul: l.err != old(l.err) ==> l.err != nil && errOff(l.err) == l.r.pos && old(l.r.pos) <= errOff(l.err) && l.r.buf[errOff(l.err)] == 0 && errOff(l.err) < len(l.r.buf)-1
//@   loop * candidate[F] l.err == old(l.err)
//@   preserves[S] hScan(l)
//@   ensures[F,C09] @intag: l.inTag == old(l.inTag)
//@   ensures[F,C09] @tmpl: l.hasTmpl && !old(l.hasTmpl) ==> len(l.tmplBegin) > 0
//@   loop * candidate[F] l.hasTmpl && !old(l.hasTmpl) ==> len(l.tmplBegin) > 0
//@   loop * candidate[F] l.inTag == old(l.inTag)
//@   ensures[T]  sameMem(result, l.r.buf[old(l.r.start):l.r.pos]) && cap(result) == len(result)
//@   ensures[T]  l.text == old(l.text) || within(l.text, result)
//@   ensures[T,C02] @frame: sameBytesExcept(0, 0)
//@   loop * candidate[T] sameBytesExcept(0, 0)
//@   ensures[S]  l.r.start == l.r.pos && len(result) == l.r.pos - old(l.r.start)
//@   loop * candidate l.r.start == old(l.r.start)
//@   loop * candidate 0 <= mark
//@   loop * candidate mark <= l.r.pos - l.r.start - 2
//@   loop * candidate mark#2 <= l.r.pos - l.r.start
//@   loop * candidate 2 <= mark#2
//@   loop * candidate 1 <= mark#2
//@   loop * decreases len(l.r.buf) - l.r.pos

//@ func Lexer.Next
//@   preserves[S] hInv(l) && l.r.pos >= old(l.r.pos)
//@   requires[S] !l.inTag ==> l.r.start == l.r.pos
//@   ensures[S]  !l.inTag ==> l.r.start == l.r.pos
//@   ensures[S,C01] @progress: l.r.pos > old(l.r.pos) || result0 == ErrorToken
//@   ensures[S,C01] @sticky: old(l.r.pos) == len(l.r.buf)-1 ==> result0 == ErrorToken && l.r.pos == old(l.r.pos)
//@   ensures[S,C01] @noinvent: result0 == ErrorToken ==> result1 == nil
//@   loop * candidate l.r.start == old(l.r.start)
//@   loop * candidate l.inTag == old(l.inTag)
//@   loop * decreases len(l.r.buf) - l.r.pos
//@   ensures[F,C09] @attr-in-tag: result0 == AttributeToken ==> old(l.inTag) && l.inTag
//@   ensures[F,C09] @open: result0 == StartTagToken ==> !old(l.inTag) && l.inTag
//@   ensures[F,C09] @close: result0 == StartTagCloseToken || result0 == StartTagVoidToken ==> old(l.inTag) && !l.inTag
//@   ensures[F,C09] @content: result0 == TextToken || result0 == CommentToken || result0 == DoctypeToken || result0 == EndTagToken || result0 == SVGToken || result0 == MathToken || result0 == XMLToken || result0 == TemplateToken ==> !old(l.inTag) && !l.inTag
//@   ensures[F,C09] @raw-only-after-start: l.rawTag != 0 ==> result0 == StartTagToken || (result0 == AttributeToken || result0 == StartTagCloseToken || result0 == StartTagVoidToken || result0 == ErrorToken) && l.rawTag == old(l.rawTag)
//@   ensures[F,C09] @lower-tag: result0 == StartTagToken || result0 == EndTagToken ==> forall(k, 0, len(l.text), !isUpperC(l.text[k]))
//@   ensures[F,C09] @lower-attr: result0 == AttributeToken && len(l.tmplBegin) == 0 ==> forall(k, 0, len(l.text), !isUpperC(l.text[k]))
//@   ensures[F,C09] @has-template: l.hasTmpl ==> len(l.tmplBegin) > 0
//@   loop * candidate[F] !l.hasTmpl
// a token that starts in content is the template token whenever the opening delimiter stands at its first byte (whatever
// that delimiter begins with: '<%' and '<?' must win over tag-open)
//@   ensures[F,C09] @template-first: len(l.tmplBegin) > 0 && !old(l.inTag) && old(l.rawTag) == 0 && result0 != TemplateToken && result0 != ErrorToken ==>
//@        exists(k, 0, len(l.tmplBegin), old(l.r.buf[l.r.pos + k]) != old(l.tmplBegin[k]))
//@   loop 2 invariant[F] l.r.pos > old(l.r.pos) && !old(l.inTag) && len(l.tmplBegin) > 0 ==> exists(k, 0, len(l.tmplBegin), old(l.r.buf[l.r.pos + k]) != old(l.tmplBegin[k]))
//@   loop * candidate[F] sameBytesExcept(0, 0)
//@   loop * candidate[F] sameSlice(l.tmplBegin, old(l.tmplBegin))
//@   loop * candidate[F] l.rawTag == 0
//@   requires[T] l.r.start == l.r.pos
//@   ensures[T,C02] @slice: result0 != ErrorToken ==> len(result1) > 0 && cap(result1) == len(result1) &&
//@        hOff(l, result1) >= old(l.r.pos) && hOff(l, result1) + len(result1) == l.r.pos
//@   ensures[T,C02] @skipped: result0 != ErrorToken ==> forall(k, old(l.r.pos), hOff(l, result1), isHTMLWS(l.r.buf[k]))
//@   ensures[T,C02] @parts: (l.text == nil || result0 == ErrorToken || within(l.text, result1)) && (result0 == AttributeToken ==> l.attrVal == nil || within(l.attrVal, result1))
//@   ensures[T,C02] @frame: lowerEdit(l)
//@   ensures[T,C02] @frame-names: result0 != StartTagToken && result0 != EndTagToken && result0 != AttributeToken && result0 != SVGToken && result0 != MathToken && result0 != XMLToken && result0 != ErrorToken ==> sameBytesExcept(0, 0)
//@   ensures[T,C02] @frame-attr: result0 == AttributeToken ==> lowerEditIn(l, hOff(l, l.text), hOff(l, l.text) + len(l.text))
//@   ensures[T,C02] @frame-tag: result0 == StartTagToken || result0 == EndTagToken || result0 == SVGToken || result0 == MathToken || result0 == XMLToken ==> lowerEditIn(l, old(l.r.pos), l.r.pos)
//@   ensures[T,C02] @shifted: result0 != ErrorToken ==> l.r.start == l.r.pos
//@   loop * candidate[T] forall(k, old(l.r.pos), l.r.pos, isHTMLWS(l.r.buf[k]))
//@   loop * candidate[T] lowerEdit(l)

//@ func Lexer.Err
//@   requires[S] l != nil && l.r != nil && bufInv(l.r)
//@ func NewLexer
//@   ensures[S]  result != nil && result.r == r && !result.inTag && result.rawTag == 0 && len(result.tmplBegin) == 0 && len(result.tmplEnd) == 0
//@ func NewTemplateLexer
//@   ensures[S]  result != nil && result.r == r && !result.inTag && result.rawTag == 0

// ---- util.go (C17): the output buffer is sized exactly: len(b) + 2 quotes + 4 extra bytes per escaped quote
// characters that may not occur in an unquoted attribute value (HTML syntax): ASCII whitespace, quotes, backtick, = < >
//@ pred needsQuote(c) := c == '\t' || c == '\n' || c == '\f' || c == '\r' || c == ' ' || c == '"' || c == '\'' || c == '`' || c == '=' || c == '<' || c == '>'
//@ func EscapeAttrVal
//@   requires[S] buf != nil && disjoint(b, deref(buf))
//@   ensures[F,C17] @table: charTable['\t'] && charTable['\n'] && charTable['\f'] && charTable['\r'] && charTable[' '] && charTable['"'] && charTable['\''] && charTable['`'] && charTable['='] && charTable['<'] && charTable['>']
//@   ensures[F,C17] @unquoted-safe: sameSlice(result, b) ==> forall(k, 0, len(b), !needsQuote(b[k]))
//@   requires[F] disjoint(deref(buf), singleQuoteEntityBytes) && disjoint(deref(buf), doubleQuoteEntityBytes)
//@   ensures[S]  len(result) >= len(b)
// the quote that costs fewer escapes is used; on a tie the original quote is kept if it was a single quote, else '"'
//@   ensures[F,C17] @quote-choice: !sameSlice(result, b) && !(old(cnt(b, '\'', 0, len(b))) == 0 && origQuote == '\'') && !(old(cnt(b, '"', 0, len(b))) == 0 && origQuote == '"') ==>
//@        (old(cnt(b, '\'', 0, len(b))) > old(cnt(b, '"', 0, len(b))) ==> result[0] == '"') && (old(cnt(b, '\'', 0, len(b))) < old(cnt(b, '"', 0, len(b))) ==> result[0] == '\'') &&
//@        (old(cnt(b, '\'', 0, len(b))) == old(cnt(b, '"', 0, len(b))) ==> result[0] == ite(origQuote == '\'', '\'', '"'))
//@   ensures[F,C17] @quote-kept: !sameSlice(result, b) && ((old(cnt(b, '\'', 0, len(b))) == 0 && origQuote == '\'') || (old(cnt(b, '"', 0, len(b))) == 0 && origQuote == '"')) ==> result[0] == origQuote && len(result) == len(b) + 2
//@   ensures[F,C17] @length: !sameSlice(result, b) && (result[0] == '"' || result[0] == '\'') ==> len(result) == len(b) + 2 + 4 * ite(result[0] == '"', old(cnt(b, '"', 0, len(b))), old(cnt(b, '\'', 0, len(b))))
//@   ensures[F,C17] @no-raw-quote: !sameSlice(result, b) ==> forall(k, 1, len(result)-1, result[k] != result[0])
// ... and it IS left unquoted whenever that is allowed: no byte needs quoting and quotes are not demanded
//@   ensures[F,C17] @unquoted-when-possible: old(forall(k, 0, len(b), !charTable[b[k]])) && (!mustQuote || origQuote == 0) ==> sameSlice(result, b)
//@   ensures[F,C17] @unquoted: sameSlice(result, b) ==> forall(k, 0, len(b), !charTable[b[k]]) && (!mustQuote || origQuote == 0)
//@   ensures[F,C17] @quoted: !sameSlice(result, b) ==> len(result) >= 2 && result[0] == result[len(result)-1] && (result[0] == '"' || result[0] == '\'' || result[0] == origQuote)
//@   loop 1 invariant -1 <= rangeindex && rangeindex < len(b) && singles == cnt(b, '\'', 0, rangeindex+1) && doubles == cnt(b, '"', 0, rangeindex+1)
//@   loop 1 invariant[F] unquoted <==> forall(k, 0, rangeindex+1, !charTable[b[k]])
//@   loop 2 invariant -1 <= rangeindex && rangeindex < len(b) && (quote == '"' || quote == '\'') && len(t) == n && n == len(b) + 2 + 4*old(cnt(b, quote, 0, len(b)))
//@   loop 2 invariant 0 <= start && start <= rangeindex+1 && j == 1 + start + 4*old(cnt(b, quote, 0, rangeindex+1)) && forall(k, start, rangeindex+1, b[k] != quote)
//@   loop 2 invariant[F] forall(k, 1, j, t[k] != quote) && (escapedQuote[0] == '&' && escapedQuote[1] == '#' && escapedQuote[2] == '3' && escapedQuote[4] == ';' && (escapedQuote[3] == '4' || escapedQuote[3] == '9')) && disjoint(t, escapedQuote)
//@   loop 2 invariant disjoint(b, t) && forall(k, 0, len(b), b[k] == old(b[k])) && len(escapedQuote) == 5 && t[0] == quote
//@   loop * decreases len(b) - rangeindex

// ---- hash.go (C09, C16): soundness of the perfect hash: a non-zero result names exactly the argument
//@ func ToHash
// the generated tables are consistent with the constants: every table entry is a constant, every constant is in the
// table, and a constant's offset and length select its own name (identifier in lower case, '_' for '-') in the text
//@   ensures[F,C16] @table-entries: old(forall(i, 0, 16, _Hash_table[i] == 0 || _Hash_table[i] == Iframe || _Hash_table[i] == Math || _Hash_table[i] == Plaintext || _Hash_table[i] == Script || _Hash_table[i] == Style || _Hash_table[i] == Svg || _Hash_table[i] == Textarea || _Hash_table[i] == Title || _Hash_table[i] == Xml || _Hash_table[i] == Xmp))
//@   ensures[F,C16] @constants-in-table: old(exists(i, 0, 16, _Hash_table[i] == Iframe) && exists(i, 0, 16, _Hash_table[i] == Math) && exists(i, 0, 16, _Hash_table[i] == Plaintext) && exists(i, 0, 16, _Hash_table[i] == Script) && exists(i, 0, 16, _Hash_table[i] == Style) && exists(i, 0, 16, _Hash_table[i] == Svg) && exists(i, 0, 16, _Hash_table[i] == Textarea) && exists(i, 0, 16, _Hash_table[i] == Title) && exists(i, 0, 16, _Hash_table[i] == Xml) && exists(i, 0, 16, _Hash_table[i] == Xmp))
//@   ensures[F,C16] @text-iframe: old((Iframe & 0xff) == 6 && _Hash_text[(Iframe >> 8) + 0] == 'i' && _Hash_text[(Iframe >> 8) + 1] == 'f' && _Hash_text[(Iframe >> 8) + 2] == 'r' && _Hash_text[(Iframe >> 8) + 3] == 'a' && _Hash_text[(Iframe >> 8) + 4] == 'm' && _Hash_text[(Iframe >> 8) + 5] == 'e')
//@   ensures[F,C16] @text-math: old((Math & 0xff) == 4 && _Hash_text[(Math >> 8) + 0] == 'm' && _Hash_text[(Math >> 8) + 1] == 'a' && _Hash_text[(Math >> 8) + 2] == 't' && _Hash_text[(Math >> 8) + 3] == 'h')
//@   ensures[F,C16] @text-plaintext: old((Plaintext & 0xff) == 9 && _Hash_text[(Plaintext >> 8) + 0] == 'p' && _Hash_text[(Plaintext >> 8) + 1] == 'l' && _Hash_text[(Plaintext >> 8) + 2] == 'a' && _Hash_text[(Plaintext >> 8) + 3] == 'i' && _Hash_text[(Plaintext >> 8) + 4] == 'n' && _Hash_text[(Plaintext >> 8) + 5] == 't' && _Hash_text[(Plaintext >> 8) + 6] == 'e' && _Hash_text[(Plaintext >> 8) + 7] == 'x' && _Hash_text[(Plaintext >> 8) + 8] == 't')
//@   ensures[F,C16] @text-script: old((Script & 0xff) == 6 && _Hash_text[(Script >> 8) + 0] == 's' && _Hash_text[(Script >> 8) + 1] == 'c' && _Hash_text[(Script >> 8) + 2] == 'r' && _Hash_text[(Script >> 8) + 3] == 'i' && _Hash_text[(Script >> 8) + 4] == 'p' && _Hash_text[(Script >> 8) + 5] == 't')
//@   ensures[F,C16] @text-style: old((Style & 0xff) == 5 && _Hash_text[(Style >> 8) + 0] == 's' && _Hash_text[(Style >> 8) + 1] == 't' && _Hash_text[(Style >> 8) + 2] == 'y' && _Hash_text[(Style >> 8) + 3] == 'l' && _Hash_text[(Style >> 8) + 4] == 'e')
//@   ensures[F,C16] @text-svg: old((Svg & 0xff) == 3 && _Hash_text[(Svg >> 8) + 0] == 's' && _Hash_text[(Svg >> 8) + 1] == 'v' && _Hash_text[(Svg >> 8) + 2] == 'g')
//@   ensures[F,C16] @text-textarea: old((Textarea & 0xff) == 8 && _Hash_text[(Textarea >> 8) + 0] == 't' && _Hash_text[(Textarea >> 8) + 1] == 'e' && _Hash_text[(Textarea >> 8) + 2] == 'x' && _Hash_text[(Textarea >> 8) + 3] == 't' && _Hash_text[(Textarea >> 8) + 4] == 'a' && _Hash_text[(Textarea >> 8) + 5] == 'r' && _Hash_text[(Textarea >> 8) + 6] == 'e' && _Hash_text[(Textarea >> 8) + 7] == 'a')
//@   ensures[F,C16] @text-title: old((Title & 0xff) == 5 && _Hash_text[(Title >> 8) + 0] == 't' && _Hash_text[(Title >> 8) + 1] == 'i' && _Hash_text[(Title >> 8) + 2] == 't' && _Hash_text[(Title >> 8) + 3] == 'l' && _Hash_text[(Title >> 8) + 4] == 'e')
//@   ensures[F,C16] @text-xml: old((Xml & 0xff) == 3 && _Hash_text[(Xml >> 8) + 0] == 'x' && _Hash_text[(Xml >> 8) + 1] == 'm' && _Hash_text[(Xml >> 8) + 2] == 'l')
//@   ensures[F,C16] @text-xmp: old((Xmp & 0xff) == 3 && _Hash_text[(Xmp >> 8) + 0] == 'x' && _Hash_text[(Xmp >> 8) + 1] == 'm' && _Hash_text[(Xmp >> 8) + 2] == 'p')
//@   ensures[F,C16] @sound: result != 0 ==> len(s) == (result & 0xff) && forall(k, 0, len(s), _Hash_text[(result >> 8) + k] == s[k])
//@   loop * candidate 0 <= i && i <= len(s)
//@   loop * candidate len(t) == len(s)
//@   loop * candidate[F] forall(k, 0, i, t[k] == s[k])
//@   loop * candidate[F] len(s) == (i#2 & 0xff) && ptr(t) == ptr(_Hash_text) + (i#2 >> 8)
//@   loop * candidate[F] len(s) == (i#4 & 0xff) && ptr(t#2) == ptr(_Hash_text) + (i#4 >> 8)
//@   loop * candidate[F] forall(k, 0, i#3, t[k] == s[k])
//@   loop * candidate[F] forall(k, 0, i#5, t#2[k] == s[k])
//@   loop * candidate 0 <= i#3 && i#3 <= len(s)
//@   loop * candidate 0 <= i#5 && i#5 <= len(s)
//@   loop * candidate len(t#2) == len(s)

//@ func Hash.Bytes
//@   ensures[S] true
//@ func Hash.String
//@   ensures[S] true

//go:build verif

// Contracts for package strconv, read by /verif/engine (vcgo). Comments only.
package strconv

//@ pred isDig(c) := '0' <= c && c <= '9'
//@ pred sgn(b) := ite(len(b) > 0 && (b[0] == '+' || b[0] == '-'), 1, 0)
// p10(k) = 10^k for 0 <= k <= 19 (mathematical constant table)
//@ pred p10(k) := ite(k <= 0, 1, ite(k == 1, 10, ite(k == 2, 100, ite(k == 3, 1000, ite(k == 4, 10000, ite(k == 5, 100000, ite(k == 6, 1000000,
//@     ite(k == 7, 10000000, ite(k == 8, 100000000, ite(k == 9, 1000000000, ite(k == 10, 10000000000, ite(k == 11, 100000000000,
//@     ite(k == 12, 1000000000000, ite(k == 13, 10000000000000, ite(k == 14, 100000000000000, ite(k == 15, 1000000000000000,
//@     ite(k == 16, 10000000000000000, ite(k == 17, 100000000000000000, ite(k == 18, 1000000000000000000, 10000000000000000000)))))))))))))))))))
// ndig(x): number of decimal digits of x (0 for x <= 0), the mathematical definition: the k with 10^(k-1) <= x < 10^k
//@ pred ndig(x) := ite(x <= 0, 0, ite(x < 10, 1, ite(x < 100, 2, ite(x < 1000, 3, ite(x < 10000, 4, ite(x < 100000, 5, ite(x < 1000000, 6,
//@     ite(x < 10000000, 7, ite(x < 100000000, 8, ite(x < 1000000000, 9, ite(x < 10000000000, 10, ite(x < 100000000000, 11,
//@     ite(x < 1000000000000, 12, ite(x < 10000000000000, 13, ite(x < 100000000000000, 14, ite(x < 1000000000000000, 15,
//@     ite(x < 10000000000000000, 16, ite(x < 100000000000000000, 17, ite(x < 1000000000000000000, 18, ite(x < 10000000000000000000, 19, 20))))))))))))))))))))

//@ func ParseUint
//@   ensures[S]  0 <= result1 && result1 <= len(b)
//@   ensures[F,C14] @value: digitsVal(b, 0, digitEnd(b, 0)) <= 18446744073709551615 ==> result1 == digitEnd(b, 0) && result0 == digitsVal(b, 0, digitEnd(b, 0))
//@   ensures[F,C14] @overflow: digitsVal(b, 0, digitEnd(b, 0)) > 18446744073709551615 ==> result0 == 0 && result1 == 0
//@   loop 1 invariant 0 <= i && i <= len(b)
//@   loop 1 invariant[F] forall(k, 0, i, isDig(b[k])) && n == digitsVal(b, 0, i)
//@   loop 1 decreases len(b) - i

//@ func ParseInt
//@   ensures[S]  0 <= result1 && result1 <= len(b)
//@   ensures[F,C14] @no-digits: digitEnd(b, sgn(b)) == sgn(b) ==> result0 == 0 && result1 == 0
//@   ensures[F,C14] @positive: digitEnd(b, sgn(b)) > sgn(b) && !(len(b) > 0 && b[0] == '-') && digitsVal(b, sgn(b), digitEnd(b, sgn(b))) <= 9223372036854775807 ==>
//@        result1 == digitEnd(b, sgn(b)) && result0 == digitsVal(b, sgn(b), digitEnd(b, sgn(b)))
//@   ensures[F,C14] @negative: digitEnd(b, sgn(b)) > sgn(b) && len(b) > 0 && b[0] == '-' && digitsVal(b, sgn(b), digitEnd(b, sgn(b))) <= 9223372036854775808 ==>
//@        result1 == digitEnd(b, sgn(b)) && result0 == -digitsVal(b, sgn(b), digitEnd(b, sgn(b)))
//@   ensures[F,C14] @overflow-pos: !(len(b) > 0 && b[0] == '-') && digitsVal(b, sgn(b), digitEnd(b, sgn(b))) > 9223372036854775807 ==> result0 == 0 && result1 == 0
//@   ensures[F,C14] @overflow-neg: len(b) > 0 && b[0] == '-' && digitsVal(b, sgn(b), digitEnd(b, sgn(b))) > 9223372036854775808 ==> result0 == 0 && result1 == 0
//@   loop 1 invariant 0 <= i && i <= len(b) && start <= i && start == sgn(b) && (neg <==> (len(b) > 0 && b[0] == '-'))
//@   loop 1 invariant[F] forall(k, start, i, isDig(b[k])) && n == digitsVal(b, start, i) && n <= 9223372036854775808
//@   loop 1 decreases len(b) - i

//@ func LenUint
//@   ensures[S,C14] @digits: result == ite(i == 0, 1, ndig(i))
//@   ensures[F,C14] @definition: 1 <= result && result <= 20 && (i == 0 || (p10(result-1) <= i && (result == 20 || i < p10(result))))

//@ func LenInt
//@   ensures[S,C14] @digits: result == ite(i == 0, 1, ite(i < 0, 1 + ndig(-i), ndig(i)))

//@ pred absv(x) := ite(x < 0, -x, x)
//@ func AppendInt
//@   ensures[F,C14] @digits: num != 0 && num != -9223372036854775808 ==> forall(q, len(result) - ndig(absv(num)), len(result), result[q] == '0' + (absv(num) / p10(len(result)-1-q)) % 10)
//@   loop 1 invariant[F] num == absv(old(num)) / p10(ndig(absv(old(num))) - ndig(num)) && forall(q, i+1, len(b), b[q] == '0' + (absv(old(num)) / p10(len(b)-1-q)) % 10)
//@   ensures[S]  len(result) == len(b) + ite(num == 0, 1, ite(num < 0, 1 + ndig(-num), ndig(num)))
//@   ensures[F,C14] @prefix: forall(k, 0, len(b), result[k] == old(b[k]))
//@   ensures[F,C14] @sign: num < 0 ==> result[len(b)] == '-'
//@   loop 1 invariant num >= 0 && len(b) == old(len(b)) + n && i == old(len(b)) + ite(old(num) < 0, 1, 0) - 1 + ndig(num) && n == ite(old(num) < 0, 1 + ndig(-old(num)), ndig(old(num))) && ite(old(num) < 0, 1, 0) + ndig(num) <= n
//@   loop 1 invariant[F] forall(k, 0, old(len(b)), b[k] == old(b[k])) && (old(num) < 0 ==> b[old(len(b))] == '-')
//@   loop 1 decreases num

// AppendDecimal: the float scaling is abstracted (floating point is outside the technique); the integer rendering of
// num := int64(f*10^dec ± 0.5) is verified: exact sizing, every byte in bounds, the sign byte is never overwritten.
// E(num, dec): characters still to be written = dec decimals + dot + integer part (at least one digit).
//@ pred charsLeft(num, dec) := dec + 1 + max(1, ndig(num) - dec)
//@ func AppendDecimal
//@   noverify
//@   ensures[S]  len(result) >= len(b)
//@   ensures[F,C14] @prefix: forall(k, 0, len(b), result[k] == old(b[k]))
//@   loop 1 assume -(1<<62) < num && num < (1<<62)
//@   loop 1 invariant 0 <= dec && dec <= 17 && num != 0
//@   loop 2 invariant 0 <= dec && dec <= 17 && num >= 0 && len(b) == old(len(b)) + n &&
//@        (i + 1 - charsLeft(num, dec) == old(len(b)) || (i + 1 - charsLeft(num, dec) == old(len(b)) + 1 && b[old(len(b))] == '-'))
//@   loop 2 invariant[F] forall(k, 0, old(len(b)), b[k] == old(b[k]))
//@   loop 3 invariant num >= 0 && len(b) == old(len(b)) + n &&
//@        (i + 1 - ndig(num) == old(len(b)) || (i + 1 - ndig(num) == old(len(b)) + 1 && b[old(len(b))] == '-'))
//@   loop 3 invariant[F] forall(k, 0, old(len(b)), b[k] == old(b[k]))
//@   loop 1 decreases dec
//@   loop 2 decreases dec
//@   loop 3 decreases num

// ---- ParseFloat: number of bytes consumed (the float value itself is outside the technique)
// mantissa: sign, digits, at most one '.', digits; fMant(b) is where it ends
//@ pred fD1(b) := digitEnd(b, sgn(b))
//@ pred fMant(b) := ite(fD1(b) < len(b) && b[fD1(b)] == '.', digitEnd(b, fD1(b)+1), fD1(b))
//@ pred fEmpty(b) := fMant(b) == sgn(b) || (fMant(b) == sgn(b)+1 && b[sgn(b)] == '.')
//@ pred fHasE(b) := fMant(b) < len(b) && (b[fMant(b)] == 'e' || b[fMant(b)] == 'E')
//@ pred fExpS(b) := fMant(b) + 1 + ite(fMant(b)+1 < len(b) && (b[fMant(b)+1] == '+' || b[fMant(b)+1] == '-'), 1, 0)
//@ func ParseFloat
//@   ensures[S]  0 <= result1 && result1 <= len(b)
//@   ensures[F,C14] @empty: fEmpty(b) ==> result1 == 0
//@   ensures[F,C14] @mantissa-only: !fEmpty(b) && !fHasE(b) ==> result1 == fMant(b)
//@   ensures[F,C14] @exponent: !fEmpty(b) && fHasE(b) ==> result1 == fMant(b) || (result1 == digitEnd(b, fExpS(b)) && result1 > fExpS(b))
//@   loop 1 invariant start == sgn(b) && start <= i && i <= len(b) && (dot == -1 || (start <= dot && dot < i)) && trunk >= -1 && trunk < i
//@   loop 1 invariant[F] dot == -1 ==> forall(k, start, i, isDig(b[k]))
//@   loop 1 invariant[F] dot != -1 ==> dot == fD1(b) && b[dot] == '.' && forall(k, start, dot, isDig(b[k])) && forall(k, dot+1, i, isDig(b[k]))
//@   loop 1 decreases len(b) - i

//go:build verif

// Contracts for package strconv, read by /verif/engine (vcgo). Comments only.
package strconv

//@ pred isDig(c) := '0' <= c && c <= '9'
//@ pred sgn(b) := ite(len(b) > 0 && (b[0] == '+' || b[0] == '-'), 1, 0)
// p10(k) = 10^k for 0 <= k <= 19 (mathematical constant table)
//@ pred p10(k) := ite(k <= 0, 1, ite(k == 1, 10, ite(k == 2, 100, ite(k == 3, 1000, ite(k == 4, 10000, ite(k == 5, 100000, ite(k == 6, 1000000,
//@     ite(k == 7, 10000000, ite(k == 8, 100000000, ite(k == 9, 1000000000, ite(k == 10, 10000000000, ite(k == 11, 100000000000,
//@     ite(k == 12, 1000000000000, ite(k == 13, 10000000000000, ite(k == 14, 100000000000000, ite(k == 15, 1000000000000000,
//@     ite(k == 16, 10000000000000000, ite(k == 17, 100000000000000000, ite(k == 18, 1000000000000000000, 10000000000000000000)))))))))))))))))))
// ndig(x): number of decimal digits of x (0 for x <= 0), the mathematical definition: the k with 10^(k-1) <= x < 10^k
//@ pred ndig(x) := ite(x <= 0, 0, ite(x < 10, 1, ite(x < 100, 2, ite(x < 1000, 3, ite(x < 10000, 4, ite(x < 100000, 5, ite(x < 1000000, 6,
//@     ite(x < 10000000, 7, ite(x < 100000000, 8, ite(x < 1000000000, 9, ite(x < 10000000000, 10, ite(x < 100000000000, 11,
//@     ite(x < 1000000000000, 12, ite(x < 10000000000000, 13, ite(x < 100000000000000, 14, ite(x < 1000000000000000, 15,
//@     ite(x < 10000000000000000, 16, ite(x < 100000000000000000, 17, ite(x < 1000000000000000000, 18, ite(x < 10000000000000000000, 19, 20))))))))))))))))))))

//@ func ParseUint
//@   ensures[S]  0 <= result1 && result1 <= len(b)
//@   ensures[F,C14] @value: digitsVal(b, 0, digitEnd(b, 0)) <= 18446744073709551615 ==> result1 == digitEnd(b, 0) && result0 == digitsVal(b, 0, digitEnd(b, 0))
//@   ensures[F,C14] @overflow: digitsVal(b, 0, digitEnd(b, 0)) > 18446744073709551615 ==> result0 == 0 && result1 == 0
//@   loop 1 invariant 0 <= i && i <= len(b)
//@   loop 1 invariant[F] forall(k, 0, i, isDig(b[k])) && n == digitsVal(b, 0, i)
//@   loop 1 decreases len(b) - i

//@ func ParseInt
//@   ensures[S]  0 <= result1 && result1 <= len(b)
//@   ensures[F,C14] @no-digits: digitEnd(b, sgn(b)) == sgn(b) ==> result0 == 0 && result1 == 0
//@   ensures[F,C14] @positive: digitEnd(b, sgn(b)) > sgn(b) && !(len(b) > 0 && b[0] == '-') && digitsVal(b, sgn(b), digitEnd(b, sgn(b))) <= 9223372036854775807 ==>
//@        result1 == digitEnd(b, sgn(b)) && result0 == digitsVal(b, sgn(b), digitEnd(b, sgn(b)))
//@   ensures[F,C14] @negative: digitEnd(b, sgn(b)) > sgn(b) && len(b) > 0 && b[0] == '-' && digitsVal(b, sgn(b), digitEnd(b, sgn(b))) <= 9223372036854775808 ==>
//@        result1 == digitEnd(b, sgn(b)) && result0 == -digitsVal(b, sgn(b), digitEnd(b, sgn(b)))
//@   ensures[F,C14] @overflow-pos: !(len(b) > 0 && b[0] == '-') && digitsVal(b, sgn(b), digitEnd(b, sgn(b))) > 9223372036854775807 ==> result0 == 0 && result1 == 0
//@   ensures[F,C14] @overflow-neg: len(b) > 0 && b[0] == '-' && digitsVal(b, sgn(b), digitEnd(b, sgn(b))) > 9223372036854775808 ==> result0 == 0 && result1 == 0
//@   loop 1 invariant 0 <= i && i <= len(b) && start <= i && start == sgn(b) && (neg <==> (len(b) > 0 && b[0] == '-'))
//@   loop 1 invariant[F] forall(k, start, i, isDig(b[k])) && n == digitsVal(b, start, i) && n <= 9223372036854775808
//@   loop 1 decreases len(b) - i

//@ func LenUint
//@   ensures[S,C14] @digits: result == ite(i == 0, 1, ndig(i))
//@   ensures[F,C14] @definition: 1 <= result && result <= 20 && (i == 0 || (p10(result-1) <= i && (result == 20 || i < p10(result))))

// nd(x): number of decimal digits of |x| (0 for 0). Opaque: the functions that size and fill buffers reason with the three
// lemmas below (each proved from the definition wherever it is used), not with the 20-way case analysis.
//@ specfunc nd(x) := ite(x < 0, ndig(-x), ndig(x))
//@ lemma nd(x) @range: 0 <= nd(x) && nd(x) <= 20 && (-(1<<63) <= x && x < (1<<63) ==> nd(x) <= 19)
//@ lemma nd(x) @zero: x == 0 <==> nd(x) == 0
//@ pred tdiv10(x) := ite(x >= 0, x / 10, -((-x) / 10))
//@ lemma nd(x) @step: x != 0 && -(1<<63) <= x && x < (1<<63) ==> nd(tdiv10(x)) == nd(x) - 1

//@ func LenInt
//@   reveal nd
//@   ensures[S,C14] @digits: result == ite(i == 0, 1, ite(i < 0, 1 + ndig(-i), ndig(i)))
//@   ensures[S,C14] @nd: result == ite(i == 0, 1, ite(i < 0, 1, 0) + nd(i))

//@ pred absv(x) := ite(x < 0, -x, x)
//@ func AppendInt
//@   ensures[F,C14] @digits: num != 0 && num != -9223372036854775808 ==> forall(q, len(result) - ndig(absv(num)), len(result), result[q] == '0' + (absv(num) / p10(len(result)-1-q)) % 10)
//@   loop 1 invariant[F] num == absv(old(num)) / p10(ndig(absv(old(num))) - ndig(num)) && forall(q, i+1, len(b), b[q] == '0' + (absv(old(num)) / p10(len(b)-1-q)) % 10)
//@   ensures[S]  len(result) == len(b) + ite(num == 0, 1, ite(num < 0, 1 + ndig(-num), ndig(num)))
//@   ensures[F,C14] @prefix: forall(k, 0, len(b), result[k] == old(b[k]))
//@   ensures[F,C14] @sign: num < 0 ==> result[len(b)] == '-'
//@   loop 1 invariant num >= 0 && len(b) == old(len(b)) + n && i == old(len(b)) + ite(old(num) < 0, 1, 0) - 1 + ndig(num) && n == ite(old(num) < 0, 1 + ndig(-old(num)), ndig(old(num))) && ite(old(num) < 0, 1, 0) + ndig(num) <= n
//@   loop 1 invariant[F] forall(k, 0, old(len(b)), b[k] == old(b[k])) && (old(num) < 0 ==> b[old(len(b))] == '-')
//@   loop 1 decreases num

// AppendDecimal: the float scaling is abstracted (floating point is outside the technique); the integer rendering of
// num := int64(f*10^dec ± 0.5) is verified: exact sizing, every byte in bounds, the sign byte is never overwritten.
// E(num, dec): characters still to be written = dec decimals + dot + integer part (at least one digit).
//@ pred charsLeft(num, dec) := dec + 1 + max(1, nd(num) - dec)
// AppendFloat is floating-point code (outside the technique): AppendDecimal hands numbers of 9e18 and above to it, so its
// frame conditions are assumed there. fltLit marks a result produced by AppendFloat (a literal with a possible exponent).
//@ ghost fltLit(p, lo, hi)
//@ func AppendFloat
//@   noverify
//@   ensures[S,assumed] len(result) >= len(b)
//@   ensures[F,assumed] @prefix: forall(k, 0, len(b), result[k] == old(b[k]))
//@   ensures[F,assumed] @literal: fltLit(ptr(result), len(b), len(result)) == 1

//@ func AppendDecimal
//@   reveal nd
//@   snapshot num0 = num#1
//@   ensures[S]  len(result) >= len(b)
//@   ensures[F,C14] @prefix: forall(k, 0, len(b), result[k] == old(b[k]))
//@   ensures[F,C14] @sign: fltLit(ptr(result), len(b), len(result)) == 1 || len(result) == len(b) || (num0 < 0 ==> result[len(b)] == '-')
//@   ensures[F,C14] @wellformed: fltLit(ptr(result), len(b), len(result)) == 1 || forall(k, len(b), len(result), isDig(result[k]) || result[k] == '.' || (k == len(b) && result[k] == '-'))
//@   loop 1 invariant 0 <= dec && dec <= 17
//@   loop 1 decreases dec
//@   loop 2 assume -(1<<62) < num && num < (1<<62)
//@   loop 2 invariant 0 <= dec && dec <= 17 && num != 0 && (num0 < 0 <==> num < 0)
//@   loop 3 invariant 0 <= dec && dec <= 17 && num >= 0 && len(b) == old(len(b)) + n && i < len(b) &&
//@        i + 1 - charsLeft(num, dec) == old(len(b)) + anSgn(num0) && (num0 < 0 ==> b[old(len(b))] == '-')
//@   loop 3 invariant[F] forall(k, 0, old(len(b)), b[k] == old(b[k]))
//@   loop 3 invariant[F] forall(k, i + 1, len(b), isDig(b[k]))
//@   loop 4 invariant num >= 0 && len(b) == old(len(b)) + n && i < len(b) &&
//@        i + 1 - nd(num) == old(len(b)) + anSgn(num0) && (num0 < 0 ==> b[old(len(b))] == '-')
//@   loop 4 invariant[F] forall(k, 0, old(len(b)), b[k] == old(b[k]))
//@   loop 4 invariant[F] forall(k, i + 1, len(b), isDig(b[k]) || b[k] == '.')
//@   loop 2 decreases dec
//@   loop 3 decreases dec
//@   loop 4 decreases num

// ---- ParseFloat: number of bytes consumed (the float value itself is outside the technique)
// mantissa: sign, digits, at most one '.', digits; fMant(b) is where it ends
//@ pred fD1(b) := digitEnd(b, sgn(b))
//@ pred fMant(b) := ite(fD1(b) < len(b) && b[fD1(b)] == '.', digitEnd(b, fD1(b)+1), fD1(b))
//@ pred fEmpty(b) := fMant(b) == sgn(b) || (fMant(b) == sgn(b)+1 && b[sgn(b)] == '.')
//@ pred fHasE(b) := fMant(b) < len(b) && (b[fMant(b)] == 'e' || b[fMant(b)] == 'E')
//@ pred fExpS(b) := fMant(b) + 1 + ite(fMant(b)+1 < len(b) && (b[fMant(b)+1] == '+' || b[fMant(b)+1] == '-'), 1, 0)
//@ func ParseFloat
//@   ensures[S]  0 <= result1 && result1 <= len(b)
//@   ensures[F,C14] @empty: fEmpty(b) ==> result1 == 0
//@   ensures[F,C14] @mantissa-only: !fEmpty(b) && !fHasE(b) ==> result1 == fMant(b)
//@   ensures[F,C14] @exponent: !fEmpty(b) && fHasE(b) ==> result1 == fMant(b) || (result1 == digitEnd(b, fExpS(b)) && result1 > fExpS(b))
//@   loop 1 invariant start == sgn(b) && start <= i && i <= len(b) && (dot == -1 || (start <= dot && dot < i)) && trunk >= -1 && trunk < i
//@   loop 1 invariant[F] dot == -1 ==> forall(k, start, i, isDig(b[k]))
//@   loop 1 invariant[F] dot != -1 ==> dot == fD1(b) && b[dot] == '.' && forall(k, start, dot, isDig(b[k])) && forall(k, dot+1, i, isDig(b[k]))
//@   loop 1 decreases len(b) - i

// ---- AppendNumber / ParseNumber
// The size computed up front must be exactly the number of bytes the three printing phases write, for every digit count,
// number of decimals, separator width (1..4 bytes) and group size. The group arithmetic divides by the group size; the
// contract decides it for group sizes up to 6 (the property's own domain) by case analysis: dv(x, g) == x / g.
//@ pred dv(x, g) := ite(g == 1, x, ite(g == 2, x / 2, ite(g == 3, x / 3, ite(g == 4, x / 4, ite(g == 5, x / 5, ite(g == 6, x / 6, 0))))))
//@ pred mulw(w, x) := ite(w == 1, x, ite(w == 2, 2 * x, ite(w == 3, 3 * x, 4 * x)))
// anGrp: grouping is in force; anSeps(j, d, g): separators still to be written when j integer digits are out and d remain
//@ pred anGrp(g, gs) := 0 < g && gs != 0
//@ pred anSeps(j, d, g) := ite(d <= 0, 0, dv(j + d - 1, g) - ite(j <= 0, 0, dv(j - 1, g)))
//@ pred anSgn(x) := ite(x < 0, 1, 0)
//@ pred anSepsK(j, d, K) := ite(d <= 0, 0, (j + d - 1) / K - ite(j <= 0, 0, (j - 1) / K))
//@ pred anEqK(x, nd, j, w, g, K) := g == K ==> x == nd + mulw(w, anSepsK(j, nd, K))
// an invalid separator is replaced by a default before anything is sized or written
//@ pred anRoomK(i, lo, j, w, g, K, more) := g == K && more && j > 0 && j % K == 0 ==> i >= lo + w
//@ pred effSym(s, d) := ite(u8len(s) == -1, d, s)
//@ func AppendNumber
//@   requires[S] @domain: (groupSize <= 0 || groupSize == 1 || groupSize == 2 || groupSize == 3 || groupSize == 4 || groupSize == 5 || groupSize == 6) && dec < (1<<40)
//@   ensures[S]  len(result) >= len(b)
//@   ensures[F,C14] @prefix: forall(k, 0, len(b), result[k] == old(b[k]))
//@   ensures[F,C14] @sign: num < 0 ==> result[len(b)] == '-'
//@   ensures[F,C14] @length: len(result) == len(b) + anSgn(num) + ite(max(dec, 0) > 0, max(dec, 0) + u8len(effSym(decSym, ',')), 0) +
//@        max(1, nd(num) - max(dec, 0)) + ite(anGrp(groupSize, effSym(groupSym, '.')), mulw(u8len(effSym(groupSym, '.')), anSeps(0, nd(num) - max(dec, 0), groupSize)), 0)
//@   loop 1 invariant 0 <= dec && dec <= max(old(dec), 0) && len(b) == old(len(b)) + n && i < len(b) && sign == ite(old(num) < 0, -1, 1) && (num < 0 ==> old(num) < 0) && (num > 0 ==> old(num) > 0) &&
//@        u8len(groupSym) != -1 && u8len(decSym) != -1 && i - dec - u8len(decSym) >= old(len(b)) + anSgn(old(num)) &&
//@        nd(num) == max(0, nd(old(num)) - (max(old(dec), 0) - dec)) &&
//@        i + 1 - old(len(b)) - anSgn(old(num)) == dec + u8len(decSym) + max(1, nd(num) - dec) +
//@           ite(anGrp(groupSize, groupSym), mulw(u8len(groupSym), anSeps(0, nd(num) - dec, groupSize)), 0)
//@   loop 1 invariant[F] forall(k, 0, old(len(b)), b[k] == old(b[k]))
//@   loop 1 decreases dec
//@   loop 2 invariant 0 <= j && j + nd(num) <= 20 && len(b) == old(len(b)) + n && i < len(b) && sign == ite(old(num) < 0, -1, 1) && (num < 0 ==> old(num) < 0) && (num > 0 ==> old(num) > 0) &&
//@        u8len(groupSym) != -1 && (num == 0 ==> j >= 1)
//@   loop 2 invariant !anGrp(groupSize, groupSym) ==> i + 1 - old(len(b)) - anSgn(old(num)) == nd(num)
//@   loop 2 invariant anGrp(groupSize, groupSym) ==> anEqK(i + 1 - old(len(b)) - anSgn(old(num)), nd(num), j, u8len(groupSym), groupSize, 1)
//@   loop 2 invariant anGrp(groupSize, groupSym) ==> anEqK(i + 1 - old(len(b)) - anSgn(old(num)), nd(num), j, u8len(groupSym), groupSize, 2)
//@   loop 2 invariant anGrp(groupSize, groupSym) ==> anEqK(i + 1 - old(len(b)) - anSgn(old(num)), nd(num), j, u8len(groupSym), groupSize, 3)
//@   loop 2 invariant anGrp(groupSize, groupSym) ==> anEqK(i + 1 - old(len(b)) - anSgn(old(num)), nd(num), j, u8len(groupSym), groupSize, 4)
//@   loop 2 invariant anGrp(groupSize, groupSym) ==> anEqK(i + 1 - old(len(b)) - anSgn(old(num)), nd(num), j, u8len(groupSym), groupSize, 5)
//@   loop 2 invariant anGrp(groupSize, groupSym) ==> anEqK(i + 1 - old(len(b)) - anSgn(old(num)), nd(num), j, u8len(groupSym), groupSize, 6)
//@   loop 2 derived anGrp(groupSize, groupSym) ==> anRoomK(i, old(len(b)) + anSgn(old(num)), j, u8len(groupSym), groupSize, 1, num != 0)
//@   loop 2 derived anGrp(groupSize, groupSym) ==> anRoomK(i, old(len(b)) + anSgn(old(num)), j, u8len(groupSym), groupSize, 2, num != 0)
//@   loop 2 derived anGrp(groupSize, groupSym) ==> anRoomK(i, old(len(b)) + anSgn(old(num)), j, u8len(groupSym), groupSize, 3, num != 0)
//@   loop 2 derived anGrp(groupSize, groupSym) ==> anRoomK(i, old(len(b)) + anSgn(old(num)), j, u8len(groupSym), groupSize, 4, num != 0)
//@   loop 2 derived anGrp(groupSize, groupSym) ==> anRoomK(i, old(len(b)) + anSgn(old(num)), j, u8len(groupSym), groupSize, 5, num != 0)
//@   loop 2 derived anGrp(groupSize, groupSym) ==> anRoomK(i, old(len(b)) + anSgn(old(num)), j, u8len(groupSym), groupSize, 6, num != 0)
//@   loop 2 derived num != 0 ==> i >= old(len(b)) + anSgn(old(num))
//@   loop 2 invariant[F] forall(k, 0, old(len(b)), b[k] == old(b[k]))
//@   loop 2 decreases nd(num)

//@ func ParseNumber
// a digit advances by one byte, a group or decimal symbol by the whole length of its UTF-8 encoding
//@   loop 1 transition[F,C14] @advance: n == prev(n) + ite('0' <= prev(b[n]) && prev(b[n]) <= '9', 1, size)
//@   ensures[S] 0 <= result2 && result2 <= len(b) && 0 <= result1
//@   loop 1 invariant 0 <= n && n <= len(b) && 0 <= dec && dec <= n
//@   loop 1 decreases len(b) - n

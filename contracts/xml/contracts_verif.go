//go:build verif

// Contracts for package xml, read by /verif/engine (vcgo). Comments only.
package xml

// xmlInv: well-formed cursor; outside a tag every call starts with an empty selection.
//@ pred xmlInv(l) := l != nil && l.r != nil && inputInv(l.r) && (!l.inTag ==> l.r.start == l.r.pos)
//@ pred scanInv(l) := l != nil && l.r != nil && inputInv(l.r) && l.r.pos >= old(l.r.pos) && l.r.start >= old(l.r.start)
//@ pred isXMLWS(c) := c == ' ' || c == '\t' || c == '\n' || c == '\r'
//@ pred tokOff(l, tok) := ptr(tok) - ptr(l.r.buf)
// bufEdit: the only change to the input buffer is tab/LF/CR -> space.
//@ pred bufEdit(l) := forall(k, 0, len(l.r.buf), l.r.buf[k] == old(l.r.buf[k]) ||
//@      ((old(l.r.buf[k]) == '\t' || old(l.r.buf[k]) == '\n' || old(l.r.buf[k]) == '\r') && l.r.buf[k] == ' '))

//@ func Lexer.at
//@   requires[S] l != nil && l.r != nil && bufInv(l.r) && forall(k, 0, len(b), b[k] != 0)
//@   ensures[S]  result ==> l.r.pos + len(b) <= len(l.r.buf)-1
//@   ensures[F]  result ==> forall(k, 0, len(b), l.r.buf[l.r.pos+k] == b[k])
//@   ensures[F]  @nonzero: result ==> forall(k, l.r.pos, l.r.pos + len(b), l.r.buf[k] != 0)
//@   loop 1 invariant -1 <= rangeindex && rangeindex < len(b) && l.r.pos + rangeindex + 1 <= len(l.r.buf)-1
//@   loop 1 invariant[F] forall(j, 0, rangeindex+1, l.r.buf[l.r.pos+j] == b[j])
//@   loop 1 invariant[F] forall(q, l.r.pos, l.r.pos+rangeindex+1, l.r.buf[q] != 0)
//@   loop 1 decreases len(b) - rangeindex

//@ func Lexer.shiftDOCTYPEText
//@   preserves[S] scanInv(l)
// the internal subset: an unquoted '[' opens it, the next unquoted ']' closes it (no nesting), nothing else changes that
//@   loop 1 transition[F,C11] @bracket-flag: inBrackets <==> ite(!prev(inString) && prev(l.r.buf[l.r.pos]) == '[', true, ite(!prev(inString) && prev(l.r.buf[l.r.pos]) == ']', false, prev(inBrackets)))
//@   ensures[F,C11] @not-in-literal: l.r.buf[l.r.pos] != 0 ==> l.r.pos > old(l.r.pos) && l.r.buf[l.r.pos-1] == '>' && cnt(l.r.buf, '"', old(l.r.pos), l.r.pos-1) % 2 == 0
//@   loop 1 invariant[F] inString <==> (cnt(l.r.buf, '"', old(l.r.pos), l.r.pos) % 2 == 1)
//@   ensures[F,C11] @no-nul: forall(k, old(l.r.pos), l.r.pos, l.r.buf[k] != 0)
//@   loop * candidate[F] forall(k, old(l.r.pos), l.r.pos, l.r.buf[k] != 0)
//@   ensures[T]  sameMem(result, l.r.buf[old(l.r.start):l.r.pos]) && cap(result) == len(result)
//@   ensures[T]  l.text == nil || within(l.text, result)
//@   loop * invariant l.r.start == old(l.r.start)
//@   requires[S] l.r.pos - l.r.start >= 9
//@   ensures[S]  l.r.start == l.r.pos
//@   loop 1 decreases len(l.r.buf) - l.r.pos

//@ func Lexer.shiftCDATAText
//@   preserves[S] scanInv(l)
//@   ensures[F,C11] @no-nul: forall(k, old(l.r.pos), l.r.pos, l.r.buf[k] != 0)
//@   loop * candidate[F] forall(k, old(l.r.pos), l.r.pos, l.r.buf[k] != 0)
//@   ensures[F,C11] @first-terminator: forall(k, old(l.r.pos), l.r.pos-3, !(l.r.buf[k] == ']' && l.r.buf[k+1] == ']' && l.r.buf[k+2] == '>'))
//@   ensures[F,C11] @ends: l.r.buf[l.r.pos] == 0 || (l.r.pos >= old(l.r.pos)+3 && l.r.buf[l.r.pos-3] == ']' && l.r.buf[l.r.pos-2] == ']' && l.r.buf[l.r.pos-1] == '>')
//@   loop 1 invariant[F] forall(k, old(l.r.pos), l.r.pos, !(l.r.buf[k] == ']' && l.r.buf[k+1] == ']' && l.r.buf[k+2] == '>'))
//@   ensures[T]  sameMem(result, l.r.buf[old(l.r.start):l.r.pos]) && cap(result) == len(result)
//@   ensures[T]  l.text == nil || within(l.text, result)
//@   loop * invariant l.r.start == old(l.r.start)
//@   requires[S] l.r.pos - l.r.start >= 9
//@   ensures[S]  l.r.start == l.r.pos
//@   loop 1 decreases len(l.r.buf) - l.r.pos

//@ func Lexer.shiftCommentText
//@   preserves[S] scanInv(l)
//@   ensures[F,C11] @no-nul: forall(k, old(l.r.pos), l.r.pos, l.r.buf[k] != 0)
//@   loop * candidate[F] forall(k, old(l.r.pos), l.r.pos, l.r.buf[k] != 0)
//@   requires[T] l.text == nil
//@   ensures[F,C11] @first-terminator: forall(k, old(l.r.pos), l.r.pos-3, !(l.r.buf[k] == '-' && l.r.buf[k+1] == '-' && l.r.buf[k+2] == '>'))
//@   ensures[F,C11] @ends: l.r.buf[l.r.pos] == 0 || (l.r.pos >= old(l.r.pos)+3 && l.r.buf[l.r.pos-3] == '-' && l.r.buf[l.r.pos-2] == '-' && l.r.buf[l.r.pos-1] == '>')
//@   loop 1 invariant[F] forall(k, old(l.r.pos), l.r.pos, !(l.r.buf[k] == '-' && l.r.buf[k+1] == '-' && l.r.buf[k+2] == '>'))
//@   ensures[T]  sameMem(result, l.r.buf[old(l.r.start):l.r.pos]) && cap(result) == len(result)
//@   ensures[T]  l.text == nil || within(l.text, result)
//@   loop * invariant l.r.start == old(l.r.start)
//@   requires[S] l.r.pos - l.r.start >= 4
//@   ensures[S]  l.r.start == l.r.pos
//@   loop 1 decreases len(l.r.buf) - l.r.pos

// a tag name ends at XML white space (S ::= #x20 | #x9 | #xD | #xA), at the tag's closing delimiter, or at the terminator
//@ pred xmlNameEnd(c, c1) := c == ' ' || c == '\t' || c == '\n' || c == '\r' || c == '>' || c == 0 || ((c == '/' || c == '?') && c1 == '>')
//@ func Lexer.shiftStartTag
//@   preserves[S] scanInv(l)
//@   ensures[F,C11] @name-extent: forall(k, old(l.r.pos), l.r.pos, !xmlNameEnd(l.r.buf[k], l.r.buf[k+1])) && xmlNameEnd(l.r.buf[l.r.pos], l.r.buf[l.r.pos+1])
//@   loop 1 invariant[F] forall(k, old(l.r.pos), l.r.pos, !xmlNameEnd(l.r.buf[k], l.r.buf[k+1]))
//@   ensures[F,C11] @no-nul: forall(k, old(l.r.pos), l.r.pos, l.r.buf[k] != 0)
//@   loop * candidate[F] forall(k, old(l.r.pos), l.r.pos, l.r.buf[k] != 0)
//@   ensures[T]  sameMem(result, l.r.buf[old(l.r.start):l.r.pos]) && cap(result) == len(result)
//@   ensures[T]  l.text == nil || within(l.text, result)
//@   loop * invariant l.r.start == old(l.r.start)
//@   ensures[S]  l.r.start == l.r.pos
//@   loop 1 decreases len(l.r.buf) - l.r.pos

// an attribute name ends where a tag name would, or at '='
//@ pred xmlAttrNameEnd(c, c1) := xmlNameEnd(c, c1) || c == '='
//@ pred xmlKeyClean(l, lo, hi) := forall(k, lo, hi, !xmlAttrNameEnd(l.r.buf[k], l.r.buf[k+1]))
//@ func Lexer.shiftAttribute
//@   preserves[S] scanInv(l)
//@   ensures[F,C11,local] @key-extent: forall(k, 0, len(l.text), !xmlAttrNameEnd(l.text[k], l.text[k+1]))
//@   loop 1 invariant[F] xmlKeyClean(l, old(l.r.pos), l.r.pos)
//@   loop 2 invariant[F] xmlKeyClean(l, old(l.r.pos), nameEnd + l.r.start)
//@   loop 3 invariant[F] xmlKeyClean(l, old(l.r.pos), nameEnd + l.r.start)
//@   loop 4 invariant[F] xmlKeyClean(l, old(l.r.pos), nameEnd + l.r.start)
//@   loop 5 invariant[F] xmlKeyClean(l, old(l.r.pos), nameEnd + l.r.start)
// a quoted value runs to the first occurrence of its own quote; an unquoted one to white space or the tag's end
//@   ensures[F,C11,local] @val-quoted: l.attrVal != nil && len(l.attrVal) > 0 && (l.attrVal[0] == '"' || l.attrVal[0] == '\'') ==> forall(k, 1, len(l.attrVal) - 1, l.attrVal[k] != l.attrVal[0])
//@   ensures[F,C11,local] @val-unquoted: l.attrVal != nil && len(l.attrVal) > 0 && l.attrVal[0] != '"' && l.attrVal[0] != '\'' ==> forall(k, 0, len(l.attrVal), !xmlNameEnd(l.attrVal[k], l.attrVal[k+1]))
// ... and it ends there: the last byte of a quoted value is its closing quote, unless the input stops (NUL) before one comes
//@   ensures[F,C11,local] @val-quoted-end: l.attrVal != nil && len(l.attrVal) > 0 && (l.attrVal[0] == '"' || l.attrVal[0] == '\'') ==> (len(l.attrVal) >= 2 && l.attrVal[len(l.attrVal)-1] == l.attrVal[0]) || l.r.buf[l.r.pos] == 0
//@   loop 4 invariant[F] (delim == '"' || delim == '\'') && l.r.buf[attrPos + l.r.start] == delim && attrPos + l.r.start < l.r.pos && forall(k, attrPos + l.r.start + 1, l.r.pos, l.r.buf[k] != delim)
// white space (all four XML kinds) may stand between the name, '=' and the value: an attribute is reported without a value
// only if the first byte after that white space is not '='
//@   ensures[F,C11,local] @valueless: l.attrVal == nil ==> exists(q, l.r.pos, len(l.r.buf), forall(k, l.r.pos, q, isXMLWS(l.r.buf[k])) && !isXMLWS(l.r.buf[q]) && l.r.buf[q] != '=')
//@   ensures[F,C11,local] @value-after-ws: l.attrVal != nil ==> !isXMLWS(l.attrVal[0])
//@   loop 2 invariant[F] @ws-run: forall(k, nameEnd + l.r.start, l.r.pos, isXMLWS(l.r.buf[k]))
//@   loop 5 invariant[F] delim != '"' && delim != '\'' && l.r.buf[attrPos + l.r.start] == delim && forall(k, attrPos + l.r.start, l.r.pos, !xmlNameEnd(l.r.buf[k], l.r.buf[k+1]))
//@   ensures[F,C11] @no-nul: forall(k, old(l.r.pos), l.r.pos, l.r.buf[k] != 0)
//@   loop * candidate[F] forall(k, old(l.r.pos), l.r.pos, l.r.buf[k] != 0)
//@   ensures[T]  sameMem(result, l.r.buf[old(l.r.start):l.r.pos]) && cap(result) == len(result)
//@   ensures[T]  l.text == nil || within(l.text, result)
//@   requires[S] l.r.buf[l.r.pos] != 0 && !isXMLWS(l.r.buf[l.r.pos]) && l.r.buf[l.r.pos] != '>'
//@   requires[S] (l.r.buf[l.r.pos] == '/' || l.r.buf[l.r.pos] == '?') ==> l.r.buf[l.r.pos+1] != '>'
//@   ensures[S]  l.r.start == l.r.pos && l.r.pos > old(l.r.pos)
//@   ensures[T]  l.attrVal == nil || within(l.attrVal, result)
//@   ensures[T,C02] bufEdit(l)
//@   loop * invariant[T] bufEdit(l)
//@   loop * invariant l.r.start == old(l.r.start) && nameStart == old(l.r.pos) - old(l.r.start) && nameStart <= l.r.pos - l.r.start
//@   loop 2 invariant nameStart <= nameEnd && nameEnd <= l.r.pos - l.r.start && (nameEnd == nameStart ==> l.r.pos == old(l.r.pos) && l.r.buf[l.r.pos] == '=')
//@   loop 3 invariant nameStart <= nameEnd && nameEnd <= l.r.pos - l.r.start && l.r.pos > old(l.r.pos)
//@   loop 4 invariant nameStart <= nameEnd && nameEnd <= attrPos && attrPos <= l.r.pos - l.r.start && l.r.pos > old(l.r.pos)
//@   loop 5 invariant nameStart <= nameEnd && nameEnd <= attrPos && attrPos <= l.r.pos - l.r.start && l.r.pos > old(l.r.pos)
//@   loop * decreases len(l.r.buf) - l.r.pos

//@ func Lexer.shiftEndTag
//@   preserves[S] scanInv(l)
// ETag ::= '</' Name S? '>': all white space between the name and '>' is dropped from Text(), and the token runs to the '>'
//@   ensures[F,C11] @name-trimmed: len(l.text) > 0 ==> !isXMLWS(l.text[len(l.text)-1])
//@   ensures[F,C11,local] @extent: forall(k, old(l.r.pos), l.r.pos - 1, l.r.buf[k] != '>')
//@   loop 1 invariant[F] forall(k, old(l.r.pos), l.r.pos, l.r.buf[k] != '>')
//@   ensures[F,C11] @no-nul: forall(k, old(l.r.pos), l.r.pos, l.r.buf[k] != 0)
//@   loop * candidate[F] forall(k, old(l.r.pos), l.r.pos, l.r.buf[k] != 0)
//@   ensures[T]  sameMem(result, l.r.buf[old(l.r.start):l.r.pos]) && cap(result) == len(result)
//@   ensures[T]  l.text == nil || within(l.text, result)
//@   requires[S] l.r.pos - l.r.start >= 2
//@   ensures[S]  l.r.start == l.r.pos
//@   loop 1 invariant l.r.start == old(l.r.start)
//@   loop 1 decreases len(l.r.buf) - l.r.pos
//@   loop 2 invariant 0 <= end && end <= len(l.text)
//@   loop 2 decreases end

//@ func Lexer.Next
// an embedded NUL is reported at the NUL itself
//@   ensures[F,C15] @err-at-nul: l.err != old(l.err) ==> l.err != nil && result0 == ErrorToken && errOff(l.err) == l.r.pos && l.r.buf[l.r.pos] == 0 && l.r.pos < len(l.r.buf)-1
//@   loop * candidate[F] l.err == old(l.err)
//@   preserves[S] l != nil && l.r != nil && inputInv(l.r) && l.r.pos >= old(l.r.pos)
//@   requires[S] !l.inTag ==> l.r.start == l.r.pos
//@   ensures[S]  !l.inTag ==> l.r.start == l.r.pos
//@   loop * invariant l.r.start == old(l.r.start) && l.inTag == old(l.inTag)
//@   ensures[S,C01] @progress: l.r.pos > old(l.r.pos) || result0 == ErrorToken
//@   ensures[S,C01] @monotone: l.r.pos >= old(l.r.pos)
//@   ensures[S,C01] @sticky: old(l.r.pos) == len(l.r.buf)-1 ==> result0 == ErrorToken && l.r.pos == old(l.r.pos)
//@   ensures[S,C01] @noinvent: result0 == ErrorToken ==> result1 == nil
//@   loop * decreases len(l.r.buf) - l.r.pos
//@   requires[T] l.r.start == l.r.pos
//@   ensures[T,C02] @slice: result0 != ErrorToken ==> len(result1) > 0 && cap(result1) == len(result1) &&
//@        tokOff(l, result1) >= old(l.r.pos) && tokOff(l, result1) + len(result1) == l.r.pos
//@   ensures[T,C02] @skipped: result0 != ErrorToken ==> forall(k, old(l.r.pos), tokOff(l, result1), isXMLWS(l.r.buf[k]))
//@   ensures[T,C02] @parts: (l.text == nil || result0 == ErrorToken || within(l.text, result1)) && (result0 == AttributeToken ==> l.attrVal == nil || within(l.attrVal, result1))
//@   ensures[T,C02] @frame: bufEdit(l)
//@   ensures[T,C02] @shifted: result0 != ErrorToken ==> l.r.start == l.r.pos
//@   loop 1 invariant[T] forall(k, old(l.r.pos), l.r.pos, isXMLWS(l.r.buf[k]))
//@   ensures[F,C11] @attr-in-tag: result0 == AttributeToken ==> old(l.inTag) && l.inTag
//@   ensures[F,C11] @open: result0 == StartTagToken || result0 == StartTagPIToken ==> !old(l.inTag) && l.inTag
//@   ensures[F,C11] @close: result0 == StartTagCloseToken || result0 == StartTagCloseVoidToken || result0 == StartTagClosePIToken ==> old(l.inTag) && !l.inTag
//@   ensures[F,C11] @content: result0 == TextToken || result0 == CommentToken || result0 == CDATAToken || result0 == DOCTYPEToken || result0 == EndTagToken ==> !old(l.inTag) && !l.inTag
// character data ends at the first '<': every '<' outside a tag opens markup
//@   ensures[F,C11] @text-no-lt: result0 == TextToken ==> forall(k, 0, len(result1), result1[k] != '<')
//@   loop * candidate[F] forall(k, old(l.r.pos), l.r.pos, l.r.buf[k] != '<')
//@   ensures[F,C11] @nul: result0 == ErrorToken ==> l.err != nil || l.r.pos == len(l.r.buf)-1
//@   ensures[F,C11] @no-nul: result0 != ErrorToken ==> forall(k, old(l.r.pos), l.r.pos, l.r.buf[k] != 0)
//@   loop * candidate[F] forall(k, old(l.r.pos), l.r.pos, l.r.buf[k] != 0)
//@   ensures[F,C11] @nul-err: result0 == ErrorToken && l.r.pos < len(l.r.buf)-1 && l.r.err == nil ==> l.err != nil && l.r.buf[l.r.pos] == 0

//@ func Lexer.Err
//@   requires[S] l != nil && l.r != nil && bufInv(l.r)
//@ func NewLexer
//@   ensures[S]  result != nil && result.r == r && !result.inTag && result.err == nil

// ---- util.go (C17): exact buffer sizing by counting
//@ func EscapeAttrVal
//@   requires[S] buf != nil && disjoint(b, deref(buf))
//@   requires[F] disjoint(deref(buf), singleQuoteEntityBytes) && disjoint(deref(buf), doubleQuoteEntityBytes)
//@   ensures[S]  len(result) >= len(b) + 2
//@   ensures[F,C17] @quoted: result[0] == result[len(result)-1] && (result[0] == '"' || result[0] == '\'')
//@   ensures[F,C17] @no-raw-quote: forall(k, 1, len(result)-1, result[k] != result[0])
// the quote that needs fewer escapes is used ('"' on a tie), so the result is as short as a quoted value can be
//@   ensures[F,C17] @quote-choice: result[0] == ite(old(cnt(b, '"', 0, len(b))) > old(cnt(b, '\'', 0, len(b))), '\'', '"')
//@   ensures[F,C17] @length: len(result) == len(b) + 2 + 4 * min(old(cnt(b, '"', 0, len(b))), old(cnt(b, '\'', 0, len(b))))
//@   loop 1 invariant -1 <= rangeindex && rangeindex < len(b) && singles == cnt(b, '\'', 0, rangeindex+1) && doubles == cnt(b, '"', 0, rangeindex+1)
//@   loop 2 invariant -1 <= rangeindex && rangeindex < len(b) && (quote == '"' || quote == '\'') && len(t) == n && n == len(b) + 2 + 4*old(cnt(b, quote, 0, len(b)))
//@   loop 2 invariant 0 <= start && start <= rangeindex+1 && j == 1 + start + 4*old(cnt(b, quote, 0, rangeindex+1)) && forall(k, start, rangeindex+1, b[k] != quote)
//@   loop 2 invariant[F] forall(k, 1, j, t[k] != quote) && (escapedQuote[0] == '&' && escapedQuote[1] == '#' && escapedQuote[2] == '3' && escapedQuote[4] == ';' && (escapedQuote[3] == '4' || escapedQuote[3] == '9')) && disjoint(t, escapedQuote)
//@   loop 2 invariant disjoint(b, t) && forall(k, 0, len(b), b[k] == old(b[k])) && len(escapedQuote) == 5 && t[0] == quote
//@   loop * decreases len(b) - rangeindex

//@ func EscapeCDATAVal
//@   requires[S] buf != nil && disjoint(b, deref(buf))
//@   ensures[S]  !result1 ==> sameSlice(result0, b)
//@   ensures[S]  result1 ==> len(result0) >= len(b)
//@   loop 1 invariant -1 <= rangeindex && rangeindex < len(b) && n == 3*cnt(b, '<', 0, rangeindex+1) + 4*cnt(b, '&', 0, rangeindex+1) && n <= 12
//@   loop 2 invariant -1 <= rangeindex && rangeindex < len(b) && len(t) == len(b) + n && n == 3*old(cnt(b, '<', 0, len(b))) + 4*old(cnt(b, '&', 0, len(b)))
//@   loop 2 invariant 0 <= start && start <= rangeindex+1 && j == start + 3*old(cnt(b, '<', 0, rangeindex+1)) + 4*old(cnt(b, '&', 0, rangeindex+1)) && forall(k, start, rangeindex+1, b[k] != '<' && b[k] != '&')
//@   loop 2 invariant disjoint(b, t) && forall(k, 0, len(b), b[k] == old(b[k]))
//@   loop * decreases len(b) - rangeindex

//go:build verif

// Contracts for package buffer, read by /verif/engine (vcgo). Comments only.
package buffer

// (the last conjunct: a reader error is kept only with no data, so Err reports it from position 0 of an empty buffer)
//@ pred lexBufInv(z) := z != nil && len(z.buf) >= 1 && z.buf[len(z.buf)-1] == 0 &&
//@     0 <= z.start && z.start <= len(z.buf)-1 && 0 <= z.pos && z.pos <= len(z.buf)-1 && (z.err != nil ==> len(z.buf) == 1)
//@ pred lexerInv(z) := lexBufInv(z) && z.start <= z.pos

//@ func Lexer.Err
//@   requires[S] lexBufInv(z)
//@   ensures[S]  (result != nil) <==> (z.err != nil || z.pos >= len(z.buf)-1)
//@   ensures[F]  z.err != nil ==> result == z.err
//@   ensures[F]  z.err == nil && z.pos >= len(z.buf)-1 ==> result == io.EOF

//@ func Lexer.PeekErr
//@   requires[S] lexBufInv(z) && smallInt(pos)
//@   ensures[S]  (result != nil) <==> (z.err != nil || z.pos+pos >= len(z.buf)-1)
//@   ensures[F]  z.err != nil ==> result == z.err
//@   ensures[F]  z.err == nil && z.pos+pos >= len(z.buf)-1 ==> result == io.EOF

//@ func Lexer.Peek
//@   requires[S] lexBufInv(z) && 0 <= z.pos+pos && z.pos+pos <= len(z.buf)-1
//@   ensures[S]  result == z.buf[z.pos+pos]

//@ func Lexer.Move
//@   requires[S] lexBufInv(z) && 0 <= z.pos+n && z.pos+n <= len(z.buf)-1
//@   ensures[S]  z.pos == old(z.pos)+n

//@ func Lexer.PeekRune
//@   requires[S] lexBufInv(z) && 0 <= pos && z.pos+pos <= len(z.buf)-1
//@   ensures[S]  1 <= result1 && result1 <= 4
//@   ensures[S]  z.pos+pos < len(z.buf)-1 ==> z.pos+pos+result1 <= len(z.buf)-1

// the length follows the lead byte (as in unicode/utf8 for valid input); it is shorter only where a NUL (the terminator) follows
//@   ensures[F,C12] @len-lead: result1 <= ite(z.buf[z.pos+pos] < 0xC0, 1, ite(z.buf[z.pos+pos] < 0xE0, 2, ite(z.buf[z.pos+pos] < 0xF0, 3, 4)))
//@   ensures[F,C12] @len-full: (z.buf[z.pos+pos] >= 0xC0 && z.buf[z.pos+pos+1] != 0 ==> result1 >= 2) && (z.buf[z.pos+pos] >= 0xE0 && z.buf[z.pos+pos+1] != 0 && z.buf[z.pos+pos+2] != 0 ==> result1 >= 3) && (z.buf[z.pos+pos] >= 0xF0 && z.buf[z.pos+pos+1] != 0 && z.buf[z.pos+pos+2] != 0 && z.buf[z.pos+pos+3] != 0 ==> result1 == 4)
//@   ensures[F,C12] @value1: result1 == 1 ==> result0 == z.buf[z.pos+pos]
//@   ensures[F,C12] @value2: result1 == 2 ==> result0 == (z.buf[z.pos+pos] % 32) * 64 + z.buf[z.pos+pos+1] % 64
//@   ensures[F,C12] @value3: result1 == 3 ==> result0 == (z.buf[z.pos+pos] % 16) * 4096 + (z.buf[z.pos+pos+1] % 64) * 64 + z.buf[z.pos+pos+2] % 64
//@   ensures[F,C12] @value4: result1 == 4 ==> result0 == (z.buf[z.pos+pos] % 8) * 262144 + (z.buf[z.pos+pos+1] % 64) * 4096 + (z.buf[z.pos+pos+2] % 64) * 64 + z.buf[z.pos+pos+3] % 64

// Restore gives the borrowed byte back once: afterwards the lexer holds no way to write the caller's memory again
//@ func Lexer.Restore
//@   requires[S] z != nil
//@   ensures[F,C12] @once: z.restore == nil

//@ func Lexer.Pos
//@   requires[S] lexBufInv(z)
//@   ensures[S]  result == z.pos - z.start

//@ func Lexer.Rewind
//@   requires[S] lexBufInv(z) && 0 <= z.start+pos && z.start+pos <= len(z.buf)-1
//@   ensures[S]  z.pos == z.start+pos

//@ func Lexer.Lexeme
//@   requires[S] lexerInv(z)
//@   ensures[S]  sameMem(result, z.buf[z.start:z.pos]) && cap(result) == len(result)

//@ func Lexer.Skip
//@   ensures[S]  z.start == z.pos

//@ func Lexer.Shift
//@   requires[S] lexerInv(z)
//@   ensures[S]  sameMem(result, z.buf[old(z.start):z.pos]) && cap(result) == len(result)
//@   ensures[S]  z.start == z.pos

//@ func Lexer.Offset
//@   ensures[S]  result == z.pos

//@ func Lexer.Bytes
//@   requires[S] lexBufInv(z)
//@   ensures[S]  sameMem(result, z.buf[0:len(z.buf)-1]) && cap(result) == len(result)

//@ func Lexer.Reset
//@   ensures[S]  z.start == 0 && z.pos == 0

// ---- Reader / Writer (io contracts)
//@ pred readerInv(r) := r != nil && 0 <= r.pos && r.pos <= len(r.buf)

//@ func Reader.Read
//@   preserves[S] readerInv(r)
//@   ensures[S]  0 <= result0 && result0 <= len(b)
//@   ensures[F]  old(r.pos) >= len(r.buf) ==> result0 == 0 && result1 == io.EOF
//@   ensures[F]  old(r.pos) < len(r.buf) ==> result1 == nil && result0 == min(len(b), len(r.buf)-old(r.pos)) && r.pos == old(r.pos)+result0
//@   ensures[F]  forall(i, 0, result0, b[i] == old(r.buf[r.pos+i]))

//@ func Reader.ReadAt
//@   requires[S] r != nil && off >= 0
//@   ensures[S]  0 <= result0 && result0 <= len(b)
//@   ensures[F]  off >= len(r.buf) ==> result0 == 0 && result1 == io.EOF
//@   ensures[F]  off < len(r.buf) ==> result1 == nil && result0 == min(len(b), len(r.buf)-off)
//@   ensures[F]  forall(i, 0, result0, b[i] == old(r.buf[off+i]))

//@ func Writer.Write
//@   requires[S] w != nil
//@   ensures[S]  result0 == 0 || result0 == len(b)
//@   ensures[F]  old(len(w.buf))+len(b) <= old(cap(w.buf)) || w.expand ==> result0 == len(b) && result1 == nil && len(w.buf) == old(len(w.buf))+len(b)
//@   ensures[F]  old(len(w.buf))+len(b) > old(cap(w.buf)) && !w.expand ==> result0 == 0 && result1 == io.EOF && len(w.buf) == old(len(w.buf))

// ---- constructors
//@ func NewLexerBytes
//@   ensures[S]  result != nil && lexBufInv(result) && result.pos == 0 && result.start == 0
//@   ensures[F]  result.err == nil && len(result.buf) == len(b)+1
//@   ensures[F]  forall(i, 0, len(b), result.buf[i] == old(b[i]))
//@   ensures[F,C12] @frame: sameBytesExcept(ptr(b)+len(b), ptr(b)+len(b)+1)
//@   ensures[F,C12] @borrow: len(b) == 0 || cap(b) == len(b) ==> sameBytesExcept(0, 0)

//@ func NewLexer
//@   ensures[S]  result != nil && lexBufInv(result) && result.pos == 0 && result.start == 0

// ---- StreamLexer (C13). Ghost model (declared in the root package's contract file): stream(r, i) is the i-th byte the
// reader delivers, delivered(r) the number delivered so far. The buffer always holds the last len(buf) delivered bytes,
// so absolute stream offsets are  abs(z) + index  with  abs(z) = delivered(z.r) - len(z.buf).
// Size assumptions under which no machine integer wraps (part of the invariant, established by the constructors and kept
// by every method): positions below 2^57, capacities below 2^60, less than 2^60 bytes of free credit.
//@ pred poolInv(p) := 0 <= p.head && p.head <= len(p.pool) && 0 <= p.tail && p.tail <= len(p.pool) && p.pos >= 0 &&
//@     forall(i, 0, len(p.pool), 0 <= p.pool[i].next && p.pool[i].next <= len(p.pool) && len(p.pool[i].buf) <= cap(p.pool[i].buf) && cap(p.pool[i].buf) <= (1<<60))
//@ pred slInv(z) := z != nil && 0 <= z.start && z.start <= z.pos && z.start <= len(z.buf) && z.pos <= (1<<57) && cap(z.buf) <= (1<<60) &&
//@     z.free >= 0 && smallInt(z.pool.pos + z.free) && z.prevStart <= z.start && (z.r == nil ==> z.err != nil) && poolInv(z.pool)
//@ pred slAbs(z) := delivered(z.r) - len(z.buf)
//@ pred slView(z) := z.r != nil ==> delivered(z.r) >= len(z.buf) && forall(i, 0, len(z.buf), z.buf[i] == stream(z.r, delivered(z.r) - len(z.buf) + i))
// what a refill may change: nothing the caller can observe through absolute offsets
//@ pred slSameCursor(z) := slAbs(z) + z.start == old(slAbs(z) + z.start) && slAbs(z) + z.pos == old(slAbs(z) + z.pos) && slAbs(z) + z.prevStart == old(slAbs(z) + z.prevStart) && z.r == old(z.r)

//@ func bufferPool.free
//@   requires[S] z != nil && poolInv(z) && n >= 0 && smallInt(z.pos + n)
//@   ensures[S]  poolInv(z) && len(z.pool) == old(len(z.pool)) && z.pos <= old(z.pos) + n
//@   ensures[F]  sameBytes()
//@   loop 1 invariant poolInv(z) && len(z.pool) == old(len(z.pool)) && z.pos <= old(z.pos) + n

//@ func bufferPool.swap
//@   requires[S] z != nil && poolInv(z) && size >= 0 && size <= (1<<60) && len(oldBuf) <= cap(oldBuf) && cap(oldBuf) <= (1<<60)
//@   ensures[S]  poolInv(z) && len(result) == 0 && cap(result) >= size && cap(result) <= (1<<60) && z.pos <= old(z.pos)
// the block handed out is new memory, the buffer of a block whose bytes were all freed (inactive), or the current buffer
// itself, and the latter only when no older block is pending (tail == 0) and everything shifted from it has been freed
//@   ensures[F]  sameBytesExcept(0, 0)
//@   ensures[F,C13] @reuse: forall(i, 0, old(len(z.pool)), old(z.pool[i].active) || ptr(result) != old(ptr(z.pool[i].buf))) ==> fresh(result) || (ptr(result) == ptr(oldBuf) && old(z.tail) == 0 && old(z.pos) >= len(oldBuf))
// unless the current buffer is reused in place, it becomes the head block of the pool, with exactly the length given
//@   ensures[F,C13] @retired: ptr(result) != ptr(oldBuf) ==> z.head >= 1 && z.head <= len(z.pool) && sameSlice(z.pool[z.head-1].buf, oldBuf) && z.pool[z.head-1].active
// retired blocks form a queue in the order they were retired (Free releases them in that order): the new block is linked
// behind the previous head, and it becomes the tail only if the queue was empty
//@   ensures[F,C13] @fifo: ptr(result) != ptr(oldBuf) ==> (old(z.head) != 0 ==> z.pool[old(z.head)-1].next == z.head) && z.tail == ite(old(z.tail) == 0, z.head, old(z.tail))
// reusing the current buffer in place spends the freed credit that covered it; in every other case the credit is untouched
//@   ensures[F,C13,perpath,local] @credit: z.pos == ite(swap == -1, old(z.pos) - len(oldBuf), old(z.pos))
//@   loop 1 invariant 0 <= i && swap == -1

//@ func StreamLexer.read
//@   requires[S] slInv(z) && pos >= z.start && pos >= len(z.buf) && pos <= (1<<57) && z.prevStart >= -(1<<60)
//@   ensures[S]  slInv(z) && z.prevStart >= old(z.prevStart) - (1<<57)
//@   ensures[S]  @rebase: ite(old(z.err) == nil, z.start == 0 && z.pos == old(z.pos - z.start) && cap(z.buf) >= old(pos - z.start) + 1, z.start == old(z.start) && z.pos == old(z.pos) && sameSlice(z.buf, old(z.buf)))
//@   requires[F] slView(z)
//@   ensures[F]  slView(z)
//@   ensures[F,C13] @cursor: slSameCursor(z)
//@   ensures[F,C13] @byte: ite(old(slAbs(z)) + pos - slAbs(z) < len(z.buf), result == z.buf[old(slAbs(z)) + pos - slAbs(z)], result == 0 && z.err != nil)
//@   ensures[F,C13] @kept: len(z.buf) - z.start >= old(len(z.buf) - z.start)
// once the reader has failed (or ended) a refill changes nothing: the error is sticky and the delivered bytes stay as they are
//@   ensures[F,C13] @sticky: old(z.err) != nil ==> z.err == old(z.err) && sameSlice(z.buf, old(z.buf)) && z.pos == old(z.pos) && z.start == old(z.start) && sameBytes()
// accounting: a refill that changes buffers retires exactly the shifted bytes buf[:start] (what Free is counted against);
// the unfinished token is carried over, not retired
//@   ensures[F,C13] @retire-shifted: old(z.err) == nil && ptr(z.buf) != old(ptr(z.buf)) ==> z.pool.head >= 1 && len(z.pool.pool[z.pool.head-1].buf) == old(z.start) && ptr(z.pool.pool[z.pool.head-1].buf) == old(ptr(z.buf))
//@   loop 1 invariant d >= 0 && d <= cap(buf) && d >= old(len(z.buf)) - z.start
//@   loop 1 invariant[F] delivered(z.r) >= d && forall(i, 0, d, buf[i] == stream(z.r, delivered(z.r) - d + i))
//@   loop 1 invariant[F] delivered(z.r) - d == old(delivered(z.r) - len(z.buf)) + z.start

//@ func StreamLexer.Err
//@   requires[S] z != nil
//@   ensures[F,C13] @eof-hidden: z.err == io.EOF && z.pos < len(z.buf) ==> result == nil
//@   ensures[F,C13] @err: !(z.err == io.EOF && z.pos < len(z.buf)) ==> result == z.err

//@ func StreamLexer.Free
//@   requires[S] slInv(z) && n >= 0 && smallInt(z.pool.pos + z.free + n)
//@   ensures[S]  slInv(z) && z.free == old(z.free) + n

//@ func StreamLexer.Peek
//@   requires[S] slInv(z) && z.pos + pos >= z.start && z.pos + pos <= (1<<57) && z.prevStart >= -(1<<60)
//@   ensures[S]  slInv(z) && z.prevStart >= old(z.prevStart) - (1<<57) && z.pos <= old(z.pos) && z.pos - z.start == old(z.pos - z.start)
//@   requires[F] slView(z)
//@   ensures[F]  slView(z)
//@   ensures[F,C13] @cursor: slSameCursor(z)
//@   ensures[F,C13] @byte: ite(z.pos + pos < len(z.buf), result == z.buf[z.pos + pos], result == 0 && z.err != nil)
//@   ensures[F,C13] @noread: old(z.pos + pos < len(z.buf)) ==> sameBytes() && sameSlice(z.buf, old(z.buf)) && z.pos == old(z.pos) && z.start == old(z.start) && delivered(z.r) == old(delivered(z.r))
//@   ensures[F,C13] @sticky: old(z.err) != nil ==> z.err == old(z.err) && sameSlice(z.buf, old(z.buf)) && z.pos == old(z.pos) && z.start == old(z.start) && sameBytes()

//@ func StreamLexer.PeekRune
//@   requires[S] slInv(z) && pos >= 0 && z.pos + pos + 3 <= (1<<57) && z.prevStart >= -(1<<59)
//@   ensures[S]  slInv(z) && 1 <= result1 && result1 <= 4
//@   requires[F] slView(z)
//@   ensures[F]  slView(z)
//@   ensures[F,C13] @cursor: slSameCursor(z)
// the rune is decoded from the bytes at the cursor's absolute offsets, however many refills the look-ahead needed (stated over
// the buffer after the call, which by slView holds exactly those stream bytes)
//@   ensures[F,C13] @len: z.r != nil && z.pos + pos < len(z.buf) ==> result1 == ite(z.buf[z.pos+pos] < 0xC0, 1, ite(z.buf[z.pos+pos] < 0xE0, 2, ite(z.buf[z.pos+pos] < 0xF0, 3, 4)))
//@   ensures[F,C13] @value1: z.r != nil && z.pos + pos < len(z.buf) && result1 == 1 ==> result0 == z.buf[z.pos+pos]
//@   ensures[F,C13] @value2: z.r != nil && z.pos + pos + 1 < len(z.buf) && result1 == 2 ==> result0 == (z.buf[z.pos+pos] % 32) * 64 + z.buf[z.pos+pos+1] % 64
//@   ensures[F,C13] @value3: z.r != nil && z.pos + pos + 2 < len(z.buf) && result1 == 3 ==> result0 == (z.buf[z.pos+pos] % 16) * 4096 + (z.buf[z.pos+pos+1] % 64) * 64 + z.buf[z.pos+pos+2] % 64
//@   ensures[F,C13] @value4: z.r != nil && z.pos + pos + 3 < len(z.buf) && result1 == 4 ==> result0 == (z.buf[z.pos+pos] % 8) * 262144 + (z.buf[z.pos+pos+1] % 64) * 4096 + (z.buf[z.pos+pos+2] % 64) * 64 + z.buf[z.pos+pos+3] % 64

//@ func StreamLexer.Move
//@   requires[S] slInv(z) && z.pos + n >= z.start && z.pos + n <= (1<<57) && smallInt(n)
//@   ensures[S]  slInv(z) && z.pos == old(z.pos) + n

//@ func StreamLexer.Pos
//@   requires[S] slInv(z)
//@   ensures[S]  result == z.pos - z.start

//@ func StreamLexer.Rewind
//@   requires[S] slInv(z) && pos >= 0 && z.start + pos <= (1<<57) && smallInt(pos)
//@   ensures[S]  slInv(z) && z.pos == z.start + pos

//@ func StreamLexer.Lexeme
//@   requires[S] slInv(z) && z.pos <= len(z.buf)
//@   ensures[S]  sameMem(result, z.buf[z.start:z.pos])

//@ func StreamLexer.Skip
//@   requires[S] slInv(z) && z.pos <= len(z.buf)
//@   ensures[S]  slInv(z) && z.start == z.pos && z.pos == old(z.pos)

// Shift over bytes that were never peeked refills first; when the stream ends before the position (a Move past the end of
// the data, a caller error) the invariant is not promised.
//@ func StreamLexer.Shift
//@   requires[S] slInv(z) && (z.pos <= len(z.buf) || z.err == nil) && z.prevStart >= -(1<<60)
//@   ensures[S]  z.pos <= len(z.buf) ==> slInv(z) && z.start == z.pos
//@   requires[F] slView(z)
//@   ensures[F]  slView(z)
//@   ensures[F,C13] @abs: slAbs(z) + z.pos == old(slAbs(z) + z.pos) && slAbs(z) + z.prevStart == old(slAbs(z) + z.prevStart) && z.r == old(z.r)
// the token is the stream from the absolute start to the absolute position (when that much data exists)
// what is shifted has been read: unless the reader has ended or failed, the buffer is filled up to the position
//@   ensures[F,C13] @filled: z.r != nil && z.err == nil ==> z.pos <= len(z.buf)
//@   ensures[F,C13] @token: z.r != nil && z.pos <= len(z.buf) ==> len(result) == old(z.pos - z.start) && forall(i, 0, len(result), result[i] == stream(z.r, old(slAbs(z) + z.start) + i))

//@ func StreamLexer.ShiftLen
//@   requires[S] slInv(z) && z.prevStart >= -(1<<60)
//@   ensures[S]  slInv(z)
//@   ensures[F,C13] @count: result == slAbs(z) + z.start - old(slAbs(z) + z.prevStart) && z.prevStart == z.start && slAbs(z) == old(slAbs(z)) && result >= 0

//@ func NewStreamLexerSize
//@   requires[S] r != nil && size >= 0 && size <= (1<<60)
//@   ensures[S]  slInv(result) && result.prevStart == 0
//@ func NewStreamLexer
//@   requires[S] r != nil
//@   ensures[S]  slInv(result) && result.prevStart == 0

//@ func NewReader
//@   ensures[S]  result != nil && sameSlice(result.buf, buf) && result.pos == 0
//@   ensures[F,ghost] rlen(result) == len(buf)

//go:build verif

// Contracts for package buffer, read by /verif/engine (vcgo). Comments only.
package buffer

//@ pred lexBufInv(z) := z != nil && len(z.buf) >= 1 && z.buf[len(z.buf)-1] == 0 &&
//@     0 <= z.start && z.start <= len(z.buf)-1 && 0 <= z.pos && z.pos <= len(z.buf)-1
//@ pred lexerInv(z) := lexBufInv(z) && z.start <= z.pos

//@ func Lexer.Err
//@   requires[S] lexBufInv(z)
//@   ensures[S]  (result != nil) <==> (z.err != nil || z.pos >= len(z.buf)-1)
//@   ensures[F]  z.err != nil ==> result == z.err
//@   ensures[F]  z.err == nil && z.pos >= len(z.buf)-1 ==> result == io.EOF

//@ func Lexer.PeekErr
//@   requires[S] lexBufInv(z) && smallInt(pos)
//@   ensures[S]  (result != nil) <==> (z.err != nil || z.pos+pos >= len(z.buf)-1)
//@   ensures[F]  z.err != nil ==> result == z.err
//@   ensures[F]  z.err == nil && z.pos+pos >= len(z.buf)-1 ==> result == io.EOF

//@ func Lexer.Peek
//@   requires[S] lexBufInv(z) && 0 <= z.pos+pos && z.pos+pos <= len(z.buf)-1
//@   ensures[S]  result == z.buf[z.pos+pos]

//@ func Lexer.Move
//@   requires[S] lexBufInv(z) && 0 <= z.pos+n && z.pos+n <= len(z.buf)-1
//@   ensures[S]  z.pos == old(z.pos)+n

//@ func Lexer.PeekRune
//@   requires[S] lexBufInv(z) && 0 <= pos && z.pos+pos <= len(z.buf)-1
//@   ensures[S]  1 <= result1 && result1 <= 4
//@   ensures[S]  z.pos+pos < len(z.buf)-1 ==> z.pos+pos+result1 <= len(z.buf)-1

//@ func Lexer.Pos
//@   requires[S] lexBufInv(z)
//@   ensures[S]  result == z.pos - z.start

//@ func Lexer.Rewind
//@   requires[S] lexBufInv(z) && 0 <= z.start+pos && z.start+pos <= len(z.buf)-1
//@   ensures[S]  z.pos == z.start+pos

//@ func Lexer.Lexeme
//@   requires[S] lexerInv(z)
//@   ensures[S]  sameMem(result, z.buf[z.start:z.pos]) && cap(result) == len(result)

//@ func Lexer.Skip
//@   ensures[S]  z.start == z.pos

//@ func Lexer.Shift
//@   requires[S] lexerInv(z)
//@   ensures[S]  sameMem(result, z.buf[old(z.start):z.pos]) && cap(result) == len(result)
//@   ensures[S]  z.start == z.pos

//@ func Lexer.Offset
//@   ensures[S]  result == z.pos

//@ func Lexer.Bytes
//@   requires[S] lexBufInv(z)
//@   ensures[S]  sameMem(result, z.buf[0:len(z.buf)-1]) && cap(result) == len(result)

//@ func Lexer.Reset
//@   ensures[S]  z.start == 0 && z.pos == 0

// ---- Reader / Writer (io contracts)
//@ pred readerInv(r) := r != nil && 0 <= r.pos && r.pos <= len(r.buf)

//@ func Reader.Read
//@   preserves[S] readerInv(r)
//@   ensures[S]  0 <= result0 && result0 <= len(b)
//@   ensures[F]  old(r.pos) >= len(r.buf) ==> result0 == 0 && result1 == io.EOF
//@   ensures[F]  old(r.pos) < len(r.buf) ==> result1 == nil && result0 == min(len(b), len(r.buf)-old(r.pos)) && r.pos == old(r.pos)+result0
//@   ensures[F]  forall(i, 0, result0, b[i] == old(r.buf[r.pos+i]))

//@ func Reader.ReadAt
//@   requires[S] r != nil && off >= 0
//@   ensures[S]  0 <= result0 && result0 <= len(b)
//@   ensures[F]  off >= len(r.buf) ==> result0 == 0 && result1 == io.EOF
//@   ensures[F]  off < len(r.buf) ==> result1 == nil && result0 == min(len(b), len(r.buf)-off)
//@   ensures[F]  forall(i, 0, result0, b[i] == old(r.buf[off+i]))

//@ func Writer.Write
//@   requires[S] w != nil
//@   ensures[S]  result0 == 0 || result0 == len(b)
//@   ensures[F]  old(len(w.buf))+len(b) <= old(cap(w.buf)) || w.expand ==> result0 == len(b) && result1 == nil && len(w.buf) == old(len(w.buf))+len(b)
//@   ensures[F]  old(len(w.buf))+len(b) > old(cap(w.buf)) && !w.expand ==> result0 == 0 && result1 == io.EOF && len(w.buf) == old(len(w.buf))

// ---- constructors
//@ func NewLexerBytes
//@   ensures[S]  result != nil && lexBufInv(result) && result.pos == 0 && result.start == 0
//@   ensures[F]  result.err == nil && len(result.buf) == len(b)+1
//@   ensures[F]  forall(i, 0, len(b), result.buf[i] == old(b[i]))
//@   ensures[F,C12] @frame: sameBytesExcept(ptr(b)+len(b), ptr(b)+len(b)+1)
//@   ensures[F,C12] @borrow: len(b) == 0 || cap(b) == len(b) ==> sameBytesExcept(0, 0)

//@ func NewLexer
//@   ensures[S]  result != nil && lexBufInv(result) && result.pos == 0 && result.start == 0

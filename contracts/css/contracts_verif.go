//go:build verif

// Contracts for package css, read by /verif/engine (vcgo). Comments only.
package css

// lexInv: the lexer owns a well-formed Input whose cursor has not passed the terminator.
//@ pred lexInv(l) := l != nil && l.r != nil && inputInv(l.r)
// lexStep: a scanner only moves forward (two-state; trivially true at entry).
//@ pred lexStep(l) := lexInv(l) && l.r.pos >= old(l.r.pos)
// atEnd: the absorbing end state: cursor on the terminator (or a reader error is pending).
//@ pred atEnd(l) := l.r.err != nil || l.r.pos >= len(l.r.buf)-1

//@ func Lexer.consumeByte
//@   preserves[S] lexStep(l)
//@   requires[S] c != 0
//@   ensures[S]  result ==> l.r.pos == old(l.r.pos)+1 && old(l.r.buf[l.r.pos]) == c
//@   ensures[S]  !result ==> l.r.pos == old(l.r.pos)

//@ func Lexer.consumeComment
//@   preserves[S] lexStep(l)
//@   ensures[S]  !result ==> l.r.pos == old(l.r.pos)
//@   ensures[S]  result ==> l.r.pos >= old(l.r.pos)+2
//@   loop 1 decreases len(l.r.buf) - l.r.pos

//@ func Lexer.consumeNewline
//@   preserves[S] lexStep(l)
//@   ensures[S]  !result ==> l.r.pos == old(l.r.pos)
//@   ensures[S]  result ==> l.r.pos > old(l.r.pos)

//@ func Lexer.consumeWhitespace
//@   preserves[S] lexStep(l)
//@   ensures[S]  !result ==> l.r.pos == old(l.r.pos)
//@   ensures[S]  result ==> l.r.pos == old(l.r.pos)+1

//@ func Lexer.consumeDigit
//@   preserves[S] lexStep(l)
//@   ensures[S]  !result ==> l.r.pos == old(l.r.pos)
//@   ensures[S]  result ==> l.r.pos == old(l.r.pos)+1

//@ func Lexer.consumeHexDigit
//@   preserves[S] lexStep(l)
//@   ensures[S]  !result ==> l.r.pos == old(l.r.pos)
//@   ensures[S]  result ==> l.r.pos == old(l.r.pos)+1

//@ func Lexer.consumeEscape
//@   preserves[S] lexStep(l)
//@   ensures[S]  !result ==> l.r.pos == old(l.r.pos)
//@   ensures[S]  result ==> l.r.pos > old(l.r.pos)
//@   loop 1 invariant l.r.pos > old(l.r.pos)
//@   loop 1 decreases 6 - k

//@ func Lexer.consumeIdentToken
//@   preserves[S] lexStep(l)
//@   ensures[S]  !result ==> l.r.pos == old(l.r.pos)
//@   ensures[S]  result ==> l.r.pos > old(l.r.pos)
//@   loop 1 invariant l.r.pos > old(l.r.pos)
//@   loop 1 decreases len(l.r.buf) - l.r.pos

//@ func Lexer.consumeCustomVariableToken
//@   preserves[S] lexStep(l)
//@   requires[S] l.r.buf[l.r.pos] != 0
//@   ensures[S]  !result ==> l.r.pos == old(l.r.pos)
//@   ensures[S]  result ==> l.r.pos > old(l.r.pos)

//@ func Lexer.consumeAtKeywordToken
//@   preserves[S] lexStep(l)
//@   requires[S] l.r.buf[l.r.pos] != 0
//@   ensures[S]  !result ==> l.r.pos == old(l.r.pos)
//@   ensures[S]  result ==> l.r.pos > old(l.r.pos)

//@ func Lexer.consumeHashToken
//@   preserves[S] lexStep(l)
//@   requires[S] l.r.buf[l.r.pos] != 0
//@   ensures[S]  !result ==> l.r.pos == old(l.r.pos)
//@   ensures[S]  result ==> l.r.pos > old(l.r.pos)
//@   loop 1 invariant l.r.pos > old(l.r.pos)
//@   loop 1 decreases len(l.r.buf) - l.r.pos

//@ func Lexer.consumeNumberToken
//@   preserves[S] lexStep(l)
//@   ensures[S]  !result ==> l.r.pos == old(l.r.pos)
//@   ensures[S]  result ==> l.r.pos > old(l.r.pos)
//@   loop * invariant l.r.pos > old(l.r.pos)
//@   loop * decreases len(l.r.buf) - l.r.pos

//@ func Lexer.consumeUnicodeRangeToken
//@   preserves[S] lexStep(l)
//@   ensures[S]  !result ==> l.r.pos == old(l.r.pos)
//@   ensures[S]  result ==> l.r.pos > old(l.r.pos)
//@   loop * invariant 0 <= k && k <= l.r.pos - old(l.r.pos)
//@   loop * decreases len(l.r.buf) - l.r.pos

//@ func Lexer.consumeColumnToken
//@   preserves[S] lexStep(l)
//@   ensures[S]  !result ==> l.r.pos == old(l.r.pos)
//@   ensures[S]  result ==> l.r.pos == old(l.r.pos)+2

//@ func Lexer.consumeCDOToken
//@   preserves[S] lexStep(l)
//@   ensures[S]  !result ==> l.r.pos == old(l.r.pos)
//@   ensures[S]  result ==> l.r.pos == old(l.r.pos)+4

//@ func Lexer.consumeCDCToken
//@   preserves[S] lexStep(l)
//@   ensures[S]  !result ==> l.r.pos == old(l.r.pos)
//@   ensures[S]  result ==> l.r.pos == old(l.r.pos)+3

//@ func Lexer.consumeMatch
//@   preserves[S] lexStep(l)
//@   requires[S] l.r.buf[l.r.pos] != 0
//@   ensures[S]  result == ErrorToken ==> l.r.pos == old(l.r.pos)
//@   ensures[S]  result != ErrorToken ==> l.r.pos == old(l.r.pos)+2

//@ func Lexer.consumeBracket
//@   preserves[S] lexStep(l)
//@   ensures[S]  result == ErrorToken ==> l.r.pos == old(l.r.pos)
//@   ensures[S]  result != ErrorToken ==> l.r.pos == old(l.r.pos)+1

//@ func Lexer.consumeNumeric
//@   preserves[S] lexStep(l)
//@   ensures[S]  result == ErrorToken ==> l.r.pos == old(l.r.pos)
//@   ensures[S]  result != ErrorToken ==> l.r.pos > old(l.r.pos)

//@ func Lexer.consumeString
//@   preserves[S] lexStep(l)
//@   requires[S] l.r.buf[l.r.pos] != 0
//@   ensures[S]  result != ErrorToken && l.r.pos > old(l.r.pos)
//@   loop 1 decreases len(l.r.buf) - l.r.pos

//@ func Lexer.consumeUnquotedURL
//@   preserves[S] lexStep(l)
//@   loop 1 decreases len(l.r.buf) - l.r.pos

//@ func Lexer.consumeRemnantsBadURL
//@   preserves[S] lexStep(l)
//@   loop 1 decreases len(l.r.buf) - l.r.pos

//@ func Lexer.consumeIdentlike
//@   preserves[S] lexStep(l)
//@   ensures[S]  result == ErrorToken ==> l.r.pos == old(l.r.pos)
//@   ensures[S]  result != ErrorToken ==> l.r.pos > old(l.r.pos)
//@   loop * invariant l.r.pos > old(l.r.pos)
//@   loop * decreases len(l.r.buf) - l.r.pos

// Next: C01 (no panic, progress, sticky end), C02 (token = bytes moved over).
//@ func Lexer.Next
//@   preserves[S] lexInv(l)
//@   ensures[S,C01]  @progress: l.r.pos > old(l.r.pos) || (result0 == ErrorToken && atEnd(l) && l.r.pos == old(l.r.pos))
//@   ensures[S,C01]  @sticky: old(atEnd(l)) && old(l.r.buf[l.r.pos]) == 0 ==> result0 == ErrorToken && l.r.pos == old(l.r.pos)
//@   ensures[S,C01]  @noinvent: result0 == ErrorToken ==> result1 == nil
//@   requires[T] l.r.start == l.r.pos
//@   ensures[T,C02]  @tile: result0 != ErrorToken ==> sameMem(result1, l.r.buf[old(l.r.pos):l.r.pos]) && cap(result1) == len(result1) && len(result1) > 0
//@   ensures[T,C02]  @shifted: l.r.start == l.r.pos
//@   loop 1 invariant l.r.pos > old(l.r.pos)
//@   loop 1 invariant[T] l.r.start == old(l.r.start)
//@   loop 1 decreases len(l.r.buf) - l.r.pos

//@ func Lexer.Err
//@   requires[S] lexInv(l)
//@ func NewLexer
//@   ensures[S]  result != nil && result.r == r

// ---- hash.go (C16): soundness of the perfect hash: a non-zero result names exactly the argument
//@ func ToHash
//@   ensures[F,C16] @sound: result != 0 ==> len(s) == (result & 0xff) && forall(k, 0, len(s), _Hash_text[(result >> 8) + k] == s[k])
//@   loop * candidate 0 <= i && i <= len(s)
//@   loop * candidate len(t) == len(s)
//@   loop * candidate[F] forall(k, 0, i, t[k] == s[k])
//@   loop * candidate[F] len(s) == (i#2 & 0xff) && ptr(t) == ptr(_Hash_text) + (i#2 >> 8)
//@   loop * candidate[F] len(s) == (i#4 & 0xff) && ptr(t#2) == ptr(_Hash_text) + (i#4 >> 8)
//@   loop * candidate[F] forall(k, 0, i#3, t[k] == s[k])
//@   loop * candidate[F] forall(k, 0, i#5, t#2[k] == s[k])
//@   loop * candidate 0 <= i#3 && i#3 <= len(s)
//@   loop * candidate 0 <= i#5 && i#5 <= len(s)
//@   loop * candidate len(t#2) == len(s)

//@ func Hash.Bytes
//@   ensures[S] true
//@ func Hash.String
//@   ensures[S] true

//go:build verif

// Contracts for package css, read by /verif/engine (vcgo). Comments only.
package css

// lexInv: the lexer owns a well-formed Input whose cursor has not passed the terminator.
//@ pred lexInv(l) := l != nil && l.r != nil && inputInv(l.r)
// lexStep: a scanner only moves forward (two-state; trivially true at entry).
//@ pred lexStep(l) := lexInv(l) && l.r.pos >= old(l.r.pos)
// atEnd: the absorbing end state: cursor on the terminator (or a reader error is pending).
//@ pred atEnd(l) := l.r.err != nil || l.r.pos >= len(l.r.buf)-1

//@ func Lexer.consumeByte
//@   preserves[S] lexStep(l)
//@   requires[S] c != 0
//@   ensures[S]  result ==> l.r.pos == old(l.r.pos)+1 && old(l.r.buf[l.r.pos]) == c
//@   ensures[S]  !result ==> l.r.pos == old(l.r.pos)

//@ func Lexer.consumeComment
//@   preserves[S] lexStep(l)
//@   ensures[S]  !result ==> l.r.pos == old(l.r.pos)
//@   ensures[S]  result ==> l.r.pos >= old(l.r.pos)+2
//@   loop 1 decreases len(l.r.buf) - l.r.pos

//@ func Lexer.consumeNewline
//@   preserves[S] lexStep(l)
//@   ensures[S]  !result ==> l.r.pos == old(l.r.pos)
//@   ensures[S]  result ==> l.r.pos > old(l.r.pos)

//@ func Lexer.consumeWhitespace
//@   preserves[S] lexStep(l)
//@   ensures[S]  !result ==> l.r.pos == old(l.r.pos)
//@   ensures[S]  result ==> l.r.pos == old(l.r.pos)+1

//@ func Lexer.consumeDigit
//@   preserves[S] lexStep(l)
//@   ensures[S]  !result ==> l.r.pos == old(l.r.pos)
//@   ensures[S]  result ==> l.r.pos == old(l.r.pos)+1

//@ func Lexer.consumeHexDigit
//@   preserves[S] lexStep(l)
//@   ensures[S]  !result ==> l.r.pos == old(l.r.pos)
//@   ensures[S]  result ==> l.r.pos == old(l.r.pos)+1

//@ func Lexer.consumeEscape
//@   preserves[S] lexStep(l)
//@   ensures[S]  !result ==> l.r.pos == old(l.r.pos)
//@   ensures[S]  result ==> l.r.pos > old(l.r.pos)
//@   loop 1 invariant l.r.pos > old(l.r.pos)
//@   loop 1 decreases 6 - k

//@ func Lexer.consumeIdentToken
//@   preserves[S] lexStep(l)
//@   ensures[S]  !result ==> l.r.pos == old(l.r.pos)
//@   ensures[S]  result ==> l.r.pos > old(l.r.pos)
//@   loop 1 invariant l.r.pos > old(l.r.pos) && l.r.start == old(l.r.start)
//@   loop 1 decreases len(l.r.buf) - l.r.pos

//@ func Lexer.consumeCustomVariableToken
//@   preserves[S] lexStep(l)
//@   requires[S] l.r.buf[l.r.pos] != 0
//@   ensures[S]  !result ==> l.r.pos == old(l.r.pos)
//@   ensures[S]  result ==> l.r.pos > old(l.r.pos)

//@ func Lexer.consumeAtKeywordToken
//@   preserves[S] lexStep(l)
//@   requires[S] l.r.buf[l.r.pos] != 0
//@   ensures[S]  !result ==> l.r.pos == old(l.r.pos)
//@   ensures[S]  result ==> l.r.pos >= old(l.r.pos) + 2

//@ func Lexer.consumeHashToken
//@   preserves[S] lexStep(l)
//@   requires[S] l.r.buf[l.r.pos] != 0
//@   ensures[S]  !result ==> l.r.pos == old(l.r.pos)
//@   ensures[S]  result ==> l.r.pos > old(l.r.pos)
//@   loop 1 invariant l.r.pos > old(l.r.pos) && l.r.start == old(l.r.start)
//@   loop 1 decreases len(l.r.buf) - l.r.pos

//@ func Lexer.consumeNumberToken
//@   preserves[S] lexStep(l)
//@   ensures[S]  !result ==> l.r.pos == old(l.r.pos)
//@   ensures[S]  result ==> l.r.pos > old(l.r.pos)
//@   loop * invariant l.r.pos > old(l.r.pos)
//@   loop * decreases len(l.r.buf) - l.r.pos

//@ func Lexer.consumeUnicodeRangeToken
//@   preserves[S] lexStep(l)
//@   ensures[S]  !result ==> l.r.pos == old(l.r.pos)
//@   ensures[S]  result ==> l.r.pos > old(l.r.pos)
//@   loop * invariant 0 <= k && k <= l.r.pos - old(l.r.pos)
//@   loop * decreases len(l.r.buf) - l.r.pos

//@ func Lexer.consumeColumnToken
//@   preserves[S] lexStep(l)
//@   ensures[S]  !result ==> l.r.pos == old(l.r.pos)
//@   ensures[S]  result ==> l.r.pos == old(l.r.pos)+2

//@ func Lexer.consumeCDOToken
//@   preserves[S] lexStep(l)
//@   ensures[S]  !result ==> l.r.pos == old(l.r.pos)
//@   ensures[S]  result ==> l.r.pos == old(l.r.pos)+4

//@ func Lexer.consumeCDCToken
//@   preserves[S] lexStep(l)
//@   ensures[S]  !result ==> l.r.pos == old(l.r.pos)
//@   ensures[S]  result ==> l.r.pos == old(l.r.pos)+3

//@ func Lexer.consumeMatch
//@   ensures[S]  @kind: result == ErrorToken || result == IncludeMatchToken || result == DashMatchToken || result == PrefixMatchToken || result == SuffixMatchToken || result == SubstringMatchToken
//@   preserves[S] lexStep(l)
//@   requires[S] l.r.buf[l.r.pos] != 0
//@   ensures[S]  result == ErrorToken ==> l.r.pos == old(l.r.pos)
//@   ensures[S]  result != ErrorToken ==> l.r.pos == old(l.r.pos)+2

//@ func Lexer.consumeBracket
//@   ensures[S]  @kind: result == ErrorToken || result == LeftParenthesisToken || result == RightParenthesisToken || result == LeftBracketToken || result == RightBracketToken || result == LeftBraceToken || result == RightBraceToken
//@   preserves[S] lexStep(l)
//@   ensures[S]  result == ErrorToken ==> l.r.pos == old(l.r.pos)
//@   ensures[S]  result != ErrorToken ==> l.r.pos == old(l.r.pos)+1

//@ func Lexer.consumeNumeric
//@   ensures[S]  @kind: result == ErrorToken || result == PercentageToken || result == DimensionToken || result == NumberToken
//@   preserves[S] lexStep(l)
//@   ensures[S]  result == ErrorToken ==> l.r.pos == old(l.r.pos)
//@   ensures[S]  result != ErrorToken ==> l.r.pos > old(l.r.pos)

//@ func Lexer.consumeString
//@   ensures[S]  @kind: result == BadStringToken || result == StringToken
//@   preserves[S] lexStep(l)
//@   requires[S] l.r.buf[l.r.pos] != 0
//@   ensures[S]  result != ErrorToken && l.r.pos > old(l.r.pos)
//@   loop 1 decreases len(l.r.buf) - l.r.pos

//@ func Lexer.consumeUnquotedURL
//@   preserves[S] lexStep(l)
//@   loop 1 decreases len(l.r.buf) - l.r.pos

//@ func Lexer.consumeRemnantsBadURL
//@   preserves[S] lexStep(l)
//@   loop 1 decreases len(l.r.buf) - l.r.pos

//@ func Lexer.consumeIdentlike
//@   ensures[S]  @kind: result == ErrorToken || result == IdentToken || result == FunctionToken || result == BadURLToken || result == URLToken
//@   preserves[S] lexStep(l)
//@   ensures[S]  result == ErrorToken ==> l.r.pos == old(l.r.pos)
//@   ensures[S]  result != ErrorToken ==> l.r.pos > old(l.r.pos)
//@   loop * invariant l.r.pos > old(l.r.pos)
//@   loop * decreases len(l.r.buf) - l.r.pos

// Next: C01 (no panic, progress, sticky end), C02 (token = bytes moved over).
//@ func Lexer.Next
//@   preserves[S] lexInv(l)
//@   ensures[S,C01]  @progress: l.r.pos > old(l.r.pos) || (result0 == ErrorToken && atEnd(l) && l.r.pos == old(l.r.pos))
//@   ensures[S,C01]  @sticky: old(atEnd(l)) && old(l.r.buf[l.r.pos]) == 0 ==> result0 == ErrorToken && l.r.pos == old(l.r.pos)
//@   ensures[S,C01]  @noinvent: result0 == ErrorToken ==> result1 == nil
//@   requires[S] l.r.start == l.r.pos
//@   ensures[S]  @toklen: l.r.start == l.r.pos && (result0 != ErrorToken ==> len(result1) >= 1 && len(result1) == l.r.pos - old(l.r.pos) && cap(result1) == len(result1))
//@   ensures[S]  @atkw: result0 == AtKeywordToken ==> len(result1) >= 2
//@   ensures[T,C02]  @tile: result0 != ErrorToken ==> sameMem(result1, l.r.buf[old(l.r.pos):l.r.pos]) && cap(result1) == len(result1) && len(result1) > 0
//@   ensures[T,C02]  @shifted: l.r.start == l.r.pos
//@   loop 1 invariant l.r.pos > old(l.r.pos) && l.r.start == old(l.r.start)
//@   loop 1 decreases len(l.r.buf) - l.r.pos

//@ func Lexer.Err
//@   requires[S] lexInv(l)
//@ func NewLexer
//@   ensures[S]  result != nil && result.r == r

// ---- hash.go (C16): soundness of the perfect hash: a non-zero result names exactly the argument
//@ func ToHash
//@   ensures[F,C16] @sound: result != 0 ==> len(s) == (result & 0xff) && forall(k, 0, len(s), _Hash_text[(result >> 8) + k] == s[k])
//@   loop * candidate 0 <= i && i <= len(s)
//@   loop * candidate len(t) == len(s)
//@   loop * candidate[F] forall(k, 0, i, t[k] == s[k])
//@   loop * candidate[F] len(s) == (i#2 & 0xff) && ptr(t) == ptr(_Hash_text) + (i#2 >> 8)
//@   loop * candidate[F] len(s) == (i#4 & 0xff) && ptr(t#2) == ptr(_Hash_text) + (i#4 >> 8)
//@   loop * candidate[F] forall(k, 0, i#3, t[k] == s[k])
//@   loop * candidate[F] forall(k, 0, i#5, t#2[k] == s[k])
//@   loop * candidate 0 <= i#3 && i#3 <= len(s)
//@   loop * candidate 0 <= i#5 && i#5 <= len(s)
//@   loop * candidate len(t#2) == len(s)

//@ func Hash.Bytes
//@   ensures[S] true
//@ func Hash.String
//@   ensures[S] true

// ===================================================================== parse.go (C01, C08)
//@ pred isRootState(f) := f == fn("css.Parser.parseStylesheet") || f == fn("css.Parser.parseDeclarationList")
//@ pred isAtRuleBlock(f) := f == fn("css.Parser.parseAtRuleRuleList") || f == fn("css.Parser.parseAtRuleDeclarationList") || f == fn("css.Parser.parseAtRuleUnknown")
// cpM: progress measure of the parser
//@ pred cpM(p) := 2*(len(p.l.r.buf) - p.l.r.pos) + len(p.state) + ite(p.prevEnd, 1, 0)
//@ pred isBlockState(f) := f == fn("css.Parser.parseAtRuleRuleList") || f == fn("css.Parser.parseAtRuleDeclarationList") ||
//@      f == fn("css.Parser.parseAtRuleUnknown") || f == fn("css.Parser.parseQualifiedRuleDeclarationList")
// tokOK: what the parser knows about a token handed out by the lexer
//@ pred tokOK(tt, data, p) := (tt == DelimToken || tt == AtKeywordToken || tt == IdentToken ==> len(data) >= 1) && (tt == AtKeywordToken ==> len(data) >= 2) && len(data) <= p.l.r.pos && (cap(data) == len(data) || disjoint(data, p.l.r.buf))
// cpInv: cursor well-formed; the state stack is never empty, its bottom is a root state and every other entry a block state
//@ pred cpInv(p) := p != nil && p.l != nil && lexInv(p.l) && p.l.r.start == p.l.r.pos && len(p.state) >= 1 && isRootState(p.state[0]) &&
//@      forall(i, 1, len(p.state), isBlockState(p.state[i])) && tokOK(p.tt, p.data, p) && (p.prevEnd ==> p.l.r.pos >= 1) && (p.tt == CommentToken ==> len(p.state) == 1) &&
//@      0 <= p.errPos && p.errPos <= len(p.l.r.buf)-1

//@ func Parser.popToken
//@   preserves[S] p != nil && p.l != nil && lexInv(p.l) && p.l.r.start == p.l.r.pos && p.l.r.pos >= old(p.l.r.pos)
//@   ensures[S]  tokOK(result0, result1, p) && len(result1) <= p.l.r.pos - old(p.l.r.pos) && (result0 != ErrorToken ==> p.l.r.pos > old(p.l.r.pos)) && (result0 == RightBraceToken ==> p.l.r.pos >= 1) && (result0 == CommentToken ==> allowComment && len(p.state) == 1)
//@   loop 1 invariant tokOK(tt, data, p) && len(data) <= p.l.r.pos - old(p.l.r.pos) && (tt != ErrorToken ==> p.l.r.pos > old(p.l.r.pos))
//@   loop 1 decreases ite((!p.keepWS && tt == WhitespaceToken) || tt == CommentToken, len(p.l.r.buf) - p.l.r.pos + 1, 0)

//@ func Parser.parseStylesheet
//@   preserves[S] cpInv(p) && p.l.r.pos >= old(p.l.r.pos)
//@   requires[S] p.state[len(p.state)-1] == self() || (isBlockState(p.state[len(p.state)-1]) && !isBlockState(self()) && p.tt != ErrorToken && p.tt != SemicolonToken && p.tt != CommentToken && p.tt != RightBraceToken)
//@   ensures[F,C08] @begin-atrule: result == BeginAtRuleGrammar ==> len(p.state) == old(len(p.state)) + 1 && isAtRuleBlock(p.state[len(p.state)-1])
//@   ensures[F,C08] @begin-ruleset: result == BeginRulesetGrammar ==> len(p.state) == old(len(p.state)) + 1 && p.state[len(p.state)-1] == fn("css.Parser.parseQualifiedRuleDeclarationList")
//@   ensures[F,C08] @end-atrule: result == EndAtRuleGrammar ==> len(p.state) == old(len(p.state)) - 1 && isAtRuleBlock(old(p.state[len(p.state)-1]))
//@   ensures[F,C08] @end-ruleset: result == EndRulesetGrammar ==> len(p.state) == old(len(p.state)) - 1 && old(p.state[len(p.state)-1]) == fn("css.Parser.parseQualifiedRuleDeclarationList")
//@   ensures[F,C08] @same-depth: result == DeclarationGrammar || result == TokenGrammar || result == CommentGrammar || result == AtRuleGrammar || result == CustomPropertyGrammar ==> len(p.state) == old(len(p.state))
//@   ensures[F,C08] @stack-prefix: forall(i, 0, min(len(p.state), old(len(p.state))), p.state[i] == old(p.state[i]))
//@   ensures[F,C08] @eof-closed: result == ErrorGrammar && p.err == "" ==> len(p.state) == 1

//@ func Parser.parseDeclarationList
//@   loop * candidate p.tt != CommentToken
//@   loop * invariant old(p.tt) != SemicolonToken && old(p.tt) != CommentToken ==> p.tt == old(p.tt)
//@   loop * candidate len(p.state) == old(len(p.state))
//@   loop * candidate p.prevEnd == old(p.prevEnd)
//@   loop * candidate forall(i, 0, len(p.state), p.state[i] == old(p.state[i]))
//@   loop * candidate p.err == old(p.err)
//@   loop * invariant old(p.tt) == ErrorToken ==> p.tt == ErrorToken && len(p.state) == old(len(p.state)) && p.l.r.pos == old(p.l.r.pos) && p.prevEnd == old(p.prevEnd)
//@   preserves[S] cpInv(p) && p.l.r.pos >= old(p.l.r.pos)
//@   requires[S] p.state[len(p.state)-1] == self() || (isBlockState(p.state[len(p.state)-1]) && !isBlockState(self()) && p.tt != ErrorToken && p.tt != SemicolonToken && p.tt != CommentToken && p.tt != RightBraceToken)
//@   ensures[F,C08] @begin-atrule: result == BeginAtRuleGrammar ==> len(p.state) == old(len(p.state)) + 1 && isAtRuleBlock(p.state[len(p.state)-1])
//@   ensures[F,C08] @begin-ruleset: result == BeginRulesetGrammar ==> len(p.state) == old(len(p.state)) + 1 && p.state[len(p.state)-1] == fn("css.Parser.parseQualifiedRuleDeclarationList")
//@   ensures[F,C08] @end-atrule: result == EndAtRuleGrammar ==> len(p.state) == old(len(p.state)) - 1 && isAtRuleBlock(old(p.state[len(p.state)-1]))
//@   ensures[F,C08] @end-ruleset: result == EndRulesetGrammar ==> len(p.state) == old(len(p.state)) - 1 && old(p.state[len(p.state)-1]) == fn("css.Parser.parseQualifiedRuleDeclarationList")
//@   ensures[F,C08] @same-depth: result == DeclarationGrammar || result == TokenGrammar || result == CommentGrammar || result == AtRuleGrammar || result == CustomPropertyGrammar ==> len(p.state) == old(len(p.state))
//@   ensures[F,C08] @stack-prefix: forall(i, 0, min(len(p.state), old(len(p.state))), p.state[i] == old(p.state[i]))
//@   ensures[F,C08] @eof-closed: result == ErrorGrammar && p.err == "" ==> len(p.state) == 1

//@ func Parser.parseAtRuleRuleList
//@   preserves[S] cpInv(p) && p.l.r.pos >= old(p.l.r.pos)
//@   requires[S] p.state[len(p.state)-1] == self() || (isBlockState(p.state[len(p.state)-1]) && !isBlockState(self()) && p.tt != ErrorToken && p.tt != SemicolonToken && p.tt != CommentToken && p.tt != RightBraceToken)
//@   ensures[F,C08] @begin-atrule: result == BeginAtRuleGrammar ==> len(p.state) == old(len(p.state)) + 1 && isAtRuleBlock(p.state[len(p.state)-1])
//@   ensures[F,C08] @begin-ruleset: result == BeginRulesetGrammar ==> len(p.state) == old(len(p.state)) + 1 && p.state[len(p.state)-1] == fn("css.Parser.parseQualifiedRuleDeclarationList")
//@   ensures[F,C08] @end-atrule: result == EndAtRuleGrammar ==> len(p.state) == old(len(p.state)) - 1 && isAtRuleBlock(old(p.state[len(p.state)-1]))
//@   ensures[F,C08] @end-ruleset: result == EndRulesetGrammar ==> len(p.state) == old(len(p.state)) - 1 && old(p.state[len(p.state)-1]) == fn("css.Parser.parseQualifiedRuleDeclarationList")
//@   ensures[F,C08] @same-depth: result == DeclarationGrammar || result == TokenGrammar || result == CommentGrammar || result == AtRuleGrammar || result == CustomPropertyGrammar ==> len(p.state) == old(len(p.state))
//@   ensures[F,C08] @stack-prefix: forall(i, 0, min(len(p.state), old(len(p.state))), p.state[i] == old(p.state[i]))
//@   ensures[F,C08] @eof-closed: result == ErrorGrammar && p.err == "" ==> len(p.state) == 1

//@ func Parser.parseAtRuleDeclarationList
//@   loop * candidate len(p.state) == old(len(p.state))
//@   loop * candidate p.prevEnd == old(p.prevEnd)
//@   loop * candidate forall(i, 0, len(p.state), p.state[i] == old(p.state[i]))
//@   loop * candidate p.err == old(p.err)
//@   loop * invariant old(p.tt) == ErrorToken ==> p.tt == ErrorToken && len(p.state) == old(len(p.state)) && p.l.r.pos == old(p.l.r.pos) && p.prevEnd == old(p.prevEnd)
//@   preserves[S] cpInv(p) && p.l.r.pos >= old(p.l.r.pos)
//@   requires[S] p.state[len(p.state)-1] == self() || (isBlockState(p.state[len(p.state)-1]) && !isBlockState(self()) && p.tt != ErrorToken && p.tt != SemicolonToken && p.tt != CommentToken && p.tt != RightBraceToken)
//@   ensures[F,C08] @begin-atrule: result == BeginAtRuleGrammar ==> len(p.state) == old(len(p.state)) + 1 && isAtRuleBlock(p.state[len(p.state)-1])
//@   ensures[F,C08] @begin-ruleset: result == BeginRulesetGrammar ==> len(p.state) == old(len(p.state)) + 1 && p.state[len(p.state)-1] == fn("css.Parser.parseQualifiedRuleDeclarationList")
//@   ensures[F,C08] @end-atrule: result == EndAtRuleGrammar ==> len(p.state) == old(len(p.state)) - 1 && isAtRuleBlock(old(p.state[len(p.state)-1]))
//@   ensures[F,C08] @end-ruleset: result == EndRulesetGrammar ==> len(p.state) == old(len(p.state)) - 1 && old(p.state[len(p.state)-1]) == fn("css.Parser.parseQualifiedRuleDeclarationList")
//@   ensures[F,C08] @same-depth: result == DeclarationGrammar || result == TokenGrammar || result == CommentGrammar || result == AtRuleGrammar || result == CustomPropertyGrammar ==> len(p.state) == old(len(p.state))
//@   ensures[F,C08] @stack-prefix: forall(i, 0, min(len(p.state), old(len(p.state))), p.state[i] == old(p.state[i]))
//@   ensures[F,C08] @eof-closed: result == ErrorGrammar && p.err == "" ==> len(p.state) == 1

//@ func Parser.parseAtRuleUnknown
//@   preserves[S] cpInv(p) && p.l.r.pos >= old(p.l.r.pos)
//@   requires[S] p.state[len(p.state)-1] == self() || (isBlockState(p.state[len(p.state)-1]) && !isBlockState(self()) && p.tt != ErrorToken && p.tt != SemicolonToken && p.tt != CommentToken && p.tt != RightBraceToken)
//@   ensures[F,C08] @begin-atrule: result == BeginAtRuleGrammar ==> len(p.state) == old(len(p.state)) + 1 && isAtRuleBlock(p.state[len(p.state)-1])
//@   ensures[F,C08] @begin-ruleset: result == BeginRulesetGrammar ==> len(p.state) == old(len(p.state)) + 1 && p.state[len(p.state)-1] == fn("css.Parser.parseQualifiedRuleDeclarationList")
//@   ensures[F,C08] @end-atrule: result == EndAtRuleGrammar ==> len(p.state) == old(len(p.state)) - 1 && isAtRuleBlock(old(p.state[len(p.state)-1]))
//@   ensures[F,C08] @end-ruleset: result == EndRulesetGrammar ==> len(p.state) == old(len(p.state)) - 1 && old(p.state[len(p.state)-1]) == fn("css.Parser.parseQualifiedRuleDeclarationList")
//@   ensures[F,C08] @same-depth: result == DeclarationGrammar || result == TokenGrammar || result == CommentGrammar || result == AtRuleGrammar || result == CustomPropertyGrammar ==> len(p.state) == old(len(p.state))
//@   ensures[F,C08] @stack-prefix: forall(i, 0, min(len(p.state), old(len(p.state))), p.state[i] == old(p.state[i]))
//@   ensures[F,C08] @eof-closed: result == ErrorGrammar && p.err == "" ==> len(p.state) == 1

//@ func Parser.parseQualifiedRuleDeclarationList
//@   loop * candidate len(p.state) == old(len(p.state))
//@   loop * candidate p.prevEnd == old(p.prevEnd)
//@   loop * candidate forall(i, 0, len(p.state), p.state[i] == old(p.state[i]))
//@   loop * candidate p.err == old(p.err)
//@   loop * invariant old(p.tt) == ErrorToken ==> p.tt == ErrorToken && len(p.state) == old(len(p.state)) && p.l.r.pos == old(p.l.r.pos) && p.prevEnd == old(p.prevEnd)
//@   preserves[S] cpInv(p) && p.l.r.pos >= old(p.l.r.pos)
//@   requires[S] p.state[len(p.state)-1] == self() || (isBlockState(p.state[len(p.state)-1]) && !isBlockState(self()) && p.tt != ErrorToken && p.tt != SemicolonToken && p.tt != CommentToken && p.tt != RightBraceToken)
//@   ensures[F,C08] @begin-atrule: result == BeginAtRuleGrammar ==> len(p.state) == old(len(p.state)) + 1 && isAtRuleBlock(p.state[len(p.state)-1])
//@   ensures[F,C08] @begin-ruleset: result == BeginRulesetGrammar ==> len(p.state) == old(len(p.state)) + 1 && p.state[len(p.state)-1] == fn("css.Parser.parseQualifiedRuleDeclarationList")
//@   ensures[F,C08] @end-atrule: result == EndAtRuleGrammar ==> len(p.state) == old(len(p.state)) - 1 && isAtRuleBlock(old(p.state[len(p.state)-1]))
//@   ensures[F,C08] @end-ruleset: result == EndRulesetGrammar ==> len(p.state) == old(len(p.state)) - 1 && old(p.state[len(p.state)-1]) == fn("css.Parser.parseQualifiedRuleDeclarationList")
//@   ensures[F,C08] @same-depth: result == DeclarationGrammar || result == TokenGrammar || result == CommentGrammar || result == AtRuleGrammar || result == CustomPropertyGrammar ==> len(p.state) == old(len(p.state))
//@   ensures[F,C08] @stack-prefix: forall(i, 0, min(len(p.state), old(len(p.state))), p.state[i] == old(p.state[i]))
//@   ensures[F,C08] @eof-closed: result == ErrorGrammar && p.err == "" ==> len(p.state) == 1

//@ func Parser.parseAtRule
//@   loop * candidate len(p.state) == old(len(p.state))
//@   loop * candidate p.prevEnd == old(p.prevEnd)
//@   loop * candidate forall(i, 0, len(p.state), p.state[i] == old(p.state[i]))
//@   loop * candidate p.err == old(p.err)
//@   preserves[S] cpInv(p) && p.l.r.pos >= old(p.l.r.pos)
//@   ensures[F,C08] @begin-atrule: result == BeginAtRuleGrammar ==> len(p.state) == old(len(p.state)) + 1 && isAtRuleBlock(p.state[len(p.state)-1])
//@   ensures[F,C08] @begin-ruleset: result == BeginRulesetGrammar ==> len(p.state) == old(len(p.state)) + 1 && p.state[len(p.state)-1] == fn("css.Parser.parseQualifiedRuleDeclarationList")
//@   ensures[F,C08] @end-atrule: result == EndAtRuleGrammar ==> len(p.state) == old(len(p.state)) - 1 && isAtRuleBlock(old(p.state[len(p.state)-1]))
//@   ensures[F,C08] @end-ruleset: result == EndRulesetGrammar ==> len(p.state) == old(len(p.state)) - 1 && old(p.state[len(p.state)-1]) == fn("css.Parser.parseQualifiedRuleDeclarationList")
//@   ensures[F,C08] @same-depth: result == DeclarationGrammar || result == TokenGrammar || result == CommentGrammar || result == AtRuleGrammar || result == CustomPropertyGrammar ==> len(p.state) == old(len(p.state))
//@   ensures[F,C08] @stack-prefix: forall(i, 0, min(len(p.state), old(len(p.state))), p.state[i] == old(p.state[i]))
//@   ensures[F,C08] @eof-closed: result == ErrorGrammar && p.err == "" ==> len(p.state) == 1
//@   requires[S] p.tt == AtKeywordToken
//@   loop * decreases len(p.l.r.buf) - p.l.r.pos
//@ func Parser.parseQualifiedRule
//@   loop * candidate len(p.state) == old(len(p.state))
//@   loop * candidate p.prevEnd == old(p.prevEnd)
//@   loop * candidate forall(i, 0, len(p.state), p.state[i] == old(p.state[i]))
//@   loop * candidate p.err == old(p.err)
//@   loop * candidate p.tt != CommentToken
//@   loop * candidate first || p.tt == WhitespaceToken
//@   preserves[S] cpInv(p) && p.l.r.pos >= old(p.l.r.pos)
//@   ensures[F,C08] @begin-atrule: result == BeginAtRuleGrammar ==> len(p.state) == old(len(p.state)) + 1 && isAtRuleBlock(p.state[len(p.state)-1])
//@   ensures[F,C08] @begin-ruleset: result == BeginRulesetGrammar ==> len(p.state) == old(len(p.state)) + 1 && p.state[len(p.state)-1] == fn("css.Parser.parseQualifiedRuleDeclarationList")
//@   ensures[F,C08] @end-atrule: result == EndAtRuleGrammar ==> len(p.state) == old(len(p.state)) - 1 && isAtRuleBlock(old(p.state[len(p.state)-1]))
//@   ensures[F,C08] @end-ruleset: result == EndRulesetGrammar ==> len(p.state) == old(len(p.state)) - 1 && old(p.state[len(p.state)-1]) == fn("css.Parser.parseQualifiedRuleDeclarationList")
//@   ensures[F,C08] @same-depth: result == DeclarationGrammar || result == TokenGrammar || result == CommentGrammar || result == AtRuleGrammar || result == CustomPropertyGrammar ==> len(p.state) == old(len(p.state))
//@   ensures[F,C08] @stack-prefix: forall(i, 0, min(len(p.state), old(len(p.state))), p.state[i] == old(p.state[i]))
//@   ensures[F,C08] @eof-closed: result == ErrorGrammar && p.err == "" ==> len(p.state) == 1
//@   loop * decreases 2*(len(p.l.r.buf) - p.l.r.pos) + ite(first, 1, 0)
//@ func Parser.parseDeclaration
//@   loop * candidate 0 <= offset && offset <= p.l.r.pos
//@   loop * candidate len(p.state) == old(len(p.state))
//@   loop * candidate p.prevEnd == old(p.prevEnd)
//@   loop * candidate forall(i, 0, len(p.state), p.state[i] == old(p.state[i]))
//@   loop * candidate p.err == old(p.err)
//@   preserves[S] cpInv(p) && p.l.r.pos >= old(p.l.r.pos)
//@   ensures[F,C08] @begin-atrule: result == BeginAtRuleGrammar ==> len(p.state) == old(len(p.state)) + 1 && isAtRuleBlock(p.state[len(p.state)-1])
//@   ensures[F,C08] @begin-ruleset: result == BeginRulesetGrammar ==> len(p.state) == old(len(p.state)) + 1 && p.state[len(p.state)-1] == fn("css.Parser.parseQualifiedRuleDeclarationList")
//@   ensures[F,C08] @end-atrule: result == EndAtRuleGrammar ==> len(p.state) == old(len(p.state)) - 1 && isAtRuleBlock(old(p.state[len(p.state)-1]))
//@   ensures[F,C08] @end-ruleset: result == EndRulesetGrammar ==> len(p.state) == old(len(p.state)) - 1 && old(p.state[len(p.state)-1]) == fn("css.Parser.parseQualifiedRuleDeclarationList")
//@   ensures[F,C08] @same-depth: result == DeclarationGrammar || result == TokenGrammar || result == CommentGrammar || result == AtRuleGrammar || result == CustomPropertyGrammar ==> len(p.state) == old(len(p.state))
//@   ensures[F,C08] @stack-prefix: forall(i, 0, min(len(p.state), old(len(p.state))), p.state[i] == old(p.state[i]))
//@   ensures[F,C08] @eof-closed: result == ErrorGrammar && p.err == "" ==> len(p.state) == 1
//@   loop * candidate len(p.buf) >= 1
//@   loop * candidate 0 <= j && j <= i && i <= len(p.buf)
//@   loop * candidate 1 <= i && i <= len(p.buf)
//@   loop * candidate 0 <= offset
//@   loop 1 decreases len(p.l.r.buf) - p.l.r.pos
//@ func Parser.parseDeclarationError
//@   loop * candidate len(p.state) == old(len(p.state))
//@   loop * candidate p.prevEnd == old(p.prevEnd)
//@   loop * candidate forall(i, 0, len(p.state), p.state[i] == old(p.state[i]))
//@   loop * candidate p.err == old(p.err)
//@   preserves[S] cpInv(p) && p.l.r.pos >= old(p.l.r.pos)
//@   ensures[F,C08] @begin-atrule: result == BeginAtRuleGrammar ==> len(p.state) == old(len(p.state)) + 1 && isAtRuleBlock(p.state[len(p.state)-1])
//@   ensures[F,C08] @begin-ruleset: result == BeginRulesetGrammar ==> len(p.state) == old(len(p.state)) + 1 && p.state[len(p.state)-1] == fn("css.Parser.parseQualifiedRuleDeclarationList")
//@   ensures[F,C08] @end-atrule: result == EndAtRuleGrammar ==> len(p.state) == old(len(p.state)) - 1 && isAtRuleBlock(old(p.state[len(p.state)-1]))
//@   ensures[F,C08] @end-ruleset: result == EndRulesetGrammar ==> len(p.state) == old(len(p.state)) - 1 && old(p.state[len(p.state)-1]) == fn("css.Parser.parseQualifiedRuleDeclarationList")
//@   ensures[F,C08] @same-depth: result == DeclarationGrammar || result == TokenGrammar || result == CommentGrammar || result == AtRuleGrammar || result == CustomPropertyGrammar ==> len(p.state) == old(len(p.state))
//@   ensures[F,C08] @stack-prefix: forall(i, 0, min(len(p.state), old(len(p.state))), p.state[i] == old(p.state[i]))
//@   ensures[F,C08] @eof-closed: result == ErrorGrammar && p.err == "" ==> len(p.state) == 1
//@   requires[S] tokOK(tt, data, p) && (tt == RightBraceToken ==> p.l.r.pos >= 1) && tt != CommentToken
//@   requires[F] p.err != ""
//@   loop 1 invariant tokOK(tt, data, p) && (tt == RightBraceToken ==> p.l.r.pos >= 1) && tt != CommentToken
//@   loop 1 decreases ite(tt == ErrorToken, 0, len(p.l.r.buf) - p.l.r.pos + 1)
//@ func Parser.parseCustomProperty
//@   loop * candidate len(p.state) == old(len(p.state))
//@   loop * candidate p.prevEnd == old(p.prevEnd)
//@   loop * candidate forall(i, 0, len(p.state), p.state[i] == old(p.state[i]))
//@   loop * candidate p.err == old(p.err)
//@   preserves[S] cpInv(p) && p.l.r.pos >= old(p.l.r.pos)
//@   ensures[F,C08] @begin-atrule: result == BeginAtRuleGrammar ==> len(p.state) == old(len(p.state)) + 1 && isAtRuleBlock(p.state[len(p.state)-1])
//@   ensures[F,C08] @begin-ruleset: result == BeginRulesetGrammar ==> len(p.state) == old(len(p.state)) + 1 && p.state[len(p.state)-1] == fn("css.Parser.parseQualifiedRuleDeclarationList")
//@   ensures[F,C08] @end-atrule: result == EndAtRuleGrammar ==> len(p.state) == old(len(p.state)) - 1 && isAtRuleBlock(old(p.state[len(p.state)-1]))
//@   ensures[F,C08] @end-ruleset: result == EndRulesetGrammar ==> len(p.state) == old(len(p.state)) - 1 && old(p.state[len(p.state)-1]) == fn("css.Parser.parseQualifiedRuleDeclarationList")
//@   ensures[F,C08] @same-depth: result == DeclarationGrammar || result == TokenGrammar || result == CommentGrammar || result == AtRuleGrammar || result == CustomPropertyGrammar ==> len(p.state) == old(len(p.state))
//@   ensures[F,C08] @stack-prefix: forall(i, 0, min(len(p.state), old(len(p.state))), p.state[i] == old(p.state[i]))
//@   ensures[F,C08] @eof-closed: result == ErrorGrammar && p.err == "" ==> len(p.state) == 1
//@   loop 1 invariant fresh(val)
//@   loop 1 decreases len(p.l.r.buf) - p.l.r.pos

//@ func Parser.Next
//@   dyncall like Parser.parseStylesheet on p
//@   preserves[S] cpInv(p) && p.l.r.pos >= old(p.l.r.pos)
//@   ensures[F,C08] @begin-atrule: result0 == BeginAtRuleGrammar ==> len(p.state) == old(len(p.state)) + 1 && isAtRuleBlock(p.state[len(p.state)-1])
//@   ensures[F,C08] @begin-ruleset: result0 == BeginRulesetGrammar ==> len(p.state) == old(len(p.state)) + 1 && p.state[len(p.state)-1] == fn("css.Parser.parseQualifiedRuleDeclarationList")
//@   ensures[F,C08] @end-atrule: result0 == EndAtRuleGrammar ==> len(p.state) == old(len(p.state)) - 1 && isAtRuleBlock(old(p.state[len(p.state)-1]))
//@   ensures[F,C08] @end-ruleset: result0 == EndRulesetGrammar ==> len(p.state) == old(len(p.state)) - 1 && old(p.state[len(p.state)-1]) == fn("css.Parser.parseQualifiedRuleDeclarationList")
//@   ensures[F,C08] @same-depth: result0 == DeclarationGrammar || result0 == TokenGrammar || result0 == CommentGrammar || result0 == AtRuleGrammar || result0 == CustomPropertyGrammar ==> len(p.state) == old(len(p.state))
//@   ensures[F,C08] @stack-prefix: forall(i, 0, min(len(p.state), old(len(p.state))), p.state[i] == old(p.state[i]))
//@   ensures[F,C08] @eof-closed: result0 == ErrorGrammar && p.err == "" ==> len(p.state) == 1
//@ func Parser.Err
//@   requires[S] p != nil && p.l != nil && lexInv(p.l) && 0 <= p.errPos && p.errPos <= len(p.l.r.buf)-1
//@   ensures[F,C15] @grammar-error: len(p.err) != 0 ==> result != nil
//@ func Parser.Offset
//@   requires[S] p != nil && p.l != nil && p.l.r != nil
//@ func NewParser
//@   requires[S] bufInv(r) && r.start == r.pos
//@   ensures[S] cpInv(result)

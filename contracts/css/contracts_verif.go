//go:build verif

// Contracts for package css, read by /verif/engine (vcgo). Comments only.
package css

// lexInv: the lexer owns a well-formed Input whose cursor has not passed the terminator.
// ---- C07: character classes and closed forms of the token grammar (buffers are NUL-terminated: no length tests needed)
//@ pred cDig(c) := '0' <= c && c <= '9'
//@ pred cHex(c) := ('0' <= c && c <= '9') || ('a' <= c && c <= 'f') || ('A' <= c && c <= 'F')
//@ pred cWS(c) := c == ' ' || c == '\t' || c == '\n' || c == '\r' || c == '\f'
//@ pred cNL(c) := c == '\n' || c == '\r' || c == '\f'
// number: (+|-)? ( digits ('.' digits)? | '.' digits ) ( (e|E) (+|-)? digits )?  starting at p; cssNumEnd == p when there is none
//@ pred cS(b, p) := p + ite(b[p] == '+' || b[p] == '-', 1, 0)
//@ pred cD1(b, p) := digitEnd(b, cS(b, p))
//@ pred cHasInt(b, p) := cD1(b, p) > cS(b, p)
//@ pred cHasFrac(b, p) := b[cD1(b, p)] == '.' && cDig(b[cD1(b, p)+1])
//@ pred cM(b, p) := ite(cHasFrac(b, p), digitEnd(b, cD1(b, p)+1), ite(cHasInt(b, p), cD1(b, p), p))
//@ pred cT(b, p) := cM(b, p) + 1 + ite(b[cM(b, p)+1] == '+' || b[cM(b, p)+1] == '-', 1, 0)
//@ pred cHasExp(b, p) := (b[cM(b, p)] == 'e' || b[cM(b, p)] == 'E') && cDig(b[cT(b, p)])
//@ pred cssNumEnd(b, p) := ite(cM(b, p) == p, p, ite(cHasExp(b, p), digitEnd(b, cT(b, p)), cM(b, p)))
//@ pred escHexEnd(b, p) := min(hexEnd(b, p+1), p+7)
// escape starting at p (closed form of consumeEscape): present iff backslash not followed by a newline or the end of input
//@ pred isEsc(b, p) := b[p] == '\\' && !cNL(b[p+1]) && p+1 < len(b)-1
//@ pred escEndC(b, p) := ite(cHex(b[p+1]), escHexEnd(b, p) + ite(cWS(b[escHexEnd(b, p)]), 1, 0), p + 1 + ite(b[p+1] >= 0xC0, runeLen(b[p+1], len(b)-2-p), 1))
// the end of a malformed url(: the first ')' reached from p stepping over escapes as units, or the end of input
//@ orbit badURLEnd(s, p) stop s[p] == ')' || p >= len(s)-1 next ite(isEsc(s, p), escEndC(s, p), p+1)
// string body scanning from p for delimiter d: stops at the delimiter, at a raw newline, or at the end of input; a backslash
// takes its escape (or, before a newline, the newline; at the end of input, nothing) with it
//@ pred nlLen(b, q) := ite(b[q] == '\n' || b[q] == '\f', 1, ite(b[q] == '\r', ite(b[q+1] == '\n', 2, 1), 0))
//@ pred strNext(b, p) := ite(b[p] == '\\', ite(isEsc(b, p), escEndC(b, p), p + 1 + nlLen(b, p+1)), p+1)
//@ orbit strEndD(s, p) stop s[p] == '"' || cNL(s[p]) || p >= len(s)-1 next strNext(s, p)
//@ orbit strEndS(s, p) stop s[p] == '\'' || cNL(s[p]) || p >= len(s)-1 next strNext(s, p)
//@ pred strEnd(b, p, d) := ite(d == '"', strEndD(b, p), strEndS(b, p))
// fixed spellings
//@ pred bracketByte(tt) := ite(tt == LeftParenthesisToken, '(', ite(tt == RightParenthesisToken, ')', ite(tt == LeftBracketToken, '[', ite(tt == RightBracketToken, ']', ite(tt == LeftBraceToken, '{', '}')))))
//@ pred isBracketTok(tt) := tt == LeftParenthesisToken || tt == RightParenthesisToken || tt == LeftBracketToken || tt == RightBracketToken || tt == LeftBraceToken || tt == RightBraceToken
//@ pred matchByte(tt) := ite(tt == IncludeMatchToken, '~', ite(tt == DashMatchToken, '|', ite(tt == PrefixMatchToken, '^', ite(tt == SuffixMatchToken, '$', '*'))))
//@ pred isMatchTok(tt) := tt == IncludeMatchToken || tt == DashMatchToken || tt == PrefixMatchToken || tt == SuffixMatchToken || tt == SubstringMatchToken
// identifiers: name-start is a letter, '_' or non-ASCII; name characters add digits and '-'; escapes count as one unit
//@ pred cNameStart(c) := ('a' <= c && c <= 'z') || ('A' <= c && c <= 'Z') || c == '_' || c >= 0x80
//@ pred cName(c) := cNameStart(c) || cDig(c) || c == '-'
//@ orbit nameEnd(s, p) stop !(cName(s[p]) || isEsc(s, p)) || p >= len(s)-1 next ite(cName(s[p]), p+1, escEndC(s, p))
// where the name characters start for an identifier at p (0 if there is no identifier): "--" custom property, or an
// optional '-' followed by a name-start character or an escape
//@ pred identBody(b, p) := ite(b[p] == '-' && b[p+1] == '-', p+2, ite(cNameStart(b[cS1(b, p)]), cS1(b, p)+1, ite(isEsc(b, cS1(b, p)), escEndC(b, cS1(b, p)), 0)))
//@ pred cS1(b, p) := p + ite(b[p] == '-', 1, 0)
//@ pred lexInv(l) := l != nil && l.r != nil && inputInv(l.r)
// lexStep: a scanner only moves forward (two-state; trivially true at entry).
//@ pred lexStep(l) := lexInv(l) && l.r.pos >= old(l.r.pos)
// atEnd: the absorbing end state: cursor on the terminator (or a reader error is pending).
//@ pred atEnd(l) := l.r.err != nil || l.r.pos >= len(l.r.buf)-1

//@ func Lexer.consumeByte
//@   preserves[S] lexStep(l)
//@   requires[S] c != 0
//@   ensures[S]  result ==> l.r.pos == old(l.r.pos)+1 && old(l.r.buf[l.r.pos]) == c
//@   ensures[S]  !result ==> l.r.pos == old(l.r.pos) && l.r.buf[l.r.pos] != c

//@ orbit cmtEnd(s, p) stop (s[p] == '*' && s[p+1] == '/') || p >= len(s)-1 next p+1
//@ func Lexer.consumeComment
//@   ensures[F,C07] @comment-iff: result <==> old(l.r.buf[l.r.pos]) == '/' && old(l.r.buf[l.r.pos+1]) == '*'
//@   ensures[F,C07] @comment-end: result ==> l.r.pos == cmtEnd(l.r.buf, old(l.r.pos)+2) + ite(l.r.buf[cmtEnd(l.r.buf, old(l.r.pos)+2)] == '*' && l.r.buf[cmtEnd(l.r.buf, old(l.r.pos)+2)+1] == '/', 2, 0)
//@   loop 1 invariant[F] cmtEnd(l.r.buf, l.r.pos) == cmtEnd(l.r.buf, old(l.r.pos)+2)
//@   preserves[S] lexStep(l)
//@   ensures[S]  !result ==> l.r.pos == old(l.r.pos)
//@   ensures[S]  result ==> l.r.pos >= old(l.r.pos)+2
//@   loop 1 decreases len(l.r.buf) - l.r.pos

//@ func Lexer.consumeNewline
//@   ensures[F,C07] @nl: result <==> cNL(old(l.r.buf[l.r.pos]))
//@   ensures[F,C07] @nl-len: l.r.pos == old(l.r.pos) + nlLen(l.r.buf, old(l.r.pos))
//@   preserves[S] lexStep(l)
//@   ensures[S]  !result ==> l.r.pos == old(l.r.pos)
//@   ensures[S]  result ==> l.r.pos > old(l.r.pos)

//@ func Lexer.consumeWhitespace
//@   ensures[F,C07] @ws: result <==> cWS(old(l.r.buf[l.r.pos]))
//@   preserves[S] lexStep(l)
//@   ensures[S]  !result ==> l.r.pos == old(l.r.pos)
//@   ensures[S]  result ==> l.r.pos == old(l.r.pos)+1

//@ func Lexer.consumeDigit
//@   ensures[F,C07] @digit: result <==> cDig(old(l.r.buf[l.r.pos]))
//@   preserves[S] lexStep(l)
//@   ensures[S]  !result ==> l.r.pos == old(l.r.pos)
//@   ensures[S]  result ==> l.r.pos == old(l.r.pos)+1

//@ func Lexer.consumeHexDigit
//@   ensures[F,C07] @hex: result <==> cHex(old(l.r.buf[l.r.pos]))
//@   preserves[S] lexStep(l)
//@   ensures[S]  !result ==> l.r.pos == old(l.r.pos)
//@   ensures[S]  result ==> l.r.pos == old(l.r.pos)+1

//@ func Lexer.consumeEscape
// escape: backslash, then 1-6 hex digits and one optional whitespace, or any one character that is not a newline
//@   ensures[F,C07] @escape-iff: result <==> isEsc(l.r.buf, old(l.r.pos))
//@   ensures[F,C07] @escape-end: result ==> l.r.pos == escEndC(l.r.buf, old(l.r.pos))
//@   ensures[F,C07] @escape-hex: result && cHex(old(l.r.buf[l.r.pos+1])) ==> l.r.pos == escHexEnd(l.r.buf, old(l.r.pos)) + ite(cWS(l.r.buf[escHexEnd(l.r.buf, old(l.r.pos))]), 1, 0)
//@   ensures[F,C07] @escape-char: result && !cHex(old(l.r.buf[l.r.pos+1])) ==> l.r.pos == old(l.r.pos) + 1 + ite(old(l.r.buf[l.r.pos+1]) >= 0xC0, runeLen(old(l.r.buf[l.r.pos+1]), len(l.r.buf) - 2 - old(l.r.pos)), 1)
//@   loop 1 invariant[F] 1 <= k && k <= 6 && l.r.pos == old(l.r.pos) + 1 + k && forall(j, old(l.r.pos)+1, l.r.pos, cHex(l.r.buf[j]))
//@   preserves[S] lexStep(l)
//@   ensures[S]  !result ==> l.r.pos == old(l.r.pos)
//@   ensures[S]  result ==> l.r.pos > old(l.r.pos)
//@   loop 1 invariant l.r.pos > old(l.r.pos)
//@   loop 1 decreases 6 - k

//@ func Lexer.consumeIdentToken
//@   ensures[F,C07] @ident-iff: result <==> identBody(l.r.buf, old(l.r.pos)) != 0
//@   ensures[F,C07] @ident-end: result ==> l.r.pos == nameEnd(l.r.buf, identBody(l.r.buf, old(l.r.pos)))
//@   loop 1 invariant[F] identBody(l.r.buf, old(l.r.pos)) != 0 && nameEnd(l.r.buf, l.r.pos) == nameEnd(l.r.buf, identBody(l.r.buf, old(l.r.pos)))
//@   preserves[S] lexStep(l)
//@   ensures[S]  !result ==> l.r.pos == old(l.r.pos)
//@   ensures[S]  result ==> l.r.pos > old(l.r.pos)
//@   loop 1 invariant l.r.pos > old(l.r.pos) && l.r.start == old(l.r.start)
//@   loop 1 decreases len(l.r.buf) - l.r.pos

//@ func Lexer.consumeCustomVariableToken
//@   ensures[F,C07] @custom-property: (result <==> old(l.r.buf[l.r.pos+1]) == '-' && identBody(l.r.buf, old(l.r.pos)) != 0) && (result ==> l.r.pos == nameEnd(l.r.buf, identBody(l.r.buf, old(l.r.pos))))
//@   preserves[S] lexStep(l)
//@   requires[S] l.r.buf[l.r.pos] != 0
//@   ensures[S]  !result ==> l.r.pos == old(l.r.pos)
//@   ensures[S]  result ==> l.r.pos > old(l.r.pos)

//@ func Lexer.consumeAtKeywordToken
//@   ensures[F,C07] @atkeyword: (result <==> identBody(l.r.buf, old(l.r.pos)+1) != 0) && (result ==> l.r.pos == nameEnd(l.r.buf, identBody(l.r.buf, old(l.r.pos)+1)))
//@   preserves[S] lexStep(l)
//@   requires[S] l.r.buf[l.r.pos] != 0
//@   ensures[S]  !result ==> l.r.pos == old(l.r.pos)
//@   ensures[S]  result ==> l.r.pos >= old(l.r.pos) + 2

//@ func Lexer.consumeHashToken
//@   ensures[F,C07] @hash-iff: result <==> (cName(old(l.r.buf[l.r.pos+1])) || isEsc(l.r.buf, old(l.r.pos)+1))
//@   ensures[F,C07] @hash-end: result ==> l.r.pos == nameEnd(l.r.buf, old(l.r.pos)+1)
//@   loop 1 invariant[F] nameEnd(l.r.buf, l.r.pos) == nameEnd(l.r.buf, old(l.r.pos)+1)
//@   preserves[S] lexStep(l)
//@   requires[S] l.r.buf[l.r.pos] != 0
//@   ensures[S]  !result ==> l.r.pos == old(l.r.pos)
//@   ensures[S]  result ==> l.r.pos > old(l.r.pos)
//@   loop 1 invariant l.r.pos > old(l.r.pos) && l.r.start == old(l.r.start)
//@   loop 1 decreases len(l.r.buf) - l.r.pos

//@ func Lexer.consumeNumberToken
//@   ensures[F,C07] @number: l.r.pos == cssNumEnd(l.r.buf, old(l.r.pos)) && (result <==> l.r.pos > old(l.r.pos))
//@   loop 1 invariant[F] firstDigit && cS(l.r.buf, old(l.r.pos)) < l.r.pos && forall(k, cS(l.r.buf, old(l.r.pos)), l.r.pos, cDig(l.r.buf[k]))
//@   loop 2 invariant[F] cD1(l.r.buf, old(l.r.pos)) + 1 < l.r.pos && l.r.buf[cD1(l.r.buf, old(l.r.pos))] == '.' && forall(k, cD1(l.r.buf, old(l.r.pos))+1, l.r.pos, cDig(l.r.buf[k])) && (firstDigit <==> cHasInt(l.r.buf, old(l.r.pos)))
//@   loop 3 invariant[F] cM(l.r.buf, old(l.r.pos)) > old(l.r.pos) && (l.r.buf[cM(l.r.buf, old(l.r.pos))] == 'e' || l.r.buf[cM(l.r.buf, old(l.r.pos))] == 'E') && cT(l.r.buf, old(l.r.pos)) < l.r.pos && cDig(l.r.buf[cT(l.r.buf, old(l.r.pos))]) && forall(k, cT(l.r.buf, old(l.r.pos)), l.r.pos, cDig(l.r.buf[k]))
//@   preserves[S] lexStep(l)
//@   ensures[S]  !result ==> l.r.pos == old(l.r.pos)
//@   ensures[S]  result ==> l.r.pos > old(l.r.pos)
//@   loop * invariant l.r.pos > old(l.r.pos)
//@   loop * decreases len(l.r.buf) - l.r.pos

//@ func Lexer.consumeUnicodeRangeToken
// U+ then 1-6 hex digits, optionally '-' and 1-6 more, or hex digits padded with '?' to at most 6 characters
//@   ensures[F,C07] @urange-prefix: result ==> (old(l.r.buf[l.r.pos]) == 'u' || old(l.r.buf[l.r.pos]) == 'U') && old(l.r.buf[l.r.pos+1]) == '+'
//@   ensures[F,C07] @urange-hex: result && l.r.buf[hexEnd(l.r.buf, old(l.r.pos)+2)] != '-' && l.r.buf[hexEnd(l.r.buf, old(l.r.pos)+2)] != '?' ==> l.r.pos == hexEnd(l.r.buf, old(l.r.pos)+2) && 1 <= l.r.pos - old(l.r.pos) - 2 && l.r.pos - old(l.r.pos) - 2 <= 6
//@   ensures[F,C07] @urange-range: result && l.r.buf[hexEnd(l.r.buf, old(l.r.pos)+2)] == '-' ==> 1 <= hexEnd(l.r.buf, old(l.r.pos)+2) - old(l.r.pos) - 2 && hexEnd(l.r.buf, old(l.r.pos)+2) - old(l.r.pos) - 2 <= 6 &&
//@        l.r.pos == hexEnd(l.r.buf, hexEnd(l.r.buf, old(l.r.pos)+2)+1) && 1 <= l.r.pos - hexEnd(l.r.buf, old(l.r.pos)+2) - 1 && l.r.pos - hexEnd(l.r.buf, old(l.r.pos)+2) - 1 <= 6
//@   ensures[F,C07] @urange-wild: result && l.r.buf[hexEnd(l.r.buf, old(l.r.pos)+2)] == '?' ==> hexEnd(l.r.buf, old(l.r.pos)+2) < l.r.pos && l.r.pos - old(l.r.pos) - 2 <= 6 && forall(q, hexEnd(l.r.buf, old(l.r.pos)+2), l.r.pos, l.r.buf[q] == '?') && l.r.buf[l.r.pos] != '?'
//@   loop 1 invariant[F] k == l.r.pos - old(l.r.pos) - 2 && forall(q, old(l.r.pos)+2, l.r.pos, cHex(l.r.buf[q]))
//@   loop 2 invariant[F] k == l.r.pos - hexEnd(l.r.buf, old(l.r.pos)+2) - 1 && k >= 1 && l.r.buf[hexEnd(l.r.buf, old(l.r.pos)+2)] == '-' && forall(q, hexEnd(l.r.buf, old(l.r.pos)+2)+1, l.r.pos, cHex(l.r.buf[q])) && 1 <= hexEnd(l.r.buf, old(l.r.pos)+2) - old(l.r.pos) - 2 && hexEnd(l.r.buf, old(l.r.pos)+2) - old(l.r.pos) - 2 <= 6
//@   loop 3 invariant[F] k == l.r.pos - old(l.r.pos) - 2 && hexEnd(l.r.buf, old(l.r.pos)+2) < l.r.pos && l.r.buf[hexEnd(l.r.buf, old(l.r.pos)+2)] == '?' && forall(q, hexEnd(l.r.buf, old(l.r.pos)+2), l.r.pos, l.r.buf[q] == '?')
//@   preserves[S] lexStep(l)
//@   ensures[S]  !result ==> l.r.pos == old(l.r.pos)
//@   ensures[S]  result ==> l.r.pos > old(l.r.pos)
//@   loop * invariant 0 <= k && k <= l.r.pos - old(l.r.pos)
//@   loop * decreases len(l.r.buf) - l.r.pos

//@ func Lexer.consumeColumnToken
//@   ensures[F,C07] @column: result <==> old(l.r.buf[l.r.pos]) == '|' && old(l.r.buf[l.r.pos+1]) == '|'
//@   ensures[F,C07] @column-len: result ==> l.r.pos == old(l.r.pos) + 2
//@   preserves[S] lexStep(l)
//@   ensures[S]  !result ==> l.r.pos == old(l.r.pos)
//@   ensures[S]  result ==> l.r.pos == old(l.r.pos)+2

//@ func Lexer.consumeCDOToken
//@   ensures[F,C07] @cdo: result <==> old(l.r.buf[l.r.pos]) == '<' && old(l.r.buf[l.r.pos+1]) == '!' && old(l.r.buf[l.r.pos+2]) == '-' && old(l.r.buf[l.r.pos+3]) == '-'
//@   ensures[F,C07] @cdo-len: result ==> l.r.pos == old(l.r.pos) + 4
//@   preserves[S] lexStep(l)
//@   ensures[S]  !result ==> l.r.pos == old(l.r.pos)
//@   ensures[S]  result ==> l.r.pos == old(l.r.pos)+4

//@ func Lexer.consumeCDCToken
//@   ensures[F,C07] @cdc: result <==> old(l.r.buf[l.r.pos]) == '-' && old(l.r.buf[l.r.pos+1]) == '-' && old(l.r.buf[l.r.pos+2]) == '>'
//@   ensures[F,C07] @cdc-len: result ==> l.r.pos == old(l.r.pos) + 3
//@   preserves[S] lexStep(l)
//@   ensures[S]  !result ==> l.r.pos == old(l.r.pos)
//@   ensures[S]  result ==> l.r.pos == old(l.r.pos)+3

//@ func Lexer.consumeMatch
//@   ensures[F,C07] @match: ite(isMatchTok(result), l.r.pos == old(l.r.pos) + 2 && old(l.r.buf[l.r.pos]) == matchByte(result) && old(l.r.buf[l.r.pos+1]) == '=', result == ErrorToken && l.r.pos == old(l.r.pos))
//@   ensures[F,C07] @match-iff: isMatchTok(result) <==> old(l.r.buf[l.r.pos+1]) == '=' && (old(l.r.buf[l.r.pos]) == '~' || old(l.r.buf[l.r.pos]) == '|' || old(l.r.buf[l.r.pos]) == '^' || old(l.r.buf[l.r.pos]) == '$' || old(l.r.buf[l.r.pos]) == '*')
//@   ensures[S]  @kind: result == ErrorToken || result == IncludeMatchToken || result == DashMatchToken || result == PrefixMatchToken || result == SuffixMatchToken || result == SubstringMatchToken
//@   preserves[S] lexStep(l)
//@   requires[S] l.r.buf[l.r.pos] != 0
//@   ensures[S]  result == ErrorToken ==> l.r.pos == old(l.r.pos)
//@   ensures[S]  result != ErrorToken ==> l.r.pos == old(l.r.pos)+2

//@ func Lexer.consumeBracket
//@   ensures[F,C07] @bracket: ite(isBracketTok(result), l.r.pos == old(l.r.pos) + 1 && old(l.r.buf[l.r.pos]) == bracketByte(result), result == ErrorToken && l.r.pos == old(l.r.pos))
//@   ensures[S]  @kind: result == ErrorToken || result == LeftParenthesisToken || result == RightParenthesisToken || result == LeftBracketToken || result == RightBracketToken || result == LeftBraceToken || result == RightBraceToken
//@   preserves[S] lexStep(l)
//@   ensures[S]  result == ErrorToken ==> l.r.pos == old(l.r.pos)
//@   ensures[S]  result != ErrorToken ==> l.r.pos == old(l.r.pos)+1

//@ func Lexer.consumeNumeric
//@   ensures[F,C07] @numeric: ite(cssNumEnd(l.r.buf, old(l.r.pos)) == old(l.r.pos), result == ErrorToken && l.r.pos == old(l.r.pos),
//@        ite(l.r.buf[cssNumEnd(l.r.buf, old(l.r.pos))] == '%', result == PercentageToken && l.r.pos == cssNumEnd(l.r.buf, old(l.r.pos)) + 1,
//@        ite(l.r.pos > cssNumEnd(l.r.buf, old(l.r.pos)), result == DimensionToken, result == NumberToken && l.r.pos == cssNumEnd(l.r.buf, old(l.r.pos)))))
// a number is a dimension exactly when an identifier (in any spelling: letters, '-', non-ASCII, escapes) starts right after it,
// and the unit is that whole identifier
//@   ensures[F,C07,local] @unit: cssNumEnd(l.r.buf, old(l.r.pos)) != old(l.r.pos) && l.r.buf[cssNumEnd(l.r.buf, old(l.r.pos))] != '%' ==> (result == DimensionToken <==> identBody(l.r.buf, cssNumEnd(l.r.buf, old(l.r.pos))) != 0) && (result == DimensionToken ==> l.r.pos == nameEnd(l.r.buf, identBody(l.r.buf, cssNumEnd(l.r.buf, old(l.r.pos)))))
//@   ensures[S]  @kind: result == ErrorToken || result == PercentageToken || result == DimensionToken || result == NumberToken
//@   preserves[S] lexStep(l)
//@   ensures[S]  result == ErrorToken ==> l.r.pos == old(l.r.pos)
//@   ensures[S]  result != ErrorToken ==> l.r.pos > old(l.r.pos)

//@ func Lexer.consumeString
//@   requires[F] l.r.buf[l.r.pos] == '"' || l.r.buf[l.r.pos] == '\''
// the string ends at the first unescaped matching quote (StringToken), at the first raw newline (BadStringToken) or at the end of input
//@   ensures[F,C07] @string-end: l.r.pos == strEnd(l.r.buf, old(l.r.pos)+1, old(l.r.buf[l.r.pos])) + ite(l.r.buf[strEnd(l.r.buf, old(l.r.pos)+1, old(l.r.buf[l.r.pos]))] == old(l.r.buf[l.r.pos]) || cNL(l.r.buf[strEnd(l.r.buf, old(l.r.pos)+1, old(l.r.buf[l.r.pos]))]), 1, 0)
//@   ensures[F,C07] @bad-string: result == BadStringToken <==> cNL(l.r.buf[strEnd(l.r.buf, old(l.r.pos)+1, old(l.r.buf[l.r.pos]))])
//@   loop 1 invariant[F] delim == old(l.r.buf[l.r.pos]) && strEnd(l.r.buf, l.r.pos, delim) == strEnd(l.r.buf, old(l.r.pos)+1, delim)
//@   ensures[S]  @kind: result == BadStringToken || result == StringToken
//@   preserves[S] lexStep(l)
//@   requires[S] l.r.buf[l.r.pos] != 0
//@   ensures[S]  result != ErrorToken && l.r.pos > old(l.r.pos)
//@   loop 1 decreases len(l.r.buf) - l.r.pos

// unquoted url body from p: stops at ')', at the end of input, or at a character that may not appear unescaped
//@ pred urlBad(c) := c == '"' || c == '\'' || c == '(' || c == '\\' || c == ' ' || c <= 0x1F || c == 0x7F
//@ orbit urlEnd(s, p) stop s[p] == ')' || p >= len(s)-1 || (urlBad(s[p]) && !isEsc(s, p)) next ite(s[p] == '\\', escEndC(s, p), p+1)
//@ func Lexer.consumeUnquotedURL
//@   ensures[F,C07] @url-body: l.r.pos == urlEnd(l.r.buf, old(l.r.pos)) && (result <==> (l.r.buf[l.r.pos] == ')' || l.r.pos >= len(l.r.buf)-1))
//@   loop 1 invariant[F] urlEnd(l.r.buf, l.r.pos) == urlEnd(l.r.buf, old(l.r.pos))
//@   preserves[S] lexStep(l)
//@   loop 1 decreases len(l.r.buf) - l.r.pos

//@ func Lexer.consumeRemnantsBadURL
//@   ensures[F,C07] @to-paren: l.r.pos == badURLEnd(l.r.buf, old(l.r.pos)) + ite(l.r.buf[badURLEnd(l.r.buf, old(l.r.pos))] == ')', 1, 0)
//@   loop 1 invariant[F] badURLEnd(l.r.buf, l.r.pos) == badURLEnd(l.r.buf, old(l.r.pos))
//@   preserves[S] lexStep(l)
//@   loop 1 decreases len(l.r.buf) - l.r.pos

//@ func Lexer.consumeIdentlike
// url( ws* body ws* ): all white space after the parenthesis is skipped before the body is scanned
//@   callsite css.Lexer.consumeUnquotedURL[F,C07] @leading-ws-skipped: !cWS(arg0.r.buf[arg0.r.pos])
//@   ensures[F,C07] @function: result == FunctionToken ==> l.r.buf[l.r.pos-1] == '('
//@   ensures[F,C07] @url-close: result == URLToken ==> l.r.buf[l.r.pos-1] == ')' || l.r.pos >= len(l.r.buf)-1
//@   ensures[F,C07] @badurl-close: result == BadURLToken ==> l.r.buf[l.r.pos-1] == ')' || l.r.pos >= len(l.r.buf)-1
//@   ensures[F,C07] @ident: result == IdentToken ==> l.r.buf[l.r.pos] != '('
//@   loop * candidate[F] l.r.pos > old(l.r.pos)
//@   ensures[S]  @kind: result == ErrorToken || result == IdentToken || result == FunctionToken || result == BadURLToken || result == URLToken
//@   preserves[S] lexStep(l)
//@   ensures[S]  result == ErrorToken ==> l.r.pos == old(l.r.pos)
//@   ensures[S]  result != ErrorToken ==> l.r.pos > old(l.r.pos)
//@   loop * invariant l.r.pos > old(l.r.pos)
//@   loop * decreases len(l.r.buf) - l.r.pos

// Next: C01 (no panic, progress, sticky end), C02 (token = bytes moved over).
//@ func Lexer.Next
//@   preserves[S] lexInv(l)
//@   ensures[S,C01]  @progress: l.r.pos > old(l.r.pos) || (result0 == ErrorToken && atEnd(l) && l.r.pos == old(l.r.pos))
//@   ensures[S,C01]  @sticky: old(atEnd(l)) && old(l.r.buf[l.r.pos]) == 0 ==> result0 == ErrorToken && l.r.pos == old(l.r.pos)
//@   ensures[S,C01]  @noinvent: result0 == ErrorToken ==> result1 == nil
//@   requires[S] l.r.start == l.r.pos
//@   ensures[S]  @toklen: l.r.start == l.r.pos && (result0 != ErrorToken ==> len(result1) >= 1 && len(result1) == l.r.pos - old(l.r.pos) && cap(result1) == len(result1))
//@   ensures[S]  @atkw: result0 == AtKeywordToken ==> len(result1) >= 2
//@   ensures[T,C02]  @tile: result0 != ErrorToken ==> sameMem(result1, l.r.buf[old(l.r.pos):l.r.pos]) && cap(result1) == len(result1) && len(result1) > 0
//@   ensures[T,C02]  @shifted: l.r.start == l.r.pos
//@   loop 1 invariant l.r.pos > old(l.r.pos) && l.r.start == old(l.r.start)
//@   loop 1 decreases len(l.r.buf) - l.r.pos
// ---- C07: spellings and extents of the tokens Next returns (B = position before the call)
//@   ensures[F,C07] @ws-token: result0 == WhitespaceToken ==> forall(k, 0, len(result1), cWS(result1[k])) && !cWS(l.r.buf[l.r.pos])
//@   ensures[F,C07] @colon: result0 == ColonToken ==> len(result1) == 1 && result1[0] == ':'
//@   ensures[F,C07] @semicolon: result0 == SemicolonToken ==> len(result1) == 1 && result1[0] == ';'
//@   ensures[F,C07] @comma: result0 == CommaToken ==> len(result1) == 1 && result1[0] == ','
//@   ensures[F,C07] @bracket: isBracketTok(result0) ==> len(result1) == 1 && result1[0] == bracketByte(result0)
//@   ensures[F,C07] @match: isMatchTok(result0) ==> len(result1) == 2 && result1[0] == matchByte(result0) && result1[1] == '='
//@   ensures[F,C07] @column: result0 == ColumnToken ==> len(result1) == 2 && result1[0] == '|' && result1[1] == '|'
//@   ensures[F,C07] @cdo: result0 == CDOToken ==> len(result1) == 4 && result1[0] == '<' && result1[1] == '!' && result1[2] == '-' && result1[3] == '-'
//@   ensures[F,C07] @cdc: result0 == CDCToken ==> len(result1) == 3 && result1[0] == '-' && result1[1] == '-' && result1[2] == '>'
//@   ensures[F,C07] @delim: result0 == DelimToken ==> len(result1) == 1
//@   ensures[F,C07] @string: result0 == StringToken || result0 == BadStringToken ==> (old(l.r.buf[l.r.pos]) == '"' || old(l.r.buf[l.r.pos]) == '\'') &&
//@        l.r.pos == strEnd(l.r.buf, old(l.r.pos)+1, old(l.r.buf[l.r.pos])) + ite(l.r.buf[strEnd(l.r.buf, old(l.r.pos)+1, old(l.r.buf[l.r.pos]))] == old(l.r.buf[l.r.pos]) || cNL(l.r.buf[strEnd(l.r.buf, old(l.r.pos)+1, old(l.r.buf[l.r.pos]))]), 1, 0) &&
//@        (result0 == BadStringToken <==> cNL(l.r.buf[strEnd(l.r.buf, old(l.r.pos)+1, old(l.r.buf[l.r.pos]))]))
//@   ensures[F,C07,perpath] @number: result0 == NumberToken ==> l.r.pos == cssNumEnd(l.r.buf, old(l.r.pos)) && l.r.pos > old(l.r.pos)
//@   ensures[F,C07,perpath] @percentage: result0 == PercentageToken ==> l.r.pos == cssNumEnd(l.r.buf, old(l.r.pos)) + 1 && l.r.buf[l.r.pos-1] == '%' && l.r.pos > old(l.r.pos) + 1
//@   ensures[F,C07,perpath] @dimension: result0 == DimensionToken ==> l.r.pos > cssNumEnd(l.r.buf, old(l.r.pos)) && cssNumEnd(l.r.buf, old(l.r.pos)) > old(l.r.pos)
//@   ensures[F,C07,perpath] @numeric-first: cssNumEnd(l.r.buf, old(l.r.pos)) > old(l.r.pos) && old(l.r.buf[l.r.pos]) != '-' ==> result0 == NumberToken || result0 == PercentageToken || result0 == DimensionToken
//@   loop * candidate[F] forall(k, old(l.r.pos), l.r.pos, cWS(l.r.buf[k]))

//@ func Lexer.Err
//@   requires[S] lexInv(l)
// IsIdent agrees with the lexer on how an identifier may begin: what the lexer gives as a number, a dimension or a lone
// delimiter ('-5', '-5px', '-', '5x') is not an identifier
//@ func IsIdent
//@   ensures[F,C07] @not-a-number: result && len(b) >= 1 ==> !('0' <= old(b[0]) && old(b[0]) <= '9') && !(old(b[0]) == '-' && (len(b) == 1 || ('0' <= old(b[1]) && old(b[1]) <= '9')))
// IsURLUnquoted agrees with the lexer's unquoted-url scanner on the first byte: a URL that would have to start with ')', a
// quote, '(', a space, a control character or DEL is not accepted
//@ func IsURLUnquoted
//@   ensures[F,C07] @first-byte: result && len(b) >= 1 ==> old(b[0]) != ')' && old(b[0]) != '"' && old(b[0]) != '\'' && old(b[0]) != '(' && old(b[0]) != ' ' && old(b[0]) > 0x1F && old(b[0]) != 0x7F

//@ func NewLexer
//@   ensures[S]  result != nil && result.r == r

// ---- hash.go (C16): soundness of the perfect hash: a non-zero result names exactly the argument
//@ func ToHash
// the generated tables are consistent with the constants: every table entry is a constant, every constant is in the
// table, and a constant's offset and length select its own name (identifier in lower case, '_' for '-') in the text
//@   ensures[F,C16] @table-entries: old(forall(i, 0, 8, _Hash_table[i] == 0 || _Hash_table[i] == Document || _Hash_table[i] == Font_Face || _Hash_table[i] == Keyframes || _Hash_table[i] == Layer || _Hash_table[i] == Media || _Hash_table[i] == Page || _Hash_table[i] == Supports))
//@   ensures[F,C16] @constants-in-table: old(exists(i, 0, 8, _Hash_table[i] == Document) && exists(i, 0, 8, _Hash_table[i] == Font_Face) && exists(i, 0, 8, _Hash_table[i] == Keyframes) && exists(i, 0, 8, _Hash_table[i] == Layer) && exists(i, 0, 8, _Hash_table[i] == Media) && exists(i, 0, 8, _Hash_table[i] == Page) && exists(i, 0, 8, _Hash_table[i] == Supports))
//@   ensures[F,C16] @text-document: old((Document & 0xff) == 8 && _Hash_text[(Document >> 8) + 0] == 'd' && _Hash_text[(Document >> 8) + 1] == 'o' && _Hash_text[(Document >> 8) + 2] == 'c' && _Hash_text[(Document >> 8) + 3] == 'u' && _Hash_text[(Document >> 8) + 4] == 'm' && _Hash_text[(Document >> 8) + 5] == 'e' && _Hash_text[(Document >> 8) + 6] == 'n' && _Hash_text[(Document >> 8) + 7] == 't')
//@   ensures[F,C16] @text-font_face: old((Font_Face & 0xff) == 9 && _Hash_text[(Font_Face >> 8) + 0] == 'f' && _Hash_text[(Font_Face >> 8) + 1] == 'o' && _Hash_text[(Font_Face >> 8) + 2] == 'n' && _Hash_text[(Font_Face >> 8) + 3] == 't' && _Hash_text[(Font_Face >> 8) + 4] == '-' && _Hash_text[(Font_Face >> 8) + 5] == 'f' && _Hash_text[(Font_Face >> 8) + 6] == 'a' && _Hash_text[(Font_Face >> 8) + 7] == 'c' && _Hash_text[(Font_Face >> 8) + 8] == 'e')
//@   ensures[F,C16] @text-keyframes: old((Keyframes & 0xff) == 9 && _Hash_text[(Keyframes >> 8) + 0] == 'k' && _Hash_text[(Keyframes >> 8) + 1] == 'e' && _Hash_text[(Keyframes >> 8) + 2] == 'y' && _Hash_text[(Keyframes >> 8) + 3] == 'f' && _Hash_text[(Keyframes >> 8) + 4] == 'r' && _Hash_text[(Keyframes >> 8) + 5] == 'a' && _Hash_text[(Keyframes >> 8) + 6] == 'm' && _Hash_text[(Keyframes >> 8) + 7] == 'e' && _Hash_text[(Keyframes >> 8) + 8] == 's')
//@   ensures[F,C16] @text-layer: old((Layer & 0xff) == 5 && _Hash_text[(Layer >> 8) + 0] == 'l' && _Hash_text[(Layer >> 8) + 1] == 'a' && _Hash_text[(Layer >> 8) + 2] == 'y' && _Hash_text[(Layer >> 8) + 3] == 'e' && _Hash_text[(Layer >> 8) + 4] == 'r')
//@   ensures[F,C16] @text-media: old((Media & 0xff) == 5 && _Hash_text[(Media >> 8) + 0] == 'm' && _Hash_text[(Media >> 8) + 1] == 'e' && _Hash_text[(Media >> 8) + 2] == 'd' && _Hash_text[(Media >> 8) + 3] == 'i' && _Hash_text[(Media >> 8) + 4] == 'a')
//@   ensures[F,C16] @text-page: old((Page & 0xff) == 4 && _Hash_text[(Page >> 8) + 0] == 'p' && _Hash_text[(Page >> 8) + 1] == 'a' && _Hash_text[(Page >> 8) + 2] == 'g' && _Hash_text[(Page >> 8) + 3] == 'e')
//@   ensures[F,C16] @text-supports: old((Supports & 0xff) == 8 && _Hash_text[(Supports >> 8) + 0] == 's' && _Hash_text[(Supports >> 8) + 1] == 'u' && _Hash_text[(Supports >> 8) + 2] == 'p' && _Hash_text[(Supports >> 8) + 3] == 'p' && _Hash_text[(Supports >> 8) + 4] == 'o' && _Hash_text[(Supports >> 8) + 5] == 'r' && _Hash_text[(Supports >> 8) + 6] == 't' && _Hash_text[(Supports >> 8) + 7] == 's')
//@   ensures[F,C16] @sound: result != 0 ==> len(s) == (result & 0xff) && forall(k, 0, len(s), _Hash_text[(result >> 8) + k] == s[k])
//@   loop * candidate 0 <= i && i <= len(s)
//@   loop * candidate len(t) == len(s)
//@   loop * candidate[F] forall(k, 0, i, t[k] == s[k])
//@   loop * candidate[F] len(s) == (i#2 & 0xff) && ptr(t) == ptr(_Hash_text) + (i#2 >> 8)
//@   loop * candidate[F] len(s) == (i#4 & 0xff) && ptr(t#2) == ptr(_Hash_text) + (i#4 >> 8)
//@   loop * candidate[F] forall(k, 0, i#3, t[k] == s[k])
//@   loop * candidate[F] forall(k, 0, i#5, t#2[k] == s[k])
//@   loop * candidate 0 <= i#3 && i#3 <= len(s)
//@   loop * candidate 0 <= i#5 && i#5 <= len(s)
//@   loop * candidate len(t#2) == len(s)

//@ func Hash.Bytes
//@   ensures[S] true
//@ func Hash.String
//@   ensures[S] true

// ===================================================================== parse.go (C01, C08)
//@ pred isRootState(f) := f == fn("css.Parser.parseStylesheet") || f == fn("css.Parser.parseDeclarationList")
//@ pred isAtRuleBlock(f) := f == fn("css.Parser.parseAtRuleRuleList") || f == fn("css.Parser.parseAtRuleDeclarationList") || f == fn("css.Parser.parseAtRuleUnknown")
// cpM: progress measure of the parser
//@ pred cpM(p) := 2*(len(p.l.r.buf) - p.l.r.pos) + len(p.state) + ite(p.prevEnd, 1, 0)
//@ pred isBlockState(f) := f == fn("css.Parser.parseAtRuleRuleList") || f == fn("css.Parser.parseAtRuleDeclarationList") ||
//@      f == fn("css.Parser.parseAtRuleUnknown") || f == fn("css.Parser.parseQualifiedRuleDeclarationList")
// tokOK: what the parser knows about a token handed out by the lexer
//@ pred tokOK(tt, data, p) := (tt == DelimToken || tt == AtKeywordToken || tt == IdentToken ==> len(data) >= 1) && (tt == AtKeywordToken ==> len(data) >= 2) && len(data) <= p.l.r.pos && (cap(data) == len(data) || disjoint(data, p.l.r.buf))
// cpInv: cursor well-formed; the state stack is never empty, its bottom is a root state and every other entry a block state
// progress measure of the grammar stream: unread bytes and a pending '}' count twice, open blocks once
//@ pred cpM(p) := 2*(len(p.l.r.buf) - 1 - p.l.r.pos) + len(p.state) + ite(p.prevEnd, 2, 0)
//@ pred cpMstep(p, r) := r != ErrorGrammar ==> cpM(p) <= old(cpM(p)) + ite(old(p.tt) == ErrorToken, -1, 1)
//@ pred cpInv(p) := p != nil && p.l != nil && lexInv(p.l) && p.l.r.start == p.l.r.pos && len(p.state) >= 1 && isRootState(p.state[0]) &&
//@      forall(i, 1, len(p.state), isBlockState(p.state[i])) && tokOK(p.tt, p.data, p) && (p.prevEnd ==> p.l.r.pos >= 1) && (p.tt == CommentToken ==> len(p.state) == 1) &&
//@      0 <= p.errPos && p.errPos <= len(p.l.r.buf)-1

// bracket bookkeeping of the component-value scanners: a token that opens a bracket (a function token includes its '(')
// raises the level by one, a closing bracket lowers it by one, nothing else changes it
//@ pred cssOpens(tt) := tt == LeftParenthesisToken || tt == LeftBraceToken || tt == LeftBracketToken || tt == FunctionToken
//@ pred cssCloses(tt) := tt == RightParenthesisToken || tt == RightBraceToken || tt == RightBracketToken
//@ pred cssLevelStep(tt) := ite(cssOpens(tt), 1, 0) - ite(cssCloses(tt), 1, 0)
//@ func Parser.popToken
//@   preserves[S] p != nil && p.l != nil && lexInv(p.l) && p.l.r.start == p.l.r.pos && p.l.r.pos >= old(p.l.r.pos)
//@   ensures[S]  tokOK(result0, result1, p) && len(result1) <= p.l.r.pos - old(p.l.r.pos) && (result0 != ErrorToken ==> p.l.r.pos > old(p.l.r.pos)) && (result0 == RightBraceToken ==> p.l.r.pos >= 1) && (result0 == CommentToken ==> allowComment && len(p.state) == 1)
//@   loop 1 invariant tokOK(tt, data, p) && len(data) <= p.l.r.pos - old(p.l.r.pos) && (tt != ErrorToken ==> p.l.r.pos > old(p.l.r.pos))
//@   loop 1 decreases ite((!p.keepWS && tt == WhitespaceToken) || tt == CommentToken, len(p.l.r.buf) - p.l.r.pos + 1, 0)
// what was skipped is recorded and stays recorded until the token is returned (Values() keeps one whitespace token
// wherever whitespace, with or without comments around it, separated two tokens)
// every token handed to the grammar functions is a piece of the input itself
//@   ensures[F,C08] @token-of-input: result0 != ErrorToken ==> within(result1, p.l.r.buf)
//@   loop 1 invariant[F] tt != ErrorToken ==> within(data, p.l.r.buf)
//@   loop 1 transition[F,C08] @ws-recorded: prev(tt) == WhitespaceToken ==> p.prevWS
//@   loop 1 transition[F,C08] @ws-sticky: prev(p.prevWS) ==> p.prevWS
//@   loop 1 transition[F,C08] @comment-recorded: prev(tt) == CommentToken ==> p.prevComment
//@   loop 1 transition[F,C08] @comment-sticky: prev(p.prevComment) ==> p.prevComment

//@ func Parser.pushBuf
//@   ensures[S] len(p.buf) == old(len(p.buf)) + 1 && (old(len(p.buf)) >= 1 ==> sameSlice(p.buf[0].Data, old(p.buf[0].Data))) && sameSlice(p.buf[len(p.buf)-1].Data, data)

//@ func Parser.parseStylesheet
//@   preserves[S] cpInv(p) && p.l.r.pos >= old(p.l.r.pos)
//@   requires[S] p.state[len(p.state)-1] == self() || (isBlockState(p.state[len(p.state)-1]) && !isBlockState(self()) && p.tt != ErrorToken && p.tt != SemicolonToken && p.tt != CommentToken && p.tt != RightBraceToken)
//@   ensures[F,C08] @begin-atrule: result == BeginAtRuleGrammar ==> len(p.state) == old(len(p.state)) + 1 && isAtRuleBlock(p.state[len(p.state)-1])
//@   ensures[F,C08] @begin-ruleset: result == BeginRulesetGrammar ==> len(p.state) == old(len(p.state)) + 1 && p.state[len(p.state)-1] == fn("css.Parser.parseQualifiedRuleDeclarationList")
//@   ensures[F,C08] @end-atrule: result == EndAtRuleGrammar ==> len(p.state) == old(len(p.state)) - 1 && isAtRuleBlock(old(p.state[len(p.state)-1]))
//@   ensures[F,C08] @end-ruleset: result == EndRulesetGrammar ==> len(p.state) == old(len(p.state)) - 1 && old(p.state[len(p.state)-1]) == fn("css.Parser.parseQualifiedRuleDeclarationList")
//@   ensures[F,C08] @same-depth: result == DeclarationGrammar || result == TokenGrammar || result == CommentGrammar || result == AtRuleGrammar || result == CustomPropertyGrammar ==> len(p.state) == old(len(p.state))
//@   ensures[F,C08] @stack-prefix: forall(i, 0, min(len(p.state), old(len(p.state))), p.state[i] == old(p.state[i]))
//@   ensures[F,C08] @eof-closed: result == ErrorGrammar && p.err == "" ==> len(p.state) == 1
//@   ensures[T,C01] @measure: cpMstep(p, result)
//@   loop * candidate[T] cpM(p) <= old(cpM(p))

//@ func Parser.parseDeclarationList
// the name a declaration (or a nested ruleset's first selector token) starts with is the token as it stands in the input: the
// one the function was entered with, one popped from the lexer, or the IE hack's concatenation '*' + name; it is not rewritten
// before the unit is built (the lower-cased copy is made for data only once the unit is known to be a declaration)
//@   loop 1 invariant[F] sameSlice(p.data, old(p.data)) || within(p.data, p.l.r.buf) || p.tt == ErrorToken
//@   callsite css.Parser.parseDeclaration[F,C08] @name-is-token: sameSlice(arg0.data, old(p.data)) || within(arg0.data, arg0.l.r.buf) || arg0.data[0] == '*'
// a comment in front of the declaration is skipped first, then the empty declarations (';'): no comment is left when they are
//@   loop 1 invariant[F] @comment-first: p.tt != CommentToken
//@   loop * candidate p.tt != CommentToken
//@   loop * invariant old(p.tt) != SemicolonToken && old(p.tt) != CommentToken ==> p.tt == old(p.tt)
//@   loop * candidate len(p.state) == old(len(p.state))
//@   loop * candidate p.prevEnd == old(p.prevEnd)
//@   loop * candidate forall(i, 0, len(p.state), p.state[i] == old(p.state[i]))
//@   loop * candidate p.err == old(p.err)
//@   loop * invariant old(p.tt) == ErrorToken ==> p.tt == ErrorToken && len(p.state) == old(len(p.state)) && p.l.r.pos == old(p.l.r.pos) && p.prevEnd == old(p.prevEnd)
//@   preserves[S] cpInv(p) && p.l.r.pos >= old(p.l.r.pos)
//@   requires[S] p.state[len(p.state)-1] == self() || (isBlockState(p.state[len(p.state)-1]) && !isBlockState(self()) && p.tt != ErrorToken && p.tt != SemicolonToken && p.tt != CommentToken && p.tt != RightBraceToken)
//@   ensures[F,C08] @begin-atrule: result == BeginAtRuleGrammar ==> len(p.state) == old(len(p.state)) + 1 && isAtRuleBlock(p.state[len(p.state)-1])
//@   ensures[F,C08] @begin-ruleset: result == BeginRulesetGrammar ==> len(p.state) == old(len(p.state)) + 1 && p.state[len(p.state)-1] == fn("css.Parser.parseQualifiedRuleDeclarationList")
//@   ensures[F,C08] @end-atrule: result == EndAtRuleGrammar ==> len(p.state) == old(len(p.state)) - 1 && isAtRuleBlock(old(p.state[len(p.state)-1]))
//@   ensures[F,C08] @end-ruleset: result == EndRulesetGrammar ==> len(p.state) == old(len(p.state)) - 1 && old(p.state[len(p.state)-1]) == fn("css.Parser.parseQualifiedRuleDeclarationList")
//@   ensures[F,C08] @same-depth: result == DeclarationGrammar || result == TokenGrammar || result == CommentGrammar || result == AtRuleGrammar || result == CustomPropertyGrammar ==> len(p.state) == old(len(p.state))
//@   ensures[F,C08] @stack-prefix: forall(i, 0, min(len(p.state), old(len(p.state))), p.state[i] == old(p.state[i]))
//@   ensures[F,C08] @eof-closed: result == ErrorGrammar && p.err == "" ==> len(p.state) == 1
//@   ensures[T,C01] @measure: cpMstep(p, result)
//@   loop * candidate[T] cpM(p) <= old(cpM(p))

//@ func Parser.parseAtRuleRuleList
//@   preserves[S] cpInv(p) && p.l.r.pos >= old(p.l.r.pos)
//@   requires[S] p.state[len(p.state)-1] == self() || (isBlockState(p.state[len(p.state)-1]) && !isBlockState(self()) && p.tt != ErrorToken && p.tt != SemicolonToken && p.tt != CommentToken && p.tt != RightBraceToken)
//@   ensures[F,C08] @begin-atrule: result == BeginAtRuleGrammar ==> len(p.state) == old(len(p.state)) + 1 && isAtRuleBlock(p.state[len(p.state)-1])
//@   ensures[F,C08] @begin-ruleset: result == BeginRulesetGrammar ==> len(p.state) == old(len(p.state)) + 1 && p.state[len(p.state)-1] == fn("css.Parser.parseQualifiedRuleDeclarationList")
//@   ensures[F,C08] @end-atrule: result == EndAtRuleGrammar ==> len(p.state) == old(len(p.state)) - 1 && isAtRuleBlock(old(p.state[len(p.state)-1]))
//@   ensures[F,C08] @end-ruleset: result == EndRulesetGrammar ==> len(p.state) == old(len(p.state)) - 1 && old(p.state[len(p.state)-1]) == fn("css.Parser.parseQualifiedRuleDeclarationList")
//@   ensures[F,C08] @same-depth: result == DeclarationGrammar || result == TokenGrammar || result == CommentGrammar || result == AtRuleGrammar || result == CustomPropertyGrammar ==> len(p.state) == old(len(p.state))
//@   ensures[F,C08] @stack-prefix: forall(i, 0, min(len(p.state), old(len(p.state))), p.state[i] == old(p.state[i]))
//@   ensures[F,C08] @eof-closed: result == ErrorGrammar && p.err == "" ==> len(p.state) == 1
//@   ensures[T,C01] @measure: cpMstep(p, result)
//@   loop * candidate[T] cpM(p) <= old(cpM(p))

//@ func Parser.parseAtRuleDeclarationList
//@   loop * candidate[T] old(p.tt) != SemicolonToken ==> p.tt == old(p.tt)
//@   loop * candidate len(p.state) == old(len(p.state))
//@   loop * candidate p.prevEnd == old(p.prevEnd)
//@   loop * candidate forall(i, 0, len(p.state), p.state[i] == old(p.state[i]))
//@   loop * candidate p.err == old(p.err)
//@   loop * invariant old(p.tt) == ErrorToken ==> p.tt == ErrorToken && len(p.state) == old(len(p.state)) && p.l.r.pos == old(p.l.r.pos) && p.prevEnd == old(p.prevEnd)
//@   preserves[S] cpInv(p) && p.l.r.pos >= old(p.l.r.pos)
//@   requires[S] p.state[len(p.state)-1] == self() || (isBlockState(p.state[len(p.state)-1]) && !isBlockState(self()) && p.tt != ErrorToken && p.tt != SemicolonToken && p.tt != CommentToken && p.tt != RightBraceToken)
//@   ensures[F,C08] @begin-atrule: result == BeginAtRuleGrammar ==> len(p.state) == old(len(p.state)) + 1 && isAtRuleBlock(p.state[len(p.state)-1])
//@   ensures[F,C08] @begin-ruleset: result == BeginRulesetGrammar ==> len(p.state) == old(len(p.state)) + 1 && p.state[len(p.state)-1] == fn("css.Parser.parseQualifiedRuleDeclarationList")
//@   ensures[F,C08] @end-atrule: result == EndAtRuleGrammar ==> len(p.state) == old(len(p.state)) - 1 && isAtRuleBlock(old(p.state[len(p.state)-1]))
//@   ensures[F,C08] @end-ruleset: result == EndRulesetGrammar ==> len(p.state) == old(len(p.state)) - 1 && old(p.state[len(p.state)-1]) == fn("css.Parser.parseQualifiedRuleDeclarationList")
//@   ensures[F,C08] @same-depth: result == DeclarationGrammar || result == TokenGrammar || result == CommentGrammar || result == AtRuleGrammar || result == CustomPropertyGrammar ==> len(p.state) == old(len(p.state))
//@   ensures[F,C08] @stack-prefix: forall(i, 0, min(len(p.state), old(len(p.state))), p.state[i] == old(p.state[i]))
//@   ensures[F,C08] @eof-closed: result == ErrorGrammar && p.err == "" ==> len(p.state) == 1
//@   ensures[T,C01] @measure: cpMstep(p, result)
//@   loop * candidate[T] cpM(p) <= old(cpM(p))

//@ func Parser.parseAtRuleUnknown
//@   ensures[F,C08] @own-level: result == TokenGrammar && smallInt(old(p.level)) ==> p.level == old(p.level) + cssLevelStep(old(p.tt))
//@   preserves[S] cpInv(p) && p.l.r.pos >= old(p.l.r.pos)
//@   requires[S] p.state[len(p.state)-1] == self() || (isBlockState(p.state[len(p.state)-1]) && !isBlockState(self()) && p.tt != ErrorToken && p.tt != SemicolonToken && p.tt != CommentToken && p.tt != RightBraceToken)
//@   ensures[F,C08] @begin-atrule: result == BeginAtRuleGrammar ==> len(p.state) == old(len(p.state)) + 1 && isAtRuleBlock(p.state[len(p.state)-1])
//@   ensures[F,C08] @begin-ruleset: result == BeginRulesetGrammar ==> len(p.state) == old(len(p.state)) + 1 && p.state[len(p.state)-1] == fn("css.Parser.parseQualifiedRuleDeclarationList")
//@   ensures[F,C08] @end-atrule: result == EndAtRuleGrammar ==> len(p.state) == old(len(p.state)) - 1 && isAtRuleBlock(old(p.state[len(p.state)-1]))
//@   ensures[F,C08] @end-ruleset: result == EndRulesetGrammar ==> len(p.state) == old(len(p.state)) - 1 && old(p.state[len(p.state)-1]) == fn("css.Parser.parseQualifiedRuleDeclarationList")
//@   ensures[F,C08] @same-depth: result == DeclarationGrammar || result == TokenGrammar || result == CommentGrammar || result == AtRuleGrammar || result == CustomPropertyGrammar ==> len(p.state) == old(len(p.state))
//@   ensures[F,C08] @stack-prefix: forall(i, 0, min(len(p.state), old(len(p.state))), p.state[i] == old(p.state[i]))
//@   ensures[F,C08] @eof-closed: result == ErrorGrammar && p.err == "" ==> len(p.state) == 1
//@   ensures[T,C01] @measure: cpMstep(p, result)
//@   loop * candidate[T] cpM(p) <= old(cpM(p))

//@ func Parser.parseQualifiedRuleDeclarationList
//@   loop * candidate[T] old(p.tt) != SemicolonToken ==> p.tt == old(p.tt)
//@   loop * candidate len(p.state) == old(len(p.state))
//@   loop * candidate p.prevEnd == old(p.prevEnd)
//@   loop * candidate forall(i, 0, len(p.state), p.state[i] == old(p.state[i]))
//@   loop * candidate p.err == old(p.err)
//@   loop * invariant old(p.tt) == ErrorToken ==> p.tt == ErrorToken && len(p.state) == old(len(p.state)) && p.l.r.pos == old(p.l.r.pos) && p.prevEnd == old(p.prevEnd)
//@   preserves[S] cpInv(p) && p.l.r.pos >= old(p.l.r.pos)
//@   requires[S] p.state[len(p.state)-1] == self() || (isBlockState(p.state[len(p.state)-1]) && !isBlockState(self()) && p.tt != ErrorToken && p.tt != SemicolonToken && p.tt != CommentToken && p.tt != RightBraceToken)
//@   ensures[F,C08] @begin-atrule: result == BeginAtRuleGrammar ==> len(p.state) == old(len(p.state)) + 1 && isAtRuleBlock(p.state[len(p.state)-1])
//@   ensures[F,C08] @begin-ruleset: result == BeginRulesetGrammar ==> len(p.state) == old(len(p.state)) + 1 && p.state[len(p.state)-1] == fn("css.Parser.parseQualifiedRuleDeclarationList")
//@   ensures[F,C08] @end-atrule: result == EndAtRuleGrammar ==> len(p.state) == old(len(p.state)) - 1 && isAtRuleBlock(old(p.state[len(p.state)-1]))
//@   ensures[F,C08] @end-ruleset: result == EndRulesetGrammar ==> len(p.state) == old(len(p.state)) - 1 && old(p.state[len(p.state)-1]) == fn("css.Parser.parseQualifiedRuleDeclarationList")
//@   ensures[F,C08] @same-depth: result == DeclarationGrammar || result == TokenGrammar || result == CommentGrammar || result == AtRuleGrammar || result == CustomPropertyGrammar ==> len(p.state) == old(len(p.state))
//@   ensures[F,C08] @stack-prefix: forall(i, 0, min(len(p.state), old(len(p.state))), p.state[i] == old(p.state[i]))
//@   ensures[F,C08] @eof-closed: result == ErrorGrammar && p.err == "" ==> len(p.state) == 1
//@   ensures[T,C01] @measure: cpMstep(p, result)
//@   loop * candidate[T] cpM(p) <= old(cpM(p))

//@ func Parser.parseAtRule
// the kind of block an at-rule opens follows from its name: conditional group rules and @keyframes/@layer hold rules,
// @font-face and @page hold declarations, anything else is kept as raw tokens
//@   snapshot at0 = atRule#1
//@   ensures[F,C08] @rule-list-kinds: result == BeginAtRuleGrammar && (at0 == Document || at0 == Keyframes || at0 == Layer || at0 == Media || at0 == Supports) ==> p.state[len(p.state)-1] == fn("css.Parser.parseAtRuleRuleList")
//@   ensures[F,C08] @declaration-list-kinds: result == BeginAtRuleGrammar && (at0 == Font_Face || at0 == Page) ==> p.state[len(p.state)-1] == fn("css.Parser.parseAtRuleDeclarationList")
//@   ensures[F,C08] @unknown-kinds: result == BeginAtRuleGrammar && !(at0 == Document || at0 == Keyframes || at0 == Layer || at0 == Media || at0 == Supports || at0 == Font_Face || at0 == Page) ==> p.state[len(p.state)-1] == fn("css.Parser.parseAtRuleUnknown")
//@   loop 1 transition[F,C08] @level: smallInt(prev(p.level)) ==> p.level == prev(p.level) + cssLevelStep(tt)
//@   loop * candidate len(p.state) == old(len(p.state))
//@   loop * candidate p.prevEnd == old(p.prevEnd)
//@   loop * candidate forall(i, 0, len(p.state), p.state[i] == old(p.state[i]))
//@   loop * candidate p.err == old(p.err)
//@   preserves[S] cpInv(p) && p.l.r.pos >= old(p.l.r.pos)
//@   ensures[F,C08] @begin-atrule: result == BeginAtRuleGrammar ==> len(p.state) == old(len(p.state)) + 1 && isAtRuleBlock(p.state[len(p.state)-1])
//@   ensures[F,C08] @begin-ruleset: result == BeginRulesetGrammar ==> len(p.state) == old(len(p.state)) + 1 && p.state[len(p.state)-1] == fn("css.Parser.parseQualifiedRuleDeclarationList")
//@   ensures[F,C08] @end-atrule: result == EndAtRuleGrammar ==> len(p.state) == old(len(p.state)) - 1 && isAtRuleBlock(old(p.state[len(p.state)-1]))
//@   ensures[F,C08] @end-ruleset: result == EndRulesetGrammar ==> len(p.state) == old(len(p.state)) - 1 && old(p.state[len(p.state)-1]) == fn("css.Parser.parseQualifiedRuleDeclarationList")
//@   ensures[F,C08] @same-depth: result == DeclarationGrammar || result == TokenGrammar || result == CommentGrammar || result == AtRuleGrammar || result == CustomPropertyGrammar ==> len(p.state) == old(len(p.state))
//@   ensures[F,C08] @stack-prefix: forall(i, 0, min(len(p.state), old(len(p.state))), p.state[i] == old(p.state[i]))
//@   ensures[F,C08] @eof-closed: result == ErrorGrammar && p.err == "" ==> len(p.state) == 1
//@   ensures[T,C01] @measure: cpMstep(p, result)
//@   loop * candidate[T] cpM(p) <= old(cpM(p))
//@   requires[S] p.tt == AtKeywordToken
//@   loop * decreases len(p.l.r.buf) - p.l.r.pos
// the at-rule kind is looked up from the lower-cased name (the hash table holds lower-case names only)
//@   callsite css.ToHash[F,C08] @lowered: forall(k, 0, len(arg0), !('A' <= arg0[k] && arg0[k] <= 'Z'))
//@ func Parser.parseQualifiedRule
// inside an attribute selector [...] white space is not a combinator: the flag is set by '[' and cleared by the next ']'
// white space after a combinator (a token that is exactly one of , > + ~) is dropped, after anything else it is kept
//@   loop 1 transition[F,C08] @after-combinator: skipWS <==> (len(data) == 1 && (data[0] == ',' || data[0] == '>' || data[0] == '+' || data[0] == '~'))
//@   loop 1 transition[F,C08] @attr-sel: inAttrSel <==> ite(tt == LeftBracketToken, true, ite(tt == RightBracketToken, false, prev(inAttrSel)))
//@   loop 1 transition[F,C08] @level: smallInt(prev(p.level)) ==> p.level == prev(p.level) + cssLevelStep(tt)
//@   loop * candidate[T] first ==> p.tt == old(p.tt) && cpM(p) == old(cpM(p))
//@   loop * candidate len(p.state) == old(len(p.state))
//@   loop * candidate p.prevEnd == old(p.prevEnd)
//@   loop * candidate forall(i, 0, len(p.state), p.state[i] == old(p.state[i]))
//@   loop * candidate p.err == old(p.err)
//@   loop * candidate p.tt != CommentToken
//@   loop * candidate first || p.tt == WhitespaceToken
//@   preserves[S] cpInv(p) && p.l.r.pos >= old(p.l.r.pos)
//@   ensures[F,C08] @begin-atrule: result == BeginAtRuleGrammar ==> len(p.state) == old(len(p.state)) + 1 && isAtRuleBlock(p.state[len(p.state)-1])
//@   ensures[F,C08] @begin-ruleset: result == BeginRulesetGrammar ==> len(p.state) == old(len(p.state)) + 1 && p.state[len(p.state)-1] == fn("css.Parser.parseQualifiedRuleDeclarationList")
//@   ensures[F,C08] @end-atrule: result == EndAtRuleGrammar ==> len(p.state) == old(len(p.state)) - 1 && isAtRuleBlock(old(p.state[len(p.state)-1]))
//@   ensures[F,C08] @end-ruleset: result == EndRulesetGrammar ==> len(p.state) == old(len(p.state)) - 1 && old(p.state[len(p.state)-1]) == fn("css.Parser.parseQualifiedRuleDeclarationList")
//@   ensures[F,C08] @same-depth: result == DeclarationGrammar || result == TokenGrammar || result == CommentGrammar || result == AtRuleGrammar || result == CustomPropertyGrammar ==> len(p.state) == old(len(p.state))
//@   ensures[F,C08] @stack-prefix: forall(i, 0, min(len(p.state), old(len(p.state))), p.state[i] == old(p.state[i]))
//@   ensures[F,C08] @eof-closed: result == ErrorGrammar && p.err == "" ==> len(p.state) == 1
//@   ensures[T,C01] @measure: cpMstep(p, result)
//@   loop * candidate[T] cpM(p) <= old(cpM(p))
//@   loop * decreases 2*(len(p.l.r.buf) - p.l.r.pos) + ite(first, 1, 0)
//@ func Parser.parseDeclaration
// a declaration ends at a ';' or '}' outside all brackets, or at the end of the input
//@   ensures[F,C08,perpath,local] @ends-at-level0: result == DeclarationGrammar ==> tt == ErrorToken || p.level == 0
// the first token of the unit under construction is the name token exactly as the caller passed it
//@   ensures[F,C08,perpath,local] @first-token: result == BeginRulesetGrammar ==> len(p.buf) >= 1 && sameSlice(p.buf[0].Data, old(p.data))
// the error position of 'expected colon' is the offset of the FIRST token after the property name: once recorded it stays
//@   loop 1 transition[F,C15] @offset-first: prev(offset) != 0 ==> offset == prev(offset)
//@   loop 1 transition[F,C15] @offset-set: prev(offset) == 0 ==> offset == p.l.r.pos - len(data)
//@   loop 1 transition[F,C08] @level: smallInt(prev(p.level)) ==> p.level == prev(p.level) + cssLevelStep(tt)
//@   requires[T] p.tt != ErrorToken
//@   loop * candidate 0 <= offset && offset <= p.l.r.pos
//@   loop * candidate len(p.state) == old(len(p.state))
//@   loop * candidate p.prevEnd == old(p.prevEnd)
//@   loop * candidate forall(i, 0, len(p.state), p.state[i] == old(p.state[i]))
//@   loop * candidate p.err == old(p.err)
//@   preserves[S] cpInv(p) && p.l.r.pos >= old(p.l.r.pos)
//@   ensures[F,C08] @begin-atrule: result == BeginAtRuleGrammar ==> len(p.state) == old(len(p.state)) + 1 && isAtRuleBlock(p.state[len(p.state)-1])
//@   ensures[F,C08] @begin-ruleset: result == BeginRulesetGrammar ==> len(p.state) == old(len(p.state)) + 1 && p.state[len(p.state)-1] == fn("css.Parser.parseQualifiedRuleDeclarationList")
//@   ensures[F,C08] @end-atrule: result == EndAtRuleGrammar ==> len(p.state) == old(len(p.state)) - 1 && isAtRuleBlock(old(p.state[len(p.state)-1]))
//@   ensures[F,C08] @end-ruleset: result == EndRulesetGrammar ==> len(p.state) == old(len(p.state)) - 1 && old(p.state[len(p.state)-1]) == fn("css.Parser.parseQualifiedRuleDeclarationList")
//@   ensures[F,C08] @same-depth: result == DeclarationGrammar || result == TokenGrammar || result == CommentGrammar || result == AtRuleGrammar || result == CustomPropertyGrammar ==> len(p.state) == old(len(p.state))
//@   ensures[F,C08] @stack-prefix: forall(i, 0, min(len(p.state), old(len(p.state))), p.state[i] == old(p.state[i]))
//@   ensures[F,C08] @eof-closed: result == ErrorGrammar && p.err == "" ==> len(p.state) == 1
//@   ensures[T,C01] @measure: cpMstep(p, result)
//@   loop * candidate[T] cpM(p) <= old(cpM(p))
//@   loop * candidate len(p.buf) >= 1
//@   loop 1 candidate[F] len(p.buf) >= 1 && sameSlice(p.buf[0].Data, old(p.data))
//@   loop * candidate 0 <= j && j <= i && i <= len(p.buf)
//@   loop * candidate 1 <= i && i <= len(p.buf)
//@   loop * candidate 0 <= offset
//@   loop 1 decreases len(p.l.r.buf) - p.l.r.pos
//@ func Parser.parseDeclarationError
//@   ensures[F,C08] @error-unit: result == ErrorGrammar
//@   loop 1 transition[F,C08] @level: smallInt(prev(p.level)) ==> p.level == prev(p.level) + cssLevelStep(prev(tt))
//@   loop * candidate len(p.state) == old(len(p.state))
//@   loop * candidate p.prevEnd == old(p.prevEnd)
//@   loop * candidate forall(i, 0, len(p.state), p.state[i] == old(p.state[i]))
//@   loop * candidate p.err == old(p.err)
//@   preserves[S] cpInv(p) && p.l.r.pos >= old(p.l.r.pos)
//@   ensures[F,C08] @begin-atrule: result == BeginAtRuleGrammar ==> len(p.state) == old(len(p.state)) + 1 && isAtRuleBlock(p.state[len(p.state)-1])
//@   ensures[F,C08] @begin-ruleset: result == BeginRulesetGrammar ==> len(p.state) == old(len(p.state)) + 1 && p.state[len(p.state)-1] == fn("css.Parser.parseQualifiedRuleDeclarationList")
//@   ensures[F,C08] @end-atrule: result == EndAtRuleGrammar ==> len(p.state) == old(len(p.state)) - 1 && isAtRuleBlock(old(p.state[len(p.state)-1]))
//@   ensures[F,C08] @end-ruleset: result == EndRulesetGrammar ==> len(p.state) == old(len(p.state)) - 1 && old(p.state[len(p.state)-1]) == fn("css.Parser.parseQualifiedRuleDeclarationList")
//@   ensures[F,C08] @same-depth: result == DeclarationGrammar || result == TokenGrammar || result == CommentGrammar || result == AtRuleGrammar || result == CustomPropertyGrammar ==> len(p.state) == old(len(p.state))
//@   ensures[F,C08] @stack-prefix: forall(i, 0, min(len(p.state), old(len(p.state))), p.state[i] == old(p.state[i]))
//@   ensures[F,C08] @eof-closed: result == ErrorGrammar && p.err == "" ==> len(p.state) == 1
//@   ensures[T,C01] @measure: cpMstep(p, result)
//@   loop * candidate[T] cpM(p) <= old(cpM(p))
//@   requires[S] tokOK(tt, data, p) && (tt == RightBraceToken ==> p.l.r.pos >= 1) && tt != CommentToken
//@   requires[F] p.err != ""
//@   loop 1 invariant tokOK(tt, data, p) && (tt == RightBraceToken ==> p.l.r.pos >= 1) && tt != CommentToken
//@   loop 1 decreases ite(tt == ErrorToken, 0, len(p.l.r.buf) - p.l.r.pos + 1)
//@ func Parser.parseCustomProperty
// a '}' that ends the value also ends the enclosing block: it is remembered so that the next call reports the End unit
//@   ensures[F,C08,perpath,local] @end-brace: result == CustomPropertyGrammar ==> (p.prevEnd <==> tt#2 == RightBraceToken)
//@   loop 1 transition[F,C08] @level: smallInt(prev(p.level)) ==> p.level == prev(p.level) + cssLevelStep(tt)
//@   requires[T] p.tt != ErrorToken
//@   loop * candidate len(p.state) == old(len(p.state))
//@   loop * candidate p.prevEnd == old(p.prevEnd)
//@   loop * candidate forall(i, 0, len(p.state), p.state[i] == old(p.state[i]))
//@   loop * candidate p.err == old(p.err)
//@   preserves[S] cpInv(p) && p.l.r.pos >= old(p.l.r.pos)
//@   ensures[F,C08] @begin-atrule: result == BeginAtRuleGrammar ==> len(p.state) == old(len(p.state)) + 1 && isAtRuleBlock(p.state[len(p.state)-1])
//@   ensures[F,C08] @begin-ruleset: result == BeginRulesetGrammar ==> len(p.state) == old(len(p.state)) + 1 && p.state[len(p.state)-1] == fn("css.Parser.parseQualifiedRuleDeclarationList")
//@   ensures[F,C08] @end-atrule: result == EndAtRuleGrammar ==> len(p.state) == old(len(p.state)) - 1 && isAtRuleBlock(old(p.state[len(p.state)-1]))
//@   ensures[F,C08] @end-ruleset: result == EndRulesetGrammar ==> len(p.state) == old(len(p.state)) - 1 && old(p.state[len(p.state)-1]) == fn("css.Parser.parseQualifiedRuleDeclarationList")
//@   ensures[F,C08] @same-depth: result == DeclarationGrammar || result == TokenGrammar || result == CommentGrammar || result == AtRuleGrammar || result == CustomPropertyGrammar ==> len(p.state) == old(len(p.state))
//@   ensures[F,C08] @stack-prefix: forall(i, 0, min(len(p.state), old(len(p.state))), p.state[i] == old(p.state[i]))
//@   ensures[F,C08] @eof-closed: result == ErrorGrammar && p.err == "" ==> len(p.state) == 1
//@   ensures[T,C01] @measure: cpMstep(p, result)
//@   loop * candidate[T] cpM(p) <= old(cpM(p))
//@   loop 1 invariant fresh(val)
//@   loop 1 decreases len(p.l.r.buf) - p.l.r.pos

//@ func Parser.Next
//@   dyncall like Parser.parseStylesheet on p
//@   preserves[S] cpInv(p) && p.l.r.pos >= old(p.l.r.pos)
//@   ensures[F,C08] @begin-atrule: result0 == BeginAtRuleGrammar ==> len(p.state) == old(len(p.state)) + 1 && isAtRuleBlock(p.state[len(p.state)-1])
//@   ensures[F,C08] @begin-ruleset: result0 == BeginRulesetGrammar ==> len(p.state) == old(len(p.state)) + 1 && p.state[len(p.state)-1] == fn("css.Parser.parseQualifiedRuleDeclarationList")
//@   ensures[F,C08] @end-atrule: result0 == EndAtRuleGrammar ==> len(p.state) == old(len(p.state)) - 1 && isAtRuleBlock(old(p.state[len(p.state)-1]))
//@   ensures[F,C08] @end-ruleset: result0 == EndRulesetGrammar ==> len(p.state) == old(len(p.state)) - 1 && old(p.state[len(p.state)-1]) == fn("css.Parser.parseQualifiedRuleDeclarationList")
//@   ensures[F,C08] @same-depth: result0 == DeclarationGrammar || result0 == TokenGrammar || result0 == CommentGrammar || result0 == AtRuleGrammar || result0 == CustomPropertyGrammar ==> len(p.state) == old(len(p.state))
//@   ensures[F,C08] @stack-prefix: forall(i, 0, min(len(p.state), old(len(p.state))), p.state[i] == old(p.state[i]))
//@   ensures[F,C08] @eof-closed: result0 == ErrorGrammar && p.err == "" ==> len(p.state) == 1
//@   ensures[T,C01] @progress: result0 != ErrorGrammar ==> cpM(p) < old(cpM(p))
//@ func Parser.Err
// Err reports on the parser's current state and leaves it as it is: the error value is built afresh from err/errPos on every call
// (nothing is cached in the parser, so a later error is never reported with an earlier one's position)
//@   observer
//@   requires[S] p != nil && p.l != nil && lexInv(p.l) && 0 <= p.errPos && p.errPos <= len(p.l.r.buf)-1
//@   ensures[F,C15] @grammar-error: len(p.err) != 0 ==> result != nil
//@ func Parser.Offset
//@   requires[S] p != nil && p.l != nil && p.l.r != nil
//@ func NewParser
//@   requires[S] bufInv(r) && r.start == r.pos
//@   ensures[S] cpInv(result)

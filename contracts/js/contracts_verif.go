//go:build verif

// Contracts for package js, read by /verif/engine (vcgo). Comments only.
package js

//@ pred jlInv(l) := l != nil && l.r != nil && inputInv(l.r)
//@ pred jlStep(l) := jlInv(l) && l.r.pos >= old(l.r.pos) && l.r.start == old(l.r.start)

//@ func Lexer.consumeWhitespace
//@   preserves[S] jlStep(l)
//@   ensures[S]  !result ==> l.r.pos == old(l.r.pos)
//@   ensures[S]  result ==> l.r.pos > old(l.r.pos)

//@ func Lexer.isLineTerminator
//@   requires[S] jlInv(l)
//@   ensures[S]  result ==> l.r.buf[l.r.pos] != 0

//@ func Lexer.consumeLineTerminator
//@   preserves[S] jlStep(l)
//@   ensures[S]  !result ==> l.r.pos == old(l.r.pos)
//@   ensures[S]  result ==> l.r.pos > old(l.r.pos)

//@ func Lexer.consumeDigit
//@   preserves[S] jlStep(l)
//@   ensures[S]  !result ==> l.r.pos == old(l.r.pos)
//@   ensures[S]  result ==> l.r.pos == old(l.r.pos)+1
//@   ensures[S]  @own-class: result <==> ('0' <= old(l.r.buf[l.r.pos]) && old(l.r.buf[l.r.pos]) <= '9')

//@ func Lexer.consumeHexDigit
//@   preserves[S] jlStep(l)
//@   ensures[S]  !result ==> l.r.pos == old(l.r.pos)
//@   ensures[S]  result ==> l.r.pos == old(l.r.pos)+1

//@ func Lexer.consumeBinaryDigit
//@   preserves[S] jlStep(l)
//@   ensures[S]  !result ==> l.r.pos == old(l.r.pos)
//@   ensures[S]  result ==> l.r.pos == old(l.r.pos)+1

//@ func Lexer.consumeOctalDigit
//@   preserves[S] jlStep(l)
//@   ensures[S]  !result ==> l.r.pos == old(l.r.pos)
//@   ensures[S]  result ==> l.r.pos == old(l.r.pos)+1

//@ func Lexer.consumeUnicodeEscape
//@   preserves[S] jlStep(l)
//@   ensures[S]  !result ==> l.r.pos == old(l.r.pos)
//@   ensures[S]  result ==> l.r.pos > old(l.r.pos)
//@   loop * candidate l.r.pos > old(l.r.pos)
//@   loop * decreases len(l.r.buf) - l.r.pos

//@ func Lexer.consumeSingleLineComment
//@   preserves[S] jlStep(l)
//@   loop * decreases len(l.r.buf) - l.r.pos

//@ func Lexer.consumeHTMLLikeCommentToken
//@   preserves[S] jlStep(l)
//@   ensures[S]  !result ==> l.r.pos == old(l.r.pos)
//@   ensures[S]  result ==> l.r.pos > old(l.r.pos)

//@ func Lexer.consumeCommentToken
//@   preserves[S] jlStep(l)
//@   requires[S] l.r.buf[l.r.pos] != 0
//@   ensures[S]  result == ErrorToken ==> l.r.pos == old(l.r.pos) || l.err != nil
//@   ensures[S]  result != ErrorToken ==> l.r.pos > old(l.r.pos) && l.err == old(l.err)
//@   ensures[S]  l.r.pos == old(l.r.pos) ==> l.err == old(l.err)
//@   loop * candidate l.r.pos > old(l.r.pos)
//@   loop * candidate l.err == old(l.err)
//@   loop * candidate tt == CommentToken || tt == CommentLineTerminatorToken
//@   loop * decreases len(l.r.buf) - l.r.pos

//@ func Lexer.consumeOperatorToken
//@   preserves[S] jlStep(l)
//@   requires[S] l.r.buf[l.r.pos] != 0
//@   ensures[S]  l.r.pos > old(l.r.pos)

//@ func Lexer.consumeIdentifierToken
//@   preserves[S] jlStep(l)
//@   ensures[S]  !result ==> l.r.pos == old(l.r.pos)
//@   ensures[S]  result ==> l.r.pos > old(l.r.pos)
//@   loop * candidate l.r.pos > old(l.r.pos)
//@   loop * decreases len(l.r.buf) - l.r.pos

//@ func Lexer.consumeNumericSeparator
//@   funcparam f like Lexer.consumeDigit on l
//@   preserves[S] jlStep(l)
//@   ensures[S]  !result ==> l.r.pos == old(l.r.pos)
//@   ensures[S]  result ==> l.r.pos > old(l.r.pos)

//@ func Lexer.consumeNumericToken
//@   preserves[S] jlStep(l)
//@   requires[S] ('0' <= l.r.buf[l.r.pos] && l.r.buf[l.r.pos] <= '9') || l.r.buf[l.r.pos] == '.'
//@   ensures[S]  result != ErrorToken ==> l.r.pos > old(l.r.pos)
//@   ensures[S]  result == ErrorToken && l.r.pos == old(l.r.pos) ==> l.err == old(l.err)
//@   loop * candidate l.r.pos > old(l.r.pos)
//@   loop * candidate l.r.pos > old(l.r.pos) || first != '.'
//@   loop * candidate l.err == old(l.err)
//@   loop * decreases len(l.r.buf) - l.r.pos

//@ func Lexer.consumeStringToken
//@   preserves[S] jlStep(l)
//@   requires[S] l.r.buf[l.r.pos] != 0
//@   ensures[S]  l.r.pos > old(l.r.pos)
//@   loop * candidate l.r.pos > old(l.r.pos)
//@   loop * decreases len(l.r.buf) - l.r.pos

//@ func Lexer.consumeRegExpToken
//@   preserves[S] jlStep(l)
//@   requires[S] l.r.buf[l.r.pos] != 0
//@   ensures[S]  l.r.pos > old(l.r.pos)
//@   loop * candidate l.r.pos > old(l.r.pos)
//@   loop * decreases len(l.r.buf) - l.r.pos

//@ func Lexer.consumeTemplateToken
//@   preserves[S] jlStep(l)
//@   requires[S] l.r.buf[l.r.pos] != 0 && len(l.templateLevels) >= 1
//@   ensures[S]  l.r.pos > old(l.r.pos)
//@   loop * candidate l.r.pos > old(l.r.pos)
//@   loop * candidate len(l.templateLevels) == old(len(l.templateLevels))
//@   loop * decreases len(l.r.buf) - l.r.pos

//@ func Lexer.RegExp
//@   preserves[S] jlInv(l)

//@ func Lexer.Next
//@   preserves[S] jlInv(l) && l.r.pos >= old(l.r.pos) && l.r.start >= old(l.r.start)
//@   ensures[S,C01] @progress: l.r.pos + l.r.start > old(l.r.pos + l.r.start) || (result0 == ErrorToken && result1 == nil && l.r.pos == len(l.r.buf)-1)
//@   ensures[S,C01] @sticky: old(l.r.pos) == len(l.r.buf)-1 ==> result0 == ErrorToken && result1 == nil && l.r.pos == old(l.r.pos)
//@   loop * candidate l.r.pos > old(l.r.pos)
//@   loop * candidate l.r.start == old(l.r.start)
//@   loop * decreases len(l.r.buf) - l.r.pos
//@   requires[T] l.r.start == l.r.pos
//@   ensures[T,C02] @tile: result0 != ErrorToken ==> sameMem(result1, l.r.buf[old(l.r.pos):l.r.pos]) && cap(result1) == len(result1) && len(result1) > 0 && l.r.start == l.r.pos
//@   ensures[T,C02] @errtok: result0 == ErrorToken && result1 != nil ==> sameMem(result1, l.r.buf[old(l.r.pos):l.r.pos]) && cap(result1) == len(result1) && l.r.start == l.r.pos
//@   ensures[T,C02] @frame: sameBytesExcept(0, 0)

//@ func Lexer.Err
//@   requires[S] l != nil && l.r != nil && bufInv(l.r)
//@ func NewLexer
//@   ensures[S]  result != nil && result.r == r && len(result.templateLevels) == 0

// ---- C18: the child relation of the tree
// Scope tables reference nodes that are not part of the tree.
//@ walk exclude Scope Var.Link
// ClassElement is a tagged union: exactly the first alternative that is set belongs to the tree.
//@ walk union ClassElement: StaticBlock | Method | Field
//@ walk inline ClassElement
// ClassElementName is either a private name or a property name.
//@ walk union ClassElementName: Private | PropertyName

//go:build verif

// Contracts for package js, read by /verif/engine (vcgo). Comments only.
package js

//@ pred jlInv(l) := l != nil && l.r != nil && inputInv(l.r)
// a lexer error set during a call was reported for a byte inside the span that call scanned
//@ pred jlErr(l) := l.err == old(l.err) || (l.err != nil && old(l.r.pos) <= errOff(l.err) && errOff(l.err) <= l.r.pos)
//@ pred jlStep(l) := jlInv(l) && l.r.pos >= old(l.r.pos) && l.r.start == old(l.r.start)

//@ func Lexer.consumeWhitespace
//@   preserves[S] jlStep(l)
//@   ensures[S]  !result ==> l.r.pos == old(l.r.pos)
//@   ensures[S]  result ==> l.r.pos > old(l.r.pos)

//@ func Lexer.isLineTerminator
//@   requires[S] jlInv(l)
//@   ensures[S]  result ==> l.r.buf[l.r.pos] != 0

//@ pred isLTat(b, k) := b[k] == '\n' || b[k] == '\r' || (b[k] == 0xE2 && b[k+1] == 0x80 && (b[k+2] == 0xA8 || b[k+2] == 0xA9))
//@ pred ltLen(b, k) := ite(b[k] == '\n', 1, ite(b[k] == '\r', ite(b[k+1] == '\n', 2, 1), 3))
//@ func Lexer.consumeLineTerminator
//@   preserves[S] jlStep(l)
//@   ensures[S]  !result ==> l.r.pos == old(l.r.pos)
//@   ensures[S]  result ==> l.r.pos > old(l.r.pos)
//@   ensures[F,C06] @lt: result <==> isLTat(l.r.buf, old(l.r.pos))
//@   ensures[F,C06] @lt-len: result ==> l.r.pos == old(l.r.pos) + ltLen(l.r.buf, old(l.r.pos))

// the four digit scanners share one behavioural contract, indexed by the function's identity (self()), so that
// consumeNumericSeparator(f) can be specified for whichever of them it is given
//@ pred isHexC(c) := ('0' <= c && c <= '9') || ('a' <= c && c <= 'f') || ('A' <= c && c <= 'F')
//@ pred jsDigitClass(f, c) := ite(f == fn("js.Lexer.consumeDigit"), isDig(c), ite(f == fn("js.Lexer.consumeHexDigit"), isHexC(c), ite(f == fn("js.Lexer.consumeBinaryDigit"), c == '0' || c == '1', f == fn("js.Lexer.consumeOctalDigit") && '0' <= c && c <= '7')))
//@ func Lexer.consumeDigit
//@   ensures[F,C06] @class: result <==> jsDigitClass(self(), old(l.r.buf[l.r.pos]))
//@   preserves[S] jlStep(l)
//@   ensures[S]  !result ==> l.r.pos == old(l.r.pos)
//@   ensures[S]  result ==> l.r.pos == old(l.r.pos)+1
//@   ensures[S]  @own-class: result <==> ('0' <= old(l.r.buf[l.r.pos]) && old(l.r.buf[l.r.pos]) <= '9')

//@ func Lexer.consumeHexDigit
//@   ensures[F,C06] @class: result <==> jsDigitClass(self(), old(l.r.buf[l.r.pos]))
//@   preserves[S] jlStep(l)
//@   ensures[S]  !result ==> l.r.pos == old(l.r.pos)
//@   ensures[S]  result ==> l.r.pos == old(l.r.pos)+1

//@ func Lexer.consumeBinaryDigit
//@   ensures[F,C06] @class: result <==> jsDigitClass(self(), old(l.r.buf[l.r.pos]))
//@   preserves[S] jlStep(l)
//@   ensures[S]  !result ==> l.r.pos == old(l.r.pos)
//@   ensures[S]  result ==> l.r.pos == old(l.r.pos)+1

//@ func Lexer.consumeOctalDigit
//@   ensures[F,C06] @class: result <==> jsDigitClass(self(), old(l.r.buf[l.r.pos]))
//@   preserves[S] jlStep(l)
//@   ensures[S]  !result ==> l.r.pos == old(l.r.pos)
//@   ensures[S]  result ==> l.r.pos == old(l.r.pos)+1

//@ func Lexer.consumeUnicodeEscape
//@   ensures[F,C06] @escape-start: result ==> old(l.r.buf[l.r.pos]) == '\\' && old(l.r.buf[l.r.pos+1]) == 'u'
//@   preserves[S] jlStep(l)
//@   ensures[S]  !result ==> l.r.pos == old(l.r.pos)
//@   ensures[S]  result ==> l.r.pos > old(l.r.pos)
//@   loop * candidate l.r.pos > old(l.r.pos)
//@   loop * decreases len(l.r.buf) - l.r.pos

//@ func Lexer.consumeSingleLineComment
//@   preserves[S] jlStep(l)
//@   loop * decreases len(l.r.buf) - l.r.pos

//@ func Lexer.consumeHTMLLikeCommentToken
//@   preserves[S] jlStep(l)
//@   ensures[S]  !result ==> l.r.pos == old(l.r.pos)
//@   ensures[S]  result ==> l.r.pos > old(l.r.pos)

//@ func Lexer.consumeCommentToken
//@   ensures[F,C15] @err-span: jlErr(l) && (l.err != old(l.err) ==> result == ErrorToken)
//@   loop * candidate[F] l.err == old(l.err)
//@   preserves[S] jlStep(l)
//@   requires[S] l.r.buf[l.r.pos] != 0
//@   ensures[S]  result == ErrorToken ==> l.r.pos == old(l.r.pos) || l.err != nil
//@   ensures[S]  result != ErrorToken ==> l.r.pos > old(l.r.pos) && l.err == old(l.err)
//@   ensures[S]  l.r.pos == old(l.r.pos) ==> l.err == old(l.err)
//@   loop * candidate l.r.pos > old(l.r.pos)
//@   loop * candidate l.err == old(l.err)
//@   loop * candidate tt == CommentToken || tt == CommentLineTerminatorToken
//@   requires[F] l.r.buf[l.r.pos] == '/'
//@   ensures[F,C06] @comment-lt: result == CommentLineTerminatorToken ==> exists(k, old(l.r.pos), l.r.pos, isLTat(l.r.buf, k))
//@   ensures[F,C06] @comment-nolt: result == CommentToken && l.r.buf[old(l.r.pos)+1] == '*' ==> forall(k, old(l.r.pos), l.r.pos, !isLTat(l.r.buf, k))
//@   ensures[F,C06] @comment-kind: result == ErrorToken || result == CommentToken || result == CommentLineTerminatorToken
//@   ensures[F,C06] @comment-close: result != ErrorToken && l.r.buf[old(l.r.pos)+1] == '*' ==> l.r.pos >= old(l.r.pos) + 4 && l.r.buf[l.r.pos-2] == '*' && l.r.buf[l.r.pos-1] == '/'
//@   loop 1 invariant[F] l.r.pos >= old(l.r.pos) + 2
//@   loop 1 invariant[F] tt == CommentLineTerminatorToken ==> exists(k, old(l.r.pos), l.r.pos, isLTat(l.r.buf, k))
//@   loop 1 invariant[F] tt == CommentToken ==> forall(k, old(l.r.pos), l.r.pos, !isLTat(l.r.buf, k))
//@   loop * decreases len(l.r.buf) - l.r.pos

//@ pred isDig(c) := '0' <= c && c <= '9'
//@ func Lexer.consumeOperatorToken
//@   preserves[S] jlStep(l)
//@   requires[S] l.r.buf[l.r.pos] != 0
//@   ensures[S]  l.r.pos > old(l.r.pos)
//@   ensures[F,C06] @closed: result == ErrorToken || result == QuestionToken || result == ArrowToken || (OperatorToken < result && result <= OptChainToken)
//@   ensures[F,C06] @canonical-op: OperatorToken < result && result <= OptChainToken ==> l.r.pos - old(l.r.pos) == len(operatorBytes[result - OperatorToken]) &&
//@        forall(k, 0, l.r.pos - old(l.r.pos), l.r.buf[old(l.r.pos) + k] == operatorBytes[result - OperatorToken][k])
//@   ensures[F,C06] @question: result == QuestionToken ==> l.r.pos == old(l.r.pos) + 1 && l.r.buf[old(l.r.pos)] == '?'
//@   ensures[F,C06] @arrow: result == ArrowToken ==> l.r.pos == old(l.r.pos) + 2 && l.r.buf[old(l.r.pos)] == '=' && l.r.buf[old(l.r.pos)+1] == '>'
//@   ensures[F,C06] @optchain-digit: result == OptChainToken ==> !isDig(l.r.buf[l.r.pos])
//@   ensures[F,C06] @question-dot: result == QuestionToken && l.r.buf[l.r.pos] == '.' ==> isDig(l.r.buf[l.r.pos+1])
//@   ensures[F,C06] @longest-eq: result != ErrorToken && l.r.buf[l.r.pos] == '=' ==> result == EqEqEqToken || result == NotEqEqToken || result == ArrowToken || result == BitNotToken || result == QuestionToken || result == OptChainToken ||
//@        result == IncrToken || result == DecrToken || result == GtGtGtEqToken || result == LtLtEqToken || result == GtGtEqToken || result == ExpEqToken || result == AndEqToken || result == OrEqToken || result == NullishEqToken ||
//@        result == EqEqToken || result == NotEqToken || result == LtEqToken || result == GtEqToken || result == AddEqToken || result == SubEqToken || result == MulEqToken || result == DivEqToken || result == ModEqToken || result == BitAndEqToken || result == BitOrEqToken || result == BitXorEqToken

// jsIdAt(a): the identifier scanner's verdict on the bytes at address a (ghost, defined by consumeIdentifierToken's result; the
// Unicode classes behind it are data of package unicode). Next's clause on '#' is stated relative to it.
//@ ghost jsIdAt(a)
//@ func Lexer.consumeIdentifierToken
//@   ensures[F,ghost] @verdict: result <==> jsIdAt(ptr(l.r.buf) + old(l.r.pos)) == 1
// ID_Start is Lu Ll Lt Lm Lo Nl and Other_ID_Start (seven classes), ID_Continue adds Mn Mc Nd Pc and Other_ID_Continue
// (eleven): the class lists are complete in number (which class each entry is belongs to package unicode)
//@   ensures[F,C06] @id-class-count: old(len(identifierStart) == 7 && len(identifierContinue) == 11)
//@   ensures[F,C06] @id-start: result ==> identifierStartTable[old(l.r.buf[l.r.pos])] || old(l.r.buf[l.r.pos]) >= 0xC0 || (old(l.r.buf[l.r.pos]) == '\\' && old(l.r.buf[l.r.pos+1]) == 'u')
//@   preserves[S] jlStep(l)
//@   ensures[S]  !result ==> l.r.pos == old(l.r.pos)
//@   ensures[S]  result ==> l.r.pos > old(l.r.pos)
//@   loop * candidate l.r.pos > old(l.r.pos)
//@   loop * decreases len(l.r.buf) - l.r.pos

//@ func Lexer.consumeNumericSeparator
//@   funcparam f like Lexer.consumeDigit on l
//@   ensures[F,C06] @separator: (result <==> old(l.r.buf[l.r.pos]) == '_' && jsDigitClass(f, old(l.r.buf[l.r.pos+1]))) && (result ==> l.r.pos == old(l.r.pos) + 2)
//@   preserves[S] jlStep(l)
//@   ensures[S]  !result ==> l.r.pos == old(l.r.pos)
//@   ensures[S]  result ==> l.r.pos > old(l.r.pos)

// digit runs with numeric separators: a '_' belongs to the run only if a digit of the class follows
//@ orbit decBody(s, p) stop !(isDig(s[p]) || (s[p] == '_' && isDig(s[p+1]))) || p >= len(s)-1 next ite(isDig(s[p]), p+1, p+2)
//@ orbit hexBody(s, p) stop !(isHexC(s[p]) || (s[p] == '_' && isHexC(s[p+1]))) || p >= len(s)-1 next ite(isHexC(s[p]), p+1, p+2)
//@ orbit binBody(s, p) stop !(s[p] == '0' || s[p] == '1' || (s[p] == '_' && (s[p+1] == '0' || s[p+1] == '1'))) || p >= len(s)-1 next ite(s[p] == '0' || s[p] == '1', p+1, p+2)
//@ orbit octBody(s, p) stop !(('0' <= s[p] && s[p] <= '7') || (s[p] == '_' && '0' <= s[p+1] && s[p+1] <= '7')) || p >= len(s)-1 next ite('0' <= s[p] && s[p] <= '7', p+1, p+2)
// decimal literal from p: jI1 end of the integer part, jI2 end of the fraction, jExpS first exponent digit
//@ pred jI1(b, p) := ite(b[p] == '0', p+1, ite(b[p] == '.', p, decBody(b, p)))
//@ pred jI2(b, p) := ite(b[jI1(b, p)] == '.', ite(isDig(b[jI1(b, p)+1]), decBody(b, jI1(b, p)+1), jI1(b, p)+1), jI1(b, p))
//@ pred jExpS(b, p) := jI2(b, p) + 1 + ite(b[jI2(b, p)+1] == '+' || b[jI2(b, p)+1] == '-', 1, 0)
//@ pred jHasExp(b, p) := b[jI2(b, p)] == 'e' || b[jI2(b, p)] == 'E'
//@ func Lexer.consumeNumericToken
//@   ensures[F,C06,local] @hex: result == HexadecimalToken ==> old(l.r.buf[l.r.pos]) == '0' && (l.r.buf[old(l.r.pos)+1] == 'x' || l.r.buf[old(l.r.pos)+1] == 'X') && isHexC(l.r.buf[old(l.r.pos)+2]) && l.r.pos == hexBody(l.r.buf, old(l.r.pos)+2) + ite(l.r.buf[hexBody(l.r.buf, old(l.r.pos)+2)] == 'n', 1, 0)
//@   ensures[F,C06,local] @binary: result == BinaryToken ==> old(l.r.buf[l.r.pos]) == '0' && (l.r.buf[old(l.r.pos)+1] == 'b' || l.r.buf[old(l.r.pos)+1] == 'B') && l.r.pos == binBody(l.r.buf, old(l.r.pos)+2) + ite(l.r.buf[binBody(l.r.buf, old(l.r.pos)+2)] == 'n', 1, 0) && (l.r.buf[old(l.r.pos)+2] == '0' || l.r.buf[old(l.r.pos)+2] == '1')
//@   ensures[F,C06,local] @octal: result == OctalToken ==> old(l.r.buf[l.r.pos]) == '0' && (l.r.buf[old(l.r.pos)+1] == 'o' || l.r.buf[old(l.r.pos)+1] == 'O') && l.r.pos == octBody(l.r.buf, old(l.r.pos)+2) + ite(l.r.buf[octBody(l.r.buf, old(l.r.pos)+2)] == 'n', 1, 0) && '0' <= l.r.buf[old(l.r.pos)+2] && l.r.buf[old(l.r.pos)+2] <= '7'
// longest match for integers (also those that start with 0): unless it ends in the BigInt suffix, an integer literal is never
// cut off in front of a fraction or an exponent
//@   ensures[F,C06,local,perpath] @integer-longest: result == IntegerToken ==> l.r.buf[l.r.pos-1] == 'n' || (l.r.buf[l.r.pos] != '.' && l.r.buf[l.r.pos] != 'e' && l.r.buf[l.r.pos] != 'E')
//@   ensures[F,C06,local,perpath] @decimal: result == DecimalToken ==> (l.r.buf[jI1(l.r.buf, old(l.r.pos))] == '.' || jHasExp(l.r.buf, old(l.r.pos))) && l.r.pos == ite(jHasExp(l.r.buf, old(l.r.pos)), decBody(l.r.buf, jExpS(l.r.buf, old(l.r.pos))), jI2(l.r.buf, old(l.r.pos)))
//@   ensures[F,C06,local] @integer: result == IntegerToken && old(l.r.buf[l.r.pos]) != '0' ==> l.r.buf[jI1(l.r.buf, old(l.r.pos))] != '.' && l.r.pos == jI1(l.r.buf, old(l.r.pos)) + ite(l.r.buf[jI1(l.r.buf, old(l.r.pos))] == 'n', 1, 0)
//@   loop 1 invariant[F] hexBody(l.r.buf, l.r.pos) == hexBody(l.r.buf, old(l.r.pos)+2) && isHexC(l.r.buf[old(l.r.pos)+2]) && l.r.pos > old(l.r.pos)+2
//@   loop 2 invariant[F] binBody(l.r.buf, l.r.pos) == binBody(l.r.buf, old(l.r.pos)+2) && l.r.pos > old(l.r.pos)+2 && (l.r.buf[old(l.r.pos)+2] == '0' || l.r.buf[old(l.r.pos)+2] == '1')
//@   loop 3 invariant[F] octBody(l.r.buf, l.r.pos) == octBody(l.r.buf, old(l.r.pos)+2) && l.r.pos > old(l.r.pos)+2 && '0' <= l.r.buf[old(l.r.pos)+2] && l.r.buf[old(l.r.pos)+2] <= '7'
//@   loop 4 invariant[F] decBody(l.r.buf, l.r.pos) == decBody(l.r.buf, old(l.r.pos)) && first != '0' && first != '.' && first == old(l.r.buf[l.r.pos])
//@   loop 5 invariant[F] l.r.buf[jI1(l.r.buf, old(l.r.pos))] == '.' && isDig(l.r.buf[jI1(l.r.buf, old(l.r.pos))+1]) && decBody(l.r.buf, l.r.pos) == decBody(l.r.buf, jI1(l.r.buf, old(l.r.pos))+1) && first == old(l.r.buf[l.r.pos])
//@   loop 6 invariant[F] jHasExp(l.r.buf, old(l.r.pos)) && isDig(l.r.buf[jExpS(l.r.buf, old(l.r.pos))]) && decBody(l.r.buf, l.r.pos) == decBody(l.r.buf, jExpS(l.r.buf, old(l.r.pos))) && first == old(l.r.buf[l.r.pos])
//@   ensures[F,C15] @err-span: jlErr(l) && (l.err != old(l.err) ==> result == ErrorToken)
//@   loop * candidate[F] l.err == old(l.err)
//@   preserves[S] jlStep(l)
//@   requires[S] ('0' <= l.r.buf[l.r.pos] && l.r.buf[l.r.pos] <= '9') || l.r.buf[l.r.pos] == '.'
//@   ensures[F,C06] @num-kind: result == ErrorToken || result == DecimalToken || result == BinaryToken || result == OctalToken || result == HexadecimalToken || result == IntegerToken
//@   ensures[S]  result != ErrorToken ==> l.r.pos > old(l.r.pos)
//@   ensures[S]  result == ErrorToken && l.r.pos == old(l.r.pos) ==> l.err == old(l.err)
//@   loop * candidate l.r.pos > old(l.r.pos)
//@   loop * candidate l.r.pos > old(l.r.pos) || first != '.'
//@   loop * candidate l.err == old(l.err)
//@   loop * decreases len(l.r.buf) - l.r.pos

// string body from p for a delimiter: stops at the delimiter, at a raw \n or \r, or at the end of input; a backslash takes a
// following line terminator (line continuation), delimiter or backslash with it
//@ pred jsStrNextD(b, p) := ite(b[p] == '\\', p + 1 + ite(isLTat(b, p+1), ltLen(b, p+1), ite(b[p+1] == '"' || b[p+1] == '\\', 1, 0)), p + 1)
//@ pred jsStrNextS(b, p) := ite(b[p] == '\\', p + 1 + ite(isLTat(b, p+1), ltLen(b, p+1), ite(b[p+1] == '\'' || b[p+1] == '\\', 1, 0)), p + 1)
//@ orbit jsStrEndD(s, p) stop s[p] == '"' || s[p] == '\n' || s[p] == '\r' || p >= len(s)-1 next jsStrNextD(s, p)
//@ orbit jsStrEndS(s, p) stop s[p] == '\'' || s[p] == '\n' || s[p] == '\r' || p >= len(s)-1 next jsStrNextS(s, p)
//@ pred jsStrEnd(b, p, d) := ite(d == '"', jsStrEndD(b, p), jsStrEndS(b, p))
//@ func Lexer.consumeStringToken
//@   requires[F] l.r.buf[l.r.pos] == '"' || l.r.buf[l.r.pos] == '\''
//@   ensures[F,C06] @string-end: result == StringToken ==> l.r.pos == jsStrEnd(l.r.buf, old(l.r.pos)+1, old(l.r.buf[l.r.pos])) + 1 && l.r.buf[l.r.pos-1] == old(l.r.buf[l.r.pos]) && l.r.pos - 1 > old(l.r.pos)
//@   ensures[F,C06] @string-unterminated: result == ErrorToken ==> l.r.pos == jsStrEnd(l.r.buf, old(l.r.pos)+1, old(l.r.buf[l.r.pos])) && l.r.buf[l.r.pos] != old(l.r.buf[l.r.pos])
//@   loop 1 invariant[F] delim == old(l.r.buf[l.r.pos]) && jsStrEnd(l.r.buf, l.r.pos, delim) == jsStrEnd(l.r.buf, old(l.r.pos)+1, delim)
//@   ensures[F,C15] @err-span: jlErr(l) && (l.err != old(l.err) ==> result == ErrorToken)
//@   loop * candidate[F] l.err == old(l.err)
//@   preserves[S] jlStep(l)
//@   ensures[F,C06] @str-kind: result == ErrorToken || result == StringToken
//@   requires[S] l.r.buf[l.r.pos] != 0
//@   ensures[S]  l.r.pos > old(l.r.pos)
//@   loop * candidate l.r.pos > old(l.r.pos)
//@   loop * decreases len(l.r.buf) - l.r.pos

// State of the regular-expression body scanner after the bytes s[lo:hi): 0 plain, 1 inside a character class,
// 2/3 the same right after a backslash (the next byte is escaped). '/' ends the literal only in state 0.
//@ fold reSt(s, k, acc) init 0 := ite(acc >= 2, acc - 2, ite(s[k] == '\\', acc + 2, ite(s[k] == '[', 1, ite(s[k] == ']', 0, acc))))
//@ pred reEnd(b, lo, j) := reSt(b, lo, j) == 0 && b[j] == '/'
//@ func Lexer.consumeRegExpToken
//@   preserves[S] jlStep(l)
//@   requires[S] l.r.buf[l.r.pos] != 0
//@   ensures[S]  l.r.pos > old(l.r.pos)
// the literal ends at the first '/' that is neither escaped nor inside a character class; flags follow
//@   ensures[F,C06] @regexp-end: result ==> exists(e, old(l.r.pos)+1, l.r.pos, reEnd(l.r.buf, old(l.r.pos)+1, e) && forall(j, old(l.r.pos)+1, e, !reEnd(l.r.buf, old(l.r.pos)+1, j)))
//@   loop 1 invariant[F] l.r.pos >= old(l.r.pos)+1 && reSt(l.r.buf, old(l.r.pos)+1, l.r.pos) == ite(inClass, 1, 0)
//@   loop 1 invariant[F] forall(j, old(l.r.pos)+1, l.r.pos, !reEnd(l.r.buf, old(l.r.pos)+1, j))
//@   loop 2 invariant[F] exists(e, old(l.r.pos)+1, l.r.pos, reEnd(l.r.buf, old(l.r.pos)+1, e) && forall(j, old(l.r.pos)+1, e, !reEnd(l.r.buf, old(l.r.pos)+1, j)))
//@   loop * candidate l.r.pos > old(l.r.pos)
//@   loop * decreases len(l.r.buf) - l.r.pos

// template characters from p: stops at the closing backquote, at "${", or at the end of input; a backslash takes the next
// byte (unless it is NUL) with it
//@ orbit tplEnd(s, p) stop s[p] == '`' || (s[p] == '$' && s[p+1] == '{') || p >= len(s)-1 next ite(s[p] == '\\', p + 1 + ite(s[p+1] != 0, 1, 0), p + 1)
//@ func Lexer.consumeTemplateToken
// the stack of open template substitutions: a literal that ends (with or without substitutions before it) pops the level
// Next pushed for it, a '${' keeps it and opens a brace level
//@   ensures[F,C06] @tpl-levels: ((result == TemplateToken || result == TemplateEndToken) ==> len(l.templateLevels) == old(len(l.templateLevels)) - 1 && l.level == old(l.level)) &&
//@        ((result == TemplateStartToken || result == TemplateMiddleToken) ==> len(l.templateLevels) == old(len(l.templateLevels)) && (smallInt(old(l.level)) ==> l.level == old(l.level) + 1))
//@   loop 1 invariant[F] len(l.templateLevels) == old(len(l.templateLevels)) && l.level == old(l.level)
//@   ensures[F,C06] @tpl-end: (result == TemplateToken || result == TemplateEndToken) ==> l.r.pos == tplEnd(l.r.buf, old(l.r.pos)+1) + 1 && l.r.buf[l.r.pos-1] == '`'
//@   ensures[F,C06] @tpl-subst: (result == TemplateStartToken || result == TemplateMiddleToken) ==> l.r.pos == tplEnd(l.r.buf, old(l.r.pos)+1) + 2 && l.r.buf[l.r.pos-2] == '$' && l.r.buf[l.r.pos-1] == '{'
//@   ensures[F,C06] @tpl-kind: (result == TemplateEndToken || result == TemplateMiddleToken) <==> (result != ErrorToken && old(l.r.buf[l.r.pos]) == '}')
//@   loop 1 invariant[F] tplEnd(l.r.buf, l.r.pos) == tplEnd(l.r.buf, old(l.r.pos)+1) && (continuation <==> old(l.r.buf[l.r.pos]) == '}')
//@   ensures[F,C15] @err-span: jlErr(l) && (l.err != old(l.err) ==> result == ErrorToken)
//@   loop * candidate[F] l.err == old(l.err)
//@   ensures[F,C06] @tpl-kind: result == ErrorToken || result == TemplateToken || result == TemplateStartToken || result == TemplateMiddleToken || result == TemplateEndToken
//@   preserves[S] jlStep(l)
//@   requires[S] l.r.buf[l.r.pos] != 0 && len(l.templateLevels) >= 1
//@   ensures[S]  l.r.pos > old(l.r.pos)
//@   loop * candidate l.r.pos > old(l.r.pos)
//@   loop * candidate len(l.templateLevels) == old(len(l.templateLevels))
//@   loop * decreases len(l.r.buf) - l.r.pos

//@ func Lexer.RegExp
//@   preserves[S] jlInv(l)
//@   ensures[F,C06] @regexp-kind: result0 == RegExpToken || (result0 == ErrorToken && result1 == nil)
//@   ensures[F,C06] @regexp-rewind: result0 == RegExpToken ==> len(result1) >= 2 && result1[0] == '/' && sameMem(result1, l.r.buf[l.r.pos - len(result1):l.r.pos]) &&
//@        (l.r.pos - len(result1) == old(l.r.pos) - 1 || (l.r.pos - len(result1) == old(l.r.pos) - 2 && old(l.r.buf[l.r.pos-1]) == '='))
// after a '/' or a '/=' token (wherever in the input, including its very start) the scan restarts at that '/'
//@   ensures[F,C06] @regexp-restart-div: old(l.r.pos) >= 1 && old(l.r.buf[l.r.pos-1]) == '/' ==> l.r.start == old(l.r.pos) - 1 || result0 == RegExpToken
//@   ensures[F,C06] @regexp-restart-diveq: old(l.r.pos) >= 2 && old(l.r.buf[l.r.pos-1]) == '=' && old(l.r.buf[l.r.pos-2]) == '/' ==> l.r.start == old(l.r.pos) - 2 || result0 == RegExpToken
//@   ensures[F,C06] @regexp-end: result0 == RegExpToken ==> exists(e, 1, len(result1), reEnd(result1, 1, e) && forall(j, 1, e, !reEnd(result1, 1, j)))

// spelled10(r, t): r and t are the same byte string of at most ten bytes (quantifier-free: the longest keyword has ten)
//@ pred sameAt(r, t, k) := k < len(t) ==> r[k] == t[k]
//@ pred spelled10(r, t) := len(r) == len(t) && len(t) <= 10 && sameAt(r, t, 0) && sameAt(r, t, 1) && sameAt(r, t, 2) && sameAt(r, t, 3) && sameAt(r, t, 4) && sameAt(r, t, 5) && sameAt(r, t, 6) && sameAt(r, t, 7) && sameAt(r, t, 8) && sameAt(r, t, 9)
//@ pred jsIllegal(c) := c == '#' || c == '@' || c == 0x7F || (1 <= c && c < 0x20 && c != '\t' && c != '\n' && c != '\v' && c != '\f' && c != '\r')
//@ pred punct1(tt) := tt == OpenBraceToken || tt == CloseBraceToken || tt == OpenParenToken || tt == CloseParenToken || tt == OpenBracketToken || tt == CloseBracketToken || tt == DotToken || tt == SemicolonToken || tt == CommaToken || tt == QuestionToken || tt == ColonToken
//@ pred punctByte(tt) := ite(tt == OpenBraceToken, '{', ite(tt == CloseBraceToken, '}', ite(tt == OpenParenToken, '(', ite(tt == CloseParenToken, ')', ite(tt == OpenBracketToken, '[', ite(tt == CloseBracketToken, ']', ite(tt == DotToken, '.', ite(tt == SemicolonToken, ';', ite(tt == CommaToken, ',', ite(tt == QuestionToken, '?', ':'))))))))))
//@ func Lexer.Next
// the "a line terminator came before this token" flag (it decides whether '-->' starts a comment): white space of any kind
// leaves it as it was, a line terminator sets it
//@   ensures[F,C06,local] @lt-flag-ws: result0 == WhitespaceToken ==> l.prevLineTerminator == old(l.prevLineTerminator)
//@   ensures[F,C06,local] @lt-flag-lt: result0 == LineTerminatorToken ==> l.prevLineTerminator
//@   preserves[S] jlInv(l) && l.r.pos >= old(l.r.pos) && l.r.start >= old(l.r.start)
//@   ensures[S,C01] @progress: l.r.pos + l.r.start > old(l.r.pos + l.r.start) || (result0 == ErrorToken && result1 == nil && l.r.pos == len(l.r.buf)-1)
//@   ensures[S,C01] @sticky: old(l.r.pos) == len(l.r.buf)-1 ==> result0 == ErrorToken && result1 == nil && l.r.pos == old(l.r.pos)
//@   loop * candidate l.r.pos > old(l.r.pos)
//@   loop * candidate l.r.start == old(l.r.start)
//@   loop * decreases len(l.r.buf) - l.r.pos
//@   requires[T] l.r.start == l.r.pos
//@   ensures[T,C02] @tile: result0 != ErrorToken ==> sameMem(result1, l.r.buf[old(l.r.pos):l.r.pos]) && cap(result1) == len(result1) && len(result1) > 0 && l.r.start == l.r.pos
//@   ensures[T,C02] @errtok: result0 == ErrorToken && result1 != nil ==> sameMem(result1, l.r.buf[old(l.r.pos):l.r.pos]) && cap(result1) == len(result1) && l.r.start == l.r.pos
//@   ensures[T,C02] @frame: sameBytesExcept(0, 0)
//@   ensures[F,C06,perpath] @op-canonical: OperatorToken < result0 && result0 <= OptChainToken ==> len(result1) == len(operatorBytes[result0 - OperatorToken]) && forall(k, 0, len(result1), result1[k] == operatorBytes[result0 - OperatorToken][k])
//@   ensures[F,C06] @punct-canonical: punct1(result0) ==> len(result1) == 1 && result1[0] == punctByte(result0)
//@   ensures[F,C06] @arrow-canonical: result0 == ArrowToken ==> len(result1) == 2 && result1[0] == '=' && result1[1] == '>'
//@   ensures[F,C06] @ellipsis-canonical: result0 == EllipsisToken ==> len(result1) == 3 && result1[0] == '.' && result1[1] == '.' && result1[2] == '.'
//@   ensures[F,C06] @optchain-digit: result0 == OptChainToken ==> !isDig(l.r.buf[l.r.pos])
//@   ensures[F,C06] @comment-lt: result0 == CommentLineTerminatorToken ==> exists(k, 0, len(result1), isLTat(result1, k))
//@   ensures[F,C06] @comment-nolt: result0 == CommentToken && len(result1) >= 2 && result1[0] == '/' && result1[1] == '*' ==> forall(k, 0, len(result1), !isLTat(result1, k))
//@   ensures[F,C06,perpath] @keyword-canonical: ReservedToken < result0 && result0 <= WithToken ==> spelled10(result1, reservedWordBytes[result0 - ReservedToken])
//@   ensures[F,C06,perpath] @ctxkeyword-canonical: IdentifierToken < result0 && result0 <= TargetToken ==> spelled10(result1, identifierBytes[result0 - IdentifierToken])
//@   ensures[F,C06] @tokentype-range: result0 <= PrivateIdentifierToken || (NumericToken < result0 && result0 <= IntegerToken) || (PunctuatorToken < result0 && result0 <= EllipsisToken) || (OperatorToken < result0 && result0 <= OptChainToken) || (ReservedToken < result0 && result0 <= WithToken) || (IdentifierToken <= result0 && result0 <= TargetToken)
//@   ensures[F,C15] @err-in-span: l.err != nil ==> result0 == ErrorToken && old(l.r.pos) <= errOff(l.err) && errOff(l.err) <= l.r.pos
// a character that cannot start any token ('#' not followed by an identifier, '@', DEL, control characters) is reported at exactly that character
// a '#' begins a private name exactly when the identifier scanner accepts what follows it (any identifier: ASCII, Unicode
// letters, \u escapes), and is an illegal character otherwise
//@   ensures[F,C06,perpath] @private-name: old(l.r.buf[l.r.pos]) == '#' ==> (result0 == PrivateIdentifierToken <==> jsIdAt(ptr(l.r.buf) + old(l.r.pos) + 1) == 1)
//@   ensures[F,C15,perpath] @err-at-char: result0 == ErrorToken && l.err != nil && jsIllegal(old(l.r.buf[l.r.pos])) ==> errOff(l.err) == old(l.r.pos)
//@   ensures[F,C06] @tokentype-closed: result0 != PunctuatorToken && result0 != OperatorToken && result0 != NumericToken && result0 != RegExpToken

//@ func Lexer.Err
//@   requires[S] l != nil && l.r != nil && bufInv(l.r)
//@ func NewLexer
//@   ensures[S]  result != nil && result.r == r && len(result.templateLevels) == 0

// ---- C18: the child relation of the tree
// Scope tables reference nodes that are not part of the tree.
//@ walk exclude Scope Var.Link
// ClassElement is a tagged union: exactly the first alternative that is set belongs to the tree.
//@ walk union ClassElement: StaticBlock | Method | Field
//@ walk inline ClassElement
// ClassElementName is either a private name or a property name.
//@ walk union ClassElementName: Private | PropertyName

// ---- C01: recursion depth of the parser (the argument is in engine/vc/depth.go).
// Depth guards increment a nesting counter on entry, stop when it exceeds its limit and make every call that can lead
// back to them while the increment is in force and only if the incremented counter passed the limit test (atcalls). No parser function returns with a counter below its value at
// entry (levels), so between two guard activations on the stack the distance to the limit has shrunk.
//@ pred jpLevels(p) := p.exprLevel >= old(p.exprLevel) && p.stmtLevel >= old(p.stmtLevel)
//@ func Parser.parseAnyClass
//@   ensures[F,depth] @levels: jpLevels(p)
//@   loop * invariant[F,depth] jpLevels(p)
//@ func Parser.parseArguments
//@   ensures[F,depth] @levels: jpLevels(p)
//@   loop * invariant[F,depth] jpLevels(p)
//@ func Parser.parseArrayLiteral
//@   ensures[F,depth] @levels: jpLevels(p)
//@   loop * invariant[F,depth] jpLevels(p)
//@ func Parser.parseArrowFuncBody
//@   ensures[F,depth] @levels: jpLevels(p)
//@   loop * invariant[F,depth] jpLevels(p)
//@ func Parser.parseAssignExprOrParam
//@   ensures[F,depth] @levels: jpLevels(p)
//@   loop * invariant[F,depth] jpLevels(p)
//@ func Parser.parseAsyncArrowFunc
//@   ensures[F,depth] @levels: jpLevels(p)
//@   loop * invariant[F,depth] jpLevels(p)
//@ func Parser.parseAsyncExpression
//@   arith math
//@   depthguard p.exprLevel NestedExprLimit
//@   atcalls[F,depth] @guarded: p.exprLevel >= old(p.exprLevel) + 1 && old(p.exprLevel) + 1 <= NestedExprLimit
//@   ensures[F,depth] @levels: jpLevels(p)
//@   loop * invariant[F,depth] p.exprLevel >= old(p.exprLevel) + 1 && p.stmtLevel >= old(p.stmtLevel)
//@ func Parser.parseAsyncFuncDecl
//@   ensures[F,depth] @levels: jpLevels(p)
//@   loop * invariant[F,depth] jpLevels(p)
//@ func Parser.parseAsyncFuncExpr
//@   ensures[F,depth] @levels: jpLevels(p)
//@   loop * invariant[F,depth] jpLevels(p)
//@ func Parser.parseBinding
//@   arith math
//@   depthguard p.exprLevel NestedExprLimit
//@   atcalls[F,depth] @guarded: p.exprLevel >= old(p.exprLevel) + 1 && old(p.exprLevel) + 1 <= NestedExprLimit
//@   ensures[F,depth] @levels: jpLevels(p)
//@   loop * invariant[F,depth] p.exprLevel >= old(p.exprLevel) + 1 && p.stmtLevel >= old(p.stmtLevel)
//@ func Parser.parseBindingElement
//@   ensures[F,depth] @levels: jpLevels(p)
//@   loop * invariant[F,depth] jpLevels(p)
//@ func Parser.parseBlockStmt
//@   ensures[F,depth] @levels: jpLevels(p)
//@   loop * invariant[F,depth] jpLevels(p)
//@ func Parser.parseClassDecl
//@   ensures[F,depth] @levels: jpLevels(p)
//@   loop * invariant[F,depth] jpLevels(p)
//@ func Parser.parseClassElement
//@   ensures[F,depth] @levels: jpLevels(p)
//@   loop * invariant[F,depth] jpLevels(p)
//@ func Parser.parseClassExpr
//@   ensures[F,depth] @levels: jpLevels(p)
//@   loop * invariant[F,depth] jpLevels(p)
//@ func Parser.parseExportStmt
//@   ensures[F,depth] @levels: jpLevels(p)
//@   loop * invariant[F,depth] jpLevels(p)
//@ func Parser.parseExpression
//@   arith math
//@   depthguard p.exprLevel NestedExprLimit
//@   atcalls[F,depth] @guarded: p.exprLevel >= old(p.exprLevel) + 1 && old(p.exprLevel) + 1 <= NestedExprLimit
//@   ensures[F,depth] @levels: jpLevels(p)
//@   loop * invariant[F,depth] p.exprLevel >= old(p.exprLevel) + 1 && p.stmtLevel >= old(p.stmtLevel)
//@ func Parser.parseExpressionSuffix
//@   ensures[F,depth] @levels: jpLevels(p)
//@   loop * invariant[F,depth] jpLevels(p)
//@ func Parser.parseFunc
//@   ensures[F,depth] @levels: jpLevels(p)
//@   loop * invariant[F,depth] jpLevels(p)
//@ func Parser.parseFuncDecl
//@   ensures[F,depth] @levels: jpLevels(p)
//@   loop * invariant[F,depth] jpLevels(p)
//@ func Parser.parseFuncExpr
//@   ensures[F,depth] @levels: jpLevels(p)
//@   loop * invariant[F,depth] jpLevels(p)
//@ func Parser.parseFuncParams
//@   ensures[F,depth] @levels: jpLevels(p)
//@   loop * invariant[F,depth] jpLevels(p)
//@ func Parser.parseIdentifierArrowFunc
//@   ensures[F,depth] @levels: jpLevels(p)
//@   loop * invariant[F,depth] jpLevels(p)
//@ func Parser.parseIdentifierExpression
//@   ensures[F,depth] @levels: jpLevels(p)
//@   loop * invariant[F,depth] jpLevels(p)
//@ func Parser.parseImportStmt
//@   ensures[F,depth] @levels: jpLevels(p)
//@   loop * invariant[F,depth] jpLevels(p)
//@ func Parser.parseModule
//@   arith math
//@   ensures[F,depth] @levels: jpLevels(p)
//@   loop * invariant[F,depth] jpLevels(p)
//@ func Parser.parseObjectLiteral
//@   ensures[F,depth] @levels: jpLevels(p)
//@   loop * invariant[F,depth] jpLevels(p)
//@ func Parser.parseParenthesizedExpression
//@   ensures[F,depth] @levels: jpLevels(p)
//@   loop * invariant[F,depth] jpLevels(p)
//@ func Parser.parsePropertyName
//@   ensures[F,depth] @levels: jpLevels(p)
//@   loop * invariant[F,depth] jpLevels(p)
//@ func Parser.parseStmt
//@   arith math
//@   depthguard p.stmtLevel NestedStmtLimit
//@   atcalls[F,depth] @guarded: p.stmtLevel >= old(p.stmtLevel) + 1 && old(p.stmtLevel) + 1 <= NestedStmtLimit
//@   ensures[F,depth] @levels: jpLevels(p)
//@   loop * invariant[F,depth] p.stmtLevel >= old(p.stmtLevel) + 1 && p.exprLevel >= old(p.exprLevel)
//@ func Parser.parseStmtList
//@   ensures[F,depth] @levels: jpLevels(p)
//@   loop * invariant[F,depth] jpLevels(p)
//@ func Parser.parseTemplateLiteral
//@   ensures[F,depth] @levels: jpLevels(p)
//@   loop * invariant[F,depth] jpLevels(p)
//@ func Parser.parseVarDecl
//@   ensures[F,depth] @levels: jpLevels(p)
//@   loop * invariant[F,depth] jpLevels(p)

// Property.JSON: a property without a name (a method definition) or with a spread/initialiser is not JSON; everything it
// dereferences afterwards must be covered by that test. The writer and the property's value are assumed present (the parser
// sets Value for every property it builds).
//@ func Property.JSON
//@   requires[S] w != nil && n.Value != nil
//@ func LiteralExpr.JSON
//@   requires[S] w != nil
//@ func ArrayExpr.JSON
//@   requires[S] w != nil

// js.Parse reports a syntax error at the first byte of the token the parser stopped at: the cursor minus that token's length
//@ func Parse
//@   callsite parse.NewError[F,C15] @token-start: arg1 == p.l.r.pos - len(p.data)

//go:build verif

// Contracts for package parse (tdewolff/parse/v2), read by /verif/engine (vcgo).
// This file contains comments only; it is never compiled into the library.
package parse

//@ pred bufInv(z) := z != nil && len(z.buf) >= 1 && z.buf[len(z.buf)-1] == 0 &&
//@     0 <= z.start && z.start <= len(z.buf)-1 && 0 <= z.pos && z.pos <= len(z.buf)-1 &&
//@     (z.err != nil ==> len(z.buf) == 1)
//@ pred smallInt(x) := -(1<<60) <= x && x <= (1<<60)
//@ pred inputInv(z) := bufInv(z) && z.start <= z.pos

//@ func Input.Err
//@   requires[S] bufInv(z)
//@   ensures[S]  (result != nil) <==> (z.err != nil || z.pos >= len(z.buf)-1)
//@   ensures[F]  z.err != nil ==> result == z.err
//@   ensures[F]  z.err == nil && z.pos >= len(z.buf)-1 ==> result == io.EOF

//@ func Input.PeekErr
//@   requires[S] bufInv(z) && smallInt(pos)
//@   ensures[S]  (result != nil) <==> (z.err != nil || z.pos+pos >= len(z.buf)-1)
//@   ensures[F]  z.err != nil ==> result == z.err
//@   ensures[F]  z.err == nil && z.pos+pos >= len(z.buf)-1 ==> result == io.EOF

//@ func Input.Peek
//@   requires[S] bufInv(z) && 0 <= z.pos+pos && z.pos+pos <= len(z.buf)-1
//@   ensures[S]  result == z.buf[z.pos+pos]

//@ func Input.Move
//@   requires[S] bufInv(z) && 0 <= z.pos+n && z.pos+n <= len(z.buf)-1
//@   ensures[S]  z.pos == old(z.pos)+n

// lsep(c, b1, b2, b3, n): the n-byte sequence decodes (as PeekRune decodes, without validating continuation bytes) to
// U+2028 or U+2029; for valid UTF-8 that is exactly E2 80 A8 / E2 80 A9
//@ pred lsep(c, b1, b2, b3, n) := (n == 3 && c % 16 == 2 && b1 % 64 == 0 && (b2 % 64 == 40 || b2 % 64 == 41)) || (n == 4 && c % 8 == 0 && b1 % 64 == 2 && b2 % 64 == 0 && (b3 % 64 == 40 || b3 % 64 == 41))
//@ pred runeLen(c, rem) := ite(c < 0xC0 || rem < 2, 1, ite(c < 0xE0 || rem < 3, 2, ite(c < 0xF0 || rem < 4, 3, 4)))
//@ func Input.PeekRune
//@   requires[S] bufInv(z) && 0 <= pos && z.pos+pos <= len(z.buf)-1
//@   ensures[S]  1 <= result1 && result1 <= 4
//@   ensures[S]  z.pos+pos < len(z.buf)-1 ==> z.pos+pos+result1 <= len(z.buf)-1
//@   ensures[F,C15] @len: result1 == runeLen(z.buf[z.pos+pos], len(z.buf)-1-z.pos-pos)
//@   ensures[F,C15] @lsep: (result0 == 0x2028 || result0 == 0x2029) <==> lsep(z.buf[z.pos+pos], z.buf[z.pos+pos+1], z.buf[z.pos+pos+2], z.buf[z.pos+pos+3], result1)

// the value is the UTF-8 decoding of the bytes it covers (payload bits of the lead byte, then six bits per continuation byte)
//@   ensures[F,C12] @value1: result1 == 1 ==> result0 == z.buf[z.pos+pos]
//@   ensures[F,C12] @value2: result1 == 2 ==> result0 == (z.buf[z.pos+pos] % 32) * 64 + z.buf[z.pos+pos+1] % 64
//@   ensures[F,C12] @value3: result1 == 3 ==> result0 == (z.buf[z.pos+pos] % 16) * 4096 + (z.buf[z.pos+pos+1] % 64) * 64 + z.buf[z.pos+pos+2] % 64
//@   ensures[F,C12] @value4: result1 == 4 ==> result0 == (z.buf[z.pos+pos] % 8) * 262144 + (z.buf[z.pos+pos+1] % 64) * 4096 + (z.buf[z.pos+pos+2] % 64) * 64 + z.buf[z.pos+pos+3] % 64
// Restore gives the borrowed byte back once: afterwards the Input holds no way to write the caller's memory again
//@ func Input.Restore
//@   requires[S] z != nil
//@   ensures[F,C12] @once: z.restore == nil

//@ func Input.MoveRune
//@   requires[S] bufInv(z)
//@   requires[S] z.pos < len(z.buf)-1
//@   ensures[S]  old(z.pos) < z.pos && z.pos <= old(z.pos)+4 && z.pos <= len(z.buf)-1

//@ func Input.Pos
// (no buffer invariant needed: Pos is also called after Restore has given the terminator byte back)
//@   requires[S] z != nil
//@   ensures[S]  0 <= z.start && 0 <= z.pos ==> result == z.pos - z.start

//@ func Input.Rewind
//@   requires[S] bufInv(z) && 0 <= z.start+pos && z.start+pos <= len(z.buf)-1
//@   ensures[S]  z.pos == z.start+pos

//@ func Input.Lexeme
//@   requires[S] inputInv(z)
//@   ensures[S]  sameMem(result, z.buf[z.start:z.pos]) && cap(result) == len(result)

//@ func Input.Skip
//@   requires[S] z != nil
//@   ensures[S]  z.start == z.pos

//@ func Input.Shift
//@   requires[S] inputInv(z)
//@   ensures[S]  sameMem(result, z.buf[old(z.start):z.pos]) && cap(result) == len(result)
//@   ensures[S]  z.start == z.pos

//@ func Input.Offset
//@   requires[S] z != nil
//@   ensures[S]  result == z.pos

//@ func Input.Bytes
//@   requires[S] bufInv(z)
//@   ensures[S]  sameMem(result, z.buf[0:len(z.buf)-1]) && cap(result) == len(result)

//@ func Input.Len
//@   requires[S] bufInv(z)
//@   ensures[S]  result == len(z.buf)-1

//@ func Input.Reset
//@   requires[S] z != nil
//@   ensures[S]  z.start == 0 && z.pos == 0

// ---- constructors
//@ func NewInputBytes
//@   ensures[S]  result != nil && bufInv(result) && result.pos == 0 && result.start == 0
//@   ensures[F]  result.err == nil && len(result.buf) == len(b)+1
//@   ensures[F]  forall(i, 0, len(b), result.buf[i] == old(b[i]))
//@   ensures[F,C12] @frame: sameBytesExcept(ptr(b)+len(b), ptr(b)+len(b)+1)
//@   ensures[F,C12] @borrow: len(b) == 0 || cap(b) == len(b) ==> sameBytesExcept(0, 0)
// a byte of the caller's memory is overwritten only if a restore function is installed to put it back
//@   ensures[F,C12] @restorable: result.restore == nil ==> sameBytesExcept(0, 0)

//@ func NewInputString
//@   ensures[S]  result != nil && bufInv(result) && result.pos == 0 && result.start == 0
//@   ensures[F]  result.err == nil && len(result.buf) == len(s)+1
//@   ensures[F]  sameBytesExcept(0, 0)

// utf8(r) == 1: the data behind reader r is well-formed UTF-8 (a ghost attribute of the reader). NewInput's clause that
// the buffer it builds from r is then well-formed is assumed (it depends on io.ReadAll / the reader's Bytes method).
//@ ghost utf8(r)
//@ pred isCont(c) := 0x80 <= c && c <= 0xBF
// wfU8(b): the text in b (NUL-terminated) never starts with a continuation byte, every byte >= 0xC0 is at most 0xF4 and followed inside
// the text by the continuation bytes its length announces, and F0 is not followed by an overlong second byte
//@ pred wfU8(b) := (len(b) > 1 ==> !isCont(b[0])) && forall(k, 0, len(b)-1, b[k] >= 0xC0 ==> b[k] <= 0xF4 && k + runeLen(b[k], 4) <= len(b)-1 && isCont(b[k+1]) && (b[k] >= 0xE0 ==> isCont(b[k+2])) && (b[k] >= 0xF0 ==> isCont(b[k+3])) && (b[k] == 0xF0 ==> b[k+1] >= 0x90))
//@ func NewInput
//@   assumefacet F
//@   ensures[S]  result != nil && bufInv(result) && result.pos == 0 && result.start == 0
//@   ensures[F]  @utf8: utf8(r) == 1 ==> wfU8(result.buf)

// ---- positions (C15)
// lbEnds(s, lo, hi): number of line breaks (\n, \r not followed by \n, \r\n, U+2028, U+2029) whose last byte lies in s[lo:hi)
//@ fold lbEnds(s, k, acc) init 0 := acc + ite(s[k] == '\n' || (s[k] == '\r' && s[k+1] != '\n') || ((s[k] == 0xA8 || s[k] == 0xA9) && s[k-1] == 0x80 && s[k-2] == 0xE2), 1, 0)
// the cursor stands after a complete character: none of the three bytes before it opens a longer sequence
//@ pred atCharEnd(b, p) := (p >= 1 ==> b[p-1] < 0xC0) && (p >= 2 ==> b[p-2] < 0xE0) && (p >= 3 ==> b[p-3] < 0xF0) && (p >= 1 && b[p-1] == '\r' ==> b[p] != '\n')
//@ ghost posLine(r, off)
//@ ghost posCol(r, off)
//@ func Position
//@   requires[S] smallInt(offset)
//@   ensures[S]  line >= 1
// posLine/posCol name the values Position returns for (reader, offset); NewError's clause says the error carries them
//@   ensures[F,ghost] @def: line == posLine(r, offset) && col == posCol(r, offset)
//@   loop 1 invariant l != nil && bufInv(l) && l.start <= l.pos && line >= 1 && smallInt(offset) && line <= l.pos + 1 && offset + l.start == old(offset)
//@   loop 1 invariant[F] utf8(old(r)) == 1 ==> wfU8(l.buf)
// for well-formed UTF-8: the line number is one more than the number of breaks that end at or before the cursor, and the
// cursor never passes the offset and never stops inside a character
//@   loop 1 invariant[F,C15] wfU8(l.buf) ==> line == 1 + lbEnds(l.buf, 0, l.pos)
//@   loop 1 invariant[F,C15] wfU8(l.buf) ==> atCharEnd(l.buf, l.pos)
//@   loop 1 invariant[F,C15] l.pos <= max(old(offset), 0)
//@   loop 1 invariant[F,C15] wfU8(l.buf) ==> lbEnds(l.buf, 0, l.start) == lbEnds(l.buf, 0, l.pos) || l.start == l.pos

//@ func positionContext
// non-printable characters are the ones unicode.IsGraphic rejects (categories L, M, N, P, S, Zs only): that test is the one applied
//@   callsite unicode.IsGraphic[F,C15] @printable-test: true
//@   requires[S] l != nil && bufInv(l) && l.start <= l.pos
//@   requires[F] @line: wfU8(l.buf) ==> line == 1 + lbEnds(l.buf, 0, l.pos)
//@   loop 1 invariant bufInv(l) && l.start <= l.pos
// the context is the rest of the line: the scan stops only at a line break or at the end of the input (a NUL inside the
// text is part of the line and is rendered as a middle dot)
//@   ensures[F,C15,local] @rest-of-line: forall(k, old(l.pos), l.pos, l.buf[k] != '\n' && l.buf[k] != '\r') &&
//@        (l.buf[l.pos] == '\n' || l.buf[l.pos] == '\r' || l.pos == len(l.buf)-1 || l.err != nil)
//@   loop 1 invariant[F] forall(k, old(l.pos), l.pos, l.buf[k] != '\n' && l.buf[k] != '\r') && l.pos >= old(l.pos)
//@   loop 2 invariant rangeindex >= -1 && rangeindex < len(rs)

// ---- errors
// rlen(r): number of bytes behind a reader built over a byte slice (ghost; defined by the constructors' clauses)
//@ ghost rlen(r)
//@ ghost errOff(e)
//@ extern bytes.NewBuffer
//@   pure
//@   ensures[S] result != nil
//@   ensures[F,ghost] rlen(result) == len(arg0)
//@ func NewError
//@   requires[S] smallInt(offset)
// the offending byte lies inside the input (or is its end)
//@   requires[F,C15] @inside: 0 <= offset && offset <= rlen(r)
//@   ensures[S]  result != nil
//@   ensures[F,C15] @carries: result.Line == posLine(r, offset) && result.Column == posCol(r, offset) && result.Line >= 1
// NewErrorLexer renders the position of the cursor. It reads l through l.Bytes(), whose capacity is clipped,
// so the private Input built by Position copies the bytes instead of borrowing a terminator slot.
//@ func NewErrorLexer
// the position is computed over the whole input (the context is a whole line of it) at the cursor
//@   callsite parse.NewError[F,C15] @whole-input: rlen(arg0) == len(l.buf) - 1 && arg1 == l.pos
//@   trusted
//@   verifybody F
//@   pure
//@   ensures[F,C15] @at-cursor: result != nil && result.Line >= 1
// errOff(e): the offset an error created by NewErrorLexer was reported for (ghost, defined here: the cursor)
//@   ensures[F,ghost] @off: errOff(result) == l.pos
//@   requires[S] bufInv(l)
//@   ensures[S]  result != nil && sameBytes()

// ---- util.go helpers (C16)
//@ pred lowerOf(c) := ite('A' <= c && c <= 'Z', c + 32, c)
//@ pred isWS(c) := c == ' ' || c == '\t' || c == '\n' || c == '\r' || c == '\f'

//@ func Copy
//@   ensures[S]  len(dst) == len(src) && cap(dst) == len(src) && fresh(dst) && sameBytesExcept(0, 0)
//@   ensures[F,C16]  forall(i, 0, len(src), dst[i] == old(src[i]))

//@ func ToLower
//@   ensures[S]  sameSlice(result, src) && sameBytesExcept(ptr(src), ptr(src)+len(src))
//@   ensures[S,C16]  forall(i, 0, len(src), src[i] == lowerOf(old(src[i])))
//@   loop 1 invariant -1 <= rangeindex && rangeindex < len(src) && sameBytesExcept(ptr(src), ptr(src)+len(src))
//@   loop 1 invariant forall(j, 0, rangeindex+1, src[j] == lowerOf(old(src[j]))) && forall(j, rangeindex+1, len(src), src[j] == old(src[j]))
//@   loop 1 decreases len(src) - rangeindex

//@ func EqualFold
//@   ensures[F,C16]  result ==> len(s) == len(targetLower) && forall(i, 0, len(s), s[i] == targetLower[i] || ('A' <= s[i] && s[i] <= 'Z' && s[i] + 32 == targetLower[i]))
//@   ensures[F,C16]  !result ==> len(s) != len(targetLower) || exists(i, 0, len(s), !(s[i] == targetLower[i] || ('A' <= s[i] && s[i] <= 'Z' && s[i] + 32 == targetLower[i])))
//@   loop 1 invariant -1 <= rangeindex && rangeindex < len(targetLower) && len(s) == len(targetLower)
//@   loop 1 invariant[F] forall(j, 0, rangeindex+1, s[j] == targetLower[j] || ('A' <= s[j] && s[j] <= 'Z' && s[j] + 32 == targetLower[j]))
//@   loop 1 decreases len(targetLower) - rangeindex

//@ func IsWhitespace
//@   ensures[F,C16]  result <==> isWS(c)

//@ func IsNewline
//@   ensures[F,C16]  result <==> (c == '\n' || c == '\r')

// ---- Number / Dimension (C16): the longest prefix matching
//      (+|-)?([0-9]+(\.[0-9]+)?|\.[0-9]+)((e|E)(+|-)?[0-9]+)?   in closed form over digit-run ends.
//@ pred isDigit(c) := '0' <= c && c <= '9'
//@ pred isAlphaC(c) := ('a' <= c && c <= 'z') || ('A' <= c && c <= 'Z')
//@ pred sgnLen(b) := ite(len(b) > 0 && (b[0] == '+' || b[0] == '-'), 1, 0)
//@ pred nD1(b) := digitEnd(b, sgnLen(b))
//@ pred nHasInt(b) := nD1(b) > sgnLen(b)
//@ pred nHasFrac(b) := nD1(b)+1 < len(b) && b[nD1(b)] == '.' && isDigit(b[nD1(b)+1])
//@ pred nM(b) := ite(nHasFrac(b), digitEnd(b, nD1(b)+1), ite(nHasInt(b), nD1(b), 0))
//@ pred nT(b) := nM(b) + 1 + ite(nM(b)+1 < len(b) && (b[nM(b)+1] == '+' || b[nM(b)+1] == '-'), 1, 0)
//@ pred nHasExp(b) := nM(b) < len(b) && (b[nM(b)] == 'e' || b[nM(b)] == 'E') && nT(b) < len(b) && isDigit(b[nT(b)])
//@ pred numberEnd(b) := ite(len(b) == 0 || sgnLen(b) >= len(b) || nM(b) == 0, 0, ite(nHasExp(b), digitEnd(b, nT(b)), nM(b)))

//@ func Number
//@   ensures[S]  0 <= result && result <= len(b)
//@   ensures[F,C16] @longest-prefix: result == numberEnd(b)
//@   loop * invariant 0 <= i && i <= len(b)
//@   loop 1 invariant[F] firstDigit && sgnLen(b) < i && forall(k, sgnLen(b), i, isDigit(b[k]))
//@   loop 2 invariant[F] nD1(b) + 1 < i && nD1(b) < len(b) && b[nD1(b)] == '.' && forall(k, nD1(b)+1, i, isDigit(b[k])) && (firstDigit <==> nHasInt(b))
//@   loop 3 invariant[F] iOld == nM(b) && 0 < nM(b) && iOld < len(b) && (b[iOld] == 'e' || b[iOld] == 'E') && nT(b) <= i && nT(b) < len(b) && isDigit(b[nT(b)]) && forall(k, nT(b), i, isDigit(b[k]))
//@   loop * decreases len(b) - i

//@ func Dimension
//@   ensures[S]  0 <= result0 && 0 <= result1 && result0 + result1 <= len(b)
//@   ensures[F,C16] @number: result0 == numberEnd(b)
//@   ensures[F,C16] @unit: result1 == ite(result0 == 0 || result0 == len(b), 0, ite(b[result0] == '%', 1, alphaEnd(b, result0) - result0))
//@   loop 1 invariant num < i && i <= len(b) && 0 < num
//@   loop 1 invariant[F] forall(k, num, i, isAlphaC(b[k]))
//@   loop 1 decreases len(b) - i

// ---- remaining helpers of common.go / util.go: memory safety for every argument (S), definitions where stated (F)
//@ func IsAllWhitespace
//@   ensures[F,C16] result <==> forall(k, 0, len(b), isWS(b[k]))
//@   loop 1 invariant -1 <= rangeindex && rangeindex < len(b)
//@   loop 1 invariant[F] forall(k, 0, rangeindex+1, isWS(b[k]))
//@   loop 1 decreases len(b) - rangeindex

//@ func TrimWhitespace
//@   ensures[S]  within(result, b) || len(result) == 0
//@   ensures[F,C16] @trim: len(result) == 0 || (!isWS(result[0]) && !isWS(result[len(result)-1]))
//@   ensures[F,C16] @only-ws-dropped: forall(k, 0, len(b), (ptr(b)+k < ptr(result) || ptr(b)+k >= ptr(result)+len(result)) ==> isWS(b[k]))
//@   loop * candidate 0 <= i && i <= n
//@   loop * candidate -1 <= i && i < n
//@   loop * candidate 0 <= start && start <= n
//@   loop * candidate n == len(b)
//@   loop * candidate[F] forall(k, 0, i, isWS(b[k]))
//@   loop * candidate[F] forall(k, i+1, n, isWS(b[k]))
//@   loop * candidate[F] forall(k, 0, start, isWS(b[k]))
//@   loop * candidate[F] start == n || !isWS(b[start])
//@   loop 1 decreases n - i
//@   loop 2 decreases i + 1

//@ func Mediatype
//@   ensures[S]  true
// the scan ends at the end of the input or at a byte that can start neither a parameter separator nor padding: after the
// media type and after every parameter, spaces are skipped and a ';' continues with the next parameter
//@   ensures[F,C16,perpath,local] @all-parameters: i#2 >= n || (b#1[i#2] != ' ' && b#1[i#2] != ';')
//@   loop * candidate 0 <= i
//@   loop * candidate i <= len(b)
//@   loop * candidate i <= n
//@   loop * candidate i < n
//@   loop * candidate n == len(b)
//@   loop * candidate n == len(s)
//@   loop * candidate 0 <= start && start <= i
//@   loop * candidate 3 <= i

//@ func QuoteEntity
//@   ensures[S]  0 <= n && n <= len(b)
//@   loop * candidate 2 <= i && i <= len(b)

//@ func EncodeURL
//@   ensures[S]  len(result) >= len(b)
// DecodeURL gives '%' and '+' a meaning of their own, so the URL table must escape both; a data URI is decoded by percent
// escapes only, so its table must escape '%'
//@   ensures[F,C16] @tables-invertible: old(URLEncodingTable['%'] && URLEncodingTable['+'] && DataURIEncodingTable['%'])
//@   loop * candidate 0 <= i && i <= len(b)
//@   loop * candidate len(b) >= len(old(b))

//@ func DecodeURL
//@   ensures[S]  len(result) <= len(b)
//@   ensures[F,C16] @frame: sameBytesExcept(ptr(b), ptr(b) + len(b))
// form encoding: without percent escapes the result is the argument with every '+' turned into a space
//@   ensures[F,C16] @plus-is-space: old(forall(k, 0, len(b), b[k] != '%')) ==> sameSlice(result, old(b)) && forall(k, 0, len(result), result[k] == ite(old(b[k]) == '+', ' ', old(b[k])))

// the scanner behind DecodeURL (form encoding: '+' is a space) and DataURI (percent escapes only)
//@ func decodeURL
//@   ensures[S]  len(result) <= len(b)
// decodes in place: nothing outside the argument's bytes is written
//@   ensures[F,C16] @frame: sameBytesExcept(ptr(b), ptr(b) + len(b))
//@   loop * invariant[F] sameBytesExcept(ptr(old(b)), ptr(old(b)) + len(old(b))) && ptr(b) == ptr(old(b)) && len(b) <= len(old(b))
// the plus sign: without percent escapes in the argument the result is the argument itself, byte for byte, except that a '+'
// becomes a space when (and only when) form encoding was asked for; with plusIsSpace unset nothing at all is written
//@   ensures[F,C16] @plus: old(forall(k, 0, len(b), b[k] != '%')) ==> sameSlice(result, old(b)) && forall(k, 0, len(result), result[k] == ite(plusIsSpace && old(b[k]) == '+', ' ', old(b[k]))) && (!plusIsSpace ==> sameBytes())
//@   loop * invariant[F] old(forall(k, 0, len(b), b[k] != '%')) ==> sameSlice(b, old(b)) && forall(k, 0, i, b[k] == ite(plusIsSpace && old(b[k]) == '+', ' ', old(b[k]))) && forall(k, i, len(b), b[k] == old(b[k])) && (!plusIsSpace ==> sameBytes())
//@   loop * candidate 0 <= i && i <= len(b)
//@   loop * candidate len(b) <= old(len(b))
//@   loop * candidate i < j && j <= i + 3
//@   loop * candidate i + 2 < len(b)

//@ func AppendEscape
//@   ensures[S]  len(result) >= len(b)
//@   loop * candidate 0 <= i && i <= j
//@   loop * candidate len(b) >= len(old(b))
//@   loop * candidate 0 <= j && j <= len(str)
//@   loop * candidate -1 <= rangeindex && rangeindex < len(chars)

//@ func DataURI
//@   ensures[S]  true
// on success a media type is reported: the URI's own type/subtype, or text/plain when it has none (parameters only, or nothing)
//@   requires[F] @not-the-default: disjoint(dataURI, textMimeBytes)
//@   loop 1 invariant[F] @own-buffer: (cap(mediatype) == 0 || (disjoint(mediatype, dataURI) && fresh(mediatype))) && sameBytesExcept(0, 0)
//@   ensures[F,C16] @mediatype: result2 == nil ==> len(result0) > 0 && result0[0] != ';'
// the payload of a data URI that is not base64 is decoded with percent escapes only: a plus sign stays a plus sign (what the
// flag means is decodeURL's clause 'plus')
//@   callsite parse.decodeURL[F,C16] @percent-only: arg1 == false
//@   loop * candidate 0 <= i && i <= j
//@   loop * candidate 0 <= j && j <= len(dataURI)

// ---- assumed contracts of standard-library functions (trusted; listed in every evidence file that uses them)
// a successful Stat returns file information
//@ extern os.(*File).Stat
//@   ensures[S] result1 == nil ==> result0 != nil
// mmap(2): on success the mapping has the requested length
//@ extern syscall.Mmap
//@   ensures[S] err == nil ==> len(data) == length && cap(data) == length
//@ extern encoding/base64.(*Encoding).DecodedLen
//@   ensures[S] result >= 0
//@ extern encoding/base64.(*Encoding).Decode
//@   readonly #0 #2
//@   modifies M.uint8
//@   ensures[S] 0 <= n && n <= len(dst)
//@   ensures[S] @frame: sameBytesExcept(ptr(dst), ptr(dst) + len(dst))
// u8len(r): the documented definition of utf8.RuneLen (-1 for surrogates and values outside [0, U+10FFFF])
//@ pred u8len(r) := ite(r < 0, -1, ite(r < 128, 1, ite(r < 2048, 2, ite(55296 <= r && r <= 57343, -1, ite(r < 65536, 3, ite(r <= 1114111, 4, -1))))))
//@ pred u8enc(r) := ite(u8len(r) == -1, 3, u8len(r))
//@ extern unicode/utf8.RuneLen
//@   pure
//@   ensures[S] -1 <= result && result <= 4 && result != 0
//@   ensures[S] result == u8len(r) && (result == -1 || result == 1 || result == 2 || result == 3 || result == 4)
// EncodeRune panics when p is too short (it indexes p[n-1] first); an invalid rune is written as U+FFFD (3 bytes)
//@ extern unicode/utf8.EncodeRune
//@   modifies M.uint8
//@   requires[S] @room: len(p) >= u8enc(r)
//@   ensures[S] 1 <= result && result <= 4 && result == u8enc(r)
//@   ensures[S] @frame: sameBytesExcept(ptr(p), ptr(p) + result)
//@ extern unicode/utf8.DecodeRune
//@   ensures[S] 0 <= size && size <= 4 && size <= len(p) && (len(p) > 0 ==> size >= 1)
//@ extern unicode/utf8.DecodeLastRune
//@   ensures[S] 0 <= size && size <= 4 && size <= len(p) && (len(p) > 0 ==> size >= 1)
//@ extern unicode/utf8.DecodeRuneInString
//@   ensures[S] 0 <= size && size <= 4 && size <= len(s) && (len(s) > 0 ==> size >= 1)
//@ extern fmt.Sprintf
//@   ensures[S] len(format) > 0 && format[0] != '%' ==> len(result) > 0
//@ extern fmt.Errorf
//@   ensures[S] result != nil
//@ extern errors.New
//@   ensures[S] result != nil
//@ extern bytes.IndexByte
//@   ensures[S] -1 <= result && result < len(b)
// bytes.Replace returns a copy and leaves its arguments untouched (documented behaviour of package bytes)
//@ extern bytes.Replace
//@   pure
//@   ensures[S] true
//@ extern bytes.Equal
//@   pure
//@   ensures[S] result ==> len(a) == len(b)

// ---- whitespace / entity normalisation (C17): memory safety, in-place, never longer
//@ func ReplaceMultipleWhitespace
// when the only collapsed run is the leading one, its single byte is moved in front of the text that follows
//@   ensures[F,C17,perpath,local] @leading-run-moved: j == 1 ==> result[0] == b[0]
//@   ensures[S]  len(result) <= len(b) && (within(result, b) || len(result) == 0)
// every run of white space is rewritten to a single space, or to a newline if it contained a line break: after an iteration
// that started on a white-space byte, that byte holds ' ' or '\n' (whatever the run's length; compaction never writes there)
//@   loop 1 transition[F,C17] @run-normalised: isWS(prev(b[i])) ==> b[prev(i)] == ' ' || b[prev(i)] == '\n'
// the flag means 'the run scanned so far contains a line break' (anywhere in the run, \n or \r)
//@   loop 2 invariant[F] @newline-flag: newline <==> exists(q, start, i, b[q] == '\n' || b[q] == '\r')
//@   loop 2 invariant[F] start < i && i <= len(b)
//@   loop 2 invariant[F] @newline-kept: (b[start] == '\n' || b[start] == '\r') ==> newline
//@   loop 1 transition[F,C17] @run-newline: isWS(prev(b[i])) && (prev(b[i]) == '\n' || prev(b[i]) == '\r') ==> b[prev(i)] == '\n'
//@   loop * candidate 0 <= i && i <= len(b)
//@   loop * candidate 0 <= j && j <= k && k <= i
//@   loop * candidate 0 <= i && i <= len(b) + 1
//@   loop * candidate k <= len(b)
//@   loop * candidate j <= start + 1
//@   loop * candidate 0 <= start && start < i
//@   loop * candidate (j == 0) == (k == 0)
//@   loop * candidate j == 0 || (2 <= k && j < k)
//@   loop * candidate j != 1 || 2 <= k
//@   loop 1 decreases len(b) - i
//@   loop 2 decreases len(b) - i

//@ extern strconv.AppendInt
//@   modifies M.uint8
//@   ensures[S] @frame: sameBytesExcept(ptr(dst), ptr(dst) + cap(dst))
//@   ensures[S] @result-mem: (ptr(result) == ptr(dst) && cap(result) == cap(dst)) || fresh(result)
//@   ensures[S] @prefix: forall(k, 0, len(dst), result[k] == old(dst[k]))
//@   ensures[S] len(result) >= len(dst) + 1 && len(result) <= len(dst) + 20
//@   ensures[S] base == 10 && 0 <= i && i < 10 ==> len(result) == len(dst) + 1
//@   ensures[S] base == 10 && 10 <= i && i < 100 ==> len(result) == len(dst) + 2
//@   ensures[S] base == 10 && 100 <= i && i < 1000 ==> len(result) == len(dst) + 3
//@   ensures[S] base == 10 && 1000 <= i && i < 10000 ==> len(result) == len(dst) + 4

// replaceEntities rewrites one character reference in place. Caller obligation (property C17's quantifier):
// a replacement is never longer than the reference it replaces.
//@ pred isRefChar(c) := ('0' <= c && c <= '9') || ('a' <= c && c <= 'z') || ('A' <= c && c <= 'Z') || c == '#'
//@ func replaceEntities
// a numeric reference is written as a literal byte only if that byte is ASCII (otherwise it would not be UTF-8 and would
// decode differently); what replaces it therefore starts with an ASCII byte. The reverse map holds references ('&...').
// only a complete reference is rewritten: the byte that ended what was replaced is its ';' (in the old text the reference
// ran from i to result1 + len(b) - len(result0))
//@   ensures[F,C17,perpath] @semicolon: len(result0) < len(b) ==> old(b[result1 + len(b) - len(result0)]) == ';'
//@   ensures[F,C17,perpath] @numeric-ascii: old(b[i+1]) == '#' && len(result0) < len(b) ==> result0[i] < 128
// a reference is not decoded to a bare '&' in front of something that would then read as a reference itself
//@   ensures[F,C17,perpath] @amp-guard: len(result0) < len(b) && result1 == i && result0[i] == '&' && i + 1 < len(result0) ==> !isRefChar(result0[i+1])
// a reference is rewritten in place: nothing in front of the '&' changes
//@   ensures[F,C17,perpath] @prefix-kept: forall(x, 0, i, result0[x] == old(b[x]))
//@   mapspec entitiesMap: ok ==> len(value) <= len(key) + 2
//@   mapspec revEntitiesMap: ok ==> len(value) <= n && len(value) >= 2 && value[0] == '&'
//@   requires[S] 0 <= i && i+3 < len(b) && b[i] == '&'
//@   ensures[S]  len(result0) <= len(b) && ptr(result0) == ptr(b) && cap(result0) == cap(b)
//@   ensures[S]  i - 1 <= result1 && result1 < len(result0)
//@   ensures[S]  2*len(result0) - result1 <= 2*len(b) - i
//@   loop * candidate i < j && j <= len(b)
//@   loop * candidate i + 1 <= j
//@   loop * candidate i + 2 <= j
//@   loop * candidate i + 3 <= j
//@   loop * candidate 0 <= c
//@   loop * candidate (j == i+3 ==> c == 0) && (j == i+4 ==> 0 <= c && c < 16) && (j == i+5 ==> 0 <= c && c < 256) && (j == i+6 ==> 0 <= c && c < 4096)
//@   loop * decreases len(b) - j

//@ func ReplaceEntities
//@   mapspec entitiesMap: ok ==> len(value) <= len(key) + 2
//@   mapspec revEntitiesMap: ok ==> len(value) <= n && len(value) >= 2 && value[0] == '&'
//@   ensures[S,C17] @never-longer: len(result) <= len(b)
//@   loop * candidate 0 <= i && i <= len(b)
//@   loop * candidate -1 <= i && i <= len(b)
//@   loop * candidate len(b) <= len(old(b)) && ptr(b) == ptr(old(b)) && cap(b) == cap(old(b))
//@   loop 1 decreases 2*len(b) - i

//@ func ReplaceMultipleWhitespaceAndEntities
//@   ensures[F,C17,perpath,local] @leading-run-moved: j == 1 ==> result[0] == b#1[0]
//@   mapspec entitiesMap: ok ==> len(value) <= len(key) + 2
//@   mapspec revEntitiesMap: ok ==> len(value) <= n && len(value) >= 2 && value[0] == '&'
//@   ensures[S,C17] @never-longer: len(result) <= len(b)
// as in ReplaceMultipleWhitespace: the first byte of every white-space run holds ' ' or '\n' after the iteration that met it
//@   loop 1 transition[F,C17] @run-normalised: isWS(prev(b[i])) ==> b[prev(i)] == ' ' || b[prev(i)] == '\n'
// as in ReplaceMultipleWhitespace: the flag means 'the run scanned so far contains a line break' (\n or \r, anywhere in it)
//@   loop 2 invariant[F] @newline-flag: newline <==> exists(q, start, i, b[q] == '\n' || b[q] == '\r')
//@   loop 1 invariant 0 <= j && j <= k && k <= i && i <= len(b) + 1 && k <= len(b) && len(b) <= len(old(b)) && ptr(b) == ptr(old(b)) && cap(b) == cap(old(b)) && ((j == 0) == (k == 0)) && (j != 1 || 2 <= k)
//@   loop 2 invariant 0 <= j && j <= k && k <= start && start < i && i <= len(b) && len(b) <= len(old(b)) && ptr(b) == ptr(old(b)) && cap(b) == cap(old(b)) && ((j == 0) == (k == 0)) && (j != 1 || 2 <= k)
//@   loop * candidate 0 <= j && j <= k && k <= i
//@   loop * candidate -1 <= i && i <= len(b) + 1
//@   loop * candidate 0 <= i && i <= len(b) + 1
//@   loop * candidate k <= len(b)
//@   loop * candidate k <= i + 1
//@   loop * candidate 0 <= j && j <= k
//@   loop * candidate i < len(b) || k <= len(b)
//@   loop * candidate j <= start + 1
//@   loop * candidate 0 <= start && start < i
//@   loop * candidate (j == 0) == (k == 0)
//@   loop * candidate j == 0 || (2 <= k && j < k)
//@   loop * candidate j != 1 || 2 <= k
//@   loop * candidate len(b) <= len(old(b)) && ptr(b) == ptr(old(b)) && cap(b) == cap(old(b))
//@   loop 1 decreases 2*len(b) - i
//@   loop 2 decreases len(b) - i

// ===================================================================== binary.go (C19)
// Abstract view of a reader back end: clen(f) bytes, content(f, i) the i-th byte.
//@ ghost clen(f)
//@ ghost content(f, i) byte

// Behavioural contract of IBinaryReader (every implementation in the repository is verified against it;
// call sites through the interface use it).
//@ func IBinaryReader.Len
//@   pure
//@   ensures[S]  result >= 0 && smallInt(result)
//@   ensures[F]  result == clen(recv)

//@ func IBinaryReader.Bytes
//@   modifies M.uint8, H.parse.binaryReaderReader.pos
//@   requires[S] arg1 >= 0 && arg2 >= 0 && smallInt(arg1) && smallInt(arg2) && (arg0 == nil || len(arg0) == arg1)
//@   ensures[S]  len(result0) <= arg1
//@   ensures[S]  arg0 != nil && len(arg0) >= arg1 && result0 != nil ==> sameMem(result0, arg0[0:len(result0)])
//@   ensures[F]  @length: arg1 > 0 && result1 == nil ==> len(result0) == arg1 && arg2 + arg1 <= clen(recv)
//@   ensures[F]  @content: forall(i, 0, len(result0), result0[i] == content(recv, arg2 + i))
//@   ensures[F]  @frame: ite(arg0 == nil, sameBytesExcept(0, 0), sameBytesExcept(ptr(arg0), ptr(arg0) + len(arg0)))

// the in-memory back end defines the abstract view as its data slice
//@ pred bytesView(r) := clen(r) == len(r.data) && forall(i, 0, len(r.data), content(r, i) == r.data[i])
//@ func binaryReaderBytes.Len
//@   requires[F] bytesView(r)
//@ func binaryReaderBytes.Bytes
//@   requires[S] r != nil && (b == nil || len(b) >= n)
//@   requires[F] bytesView(r) && (b == nil || disjoint(b, r.data))
//@   ensures[F,C19] @length: n > 0 ==> len(result0) == min(n, max(0, clen(r) - off))
//@   ensures[F,C19] @content: forall(i, 0, len(result0), result0[i] == content(r, off + i))
//@   ensures[F,C19] @eof: n > 0 ==> ((result1 == io.EOF) <==> off + n > clen(r)) && (result1 == nil || result1 == io.EOF)
//@   ensures[F,C19] @zero: n == 0 ==> result1 == nil && len(result0) == 0

//@ func binaryReaderBytes.Close
//@   ensures[S] true
//@ func newBinaryReaderBytes
//@   ensures[S] result != nil && sameSlice(result.data, data)

//@ pred mmapView(r) := clen(r) == len(r.data) && r.size == len(r.data) && forall(i, 0, len(r.data), content(r, i) == r.data[i])
// the constructor maps exactly the file's size: the mapped slice is as long as the size Len() reports (the half of mmapView
// that does not depend on the operating system's file contents)
//@ func newBinaryReaderMmap
//@   ensures[F,C19] @view-size: result1 == nil ==> result0 != nil && result0.size == len(result0.data)
//@ func binaryReaderMmap.Len
//@   requires[S] r != nil && r.size >= 0 && smallInt(r.size)
//@   requires[F] mmapView(r)
//@ func binaryReaderMmap.Bytes
//@   requires[S] r != nil && (b == nil || len(b) >= n)
//@   requires[F] mmapView(r) && r.data != nil && (b == nil || disjoint(b, r.data))
//@   ensures[F,C19] @length: n > 0 ==> len(result0) == min(n, max(0, clen(r) - off))
//@   ensures[F,C19] @content: forall(i, 0, len(result0), result0[i] == content(r, off + i))
//@   ensures[F,C19] @eof: n > 0 ==> ((result1 == io.EOF) <==> off + n > clen(r)) && (result1 == nil || result1 == io.EOF)

// ---- BinaryReader: position bookkeeping, sticky first error, io.Seeker semantics, fixed-width decoding
//@ pred brInv(r) := r != nil && r.f != nil && 0 <= r.pos

//@ func BinaryReader.Pos
//@   ensures[S] result == r.pos
//@ func BinaryReader.Err
//@   ensures[S] result == r.err
//@ func BinaryReader.Len
//@   requires[S] brInv(r)
//@   ensures[F,C19] result == clen(r.f) - r.pos

//@ func BinaryReader.Seek
//@   preserves[S] brInv(r)
//@   requires[S] smallInt(r.pos)
//@   requires[S] smallInt(off)
//@   ensures[F,C19] @start: whence == 0 ==> ite(0 <= off && off <= clen(r.f), r.pos == off && result0 == off && result1 == nil, r.pos == old(r.pos) && result1 != nil)
//@   ensures[F,C19] @current: whence == 1 ==> ite(0 <= old(r.pos) + off && old(r.pos) + off <= clen(r.f), r.pos == old(r.pos) + off && result0 == r.pos && result1 == nil, r.pos == old(r.pos) && result1 != nil)
//@   ensures[F,C19] @end: whence == 2 ==> ite(0 <= clen(r.f) + off && off <= 0, r.pos == clen(r.f) + off && result0 == r.pos && result1 == nil, r.pos == old(r.pos) && result1 != nil)
//@   ensures[F,C19] @whence: whence != 0 && whence != 1 && whence != 2 ==> r.pos == old(r.pos) && result1 != nil

//@ func BinaryReader.ReadBytes
//@   preserves[S] brInv(r)
//@   requires[S] smallInt(r.pos)
//@   requires[S] 0 <= n && smallInt(n)
//@   ensures[S]  len(result) <= n && r.pos == old(r.pos) + len(result)
//@   ensures[F,C19] @sticky: old(r.err) != nil ==> r.err == old(r.err)
//@   ensures[F,C19] @content: forall(i, 0, len(result), result[i] == content(r.f, old(r.pos) + i))
//@   ensures[F,C19] @complete: n > 0 && r.err == nil ==> len(result) == n

//@ func BinaryReader.Read
//@   preserves[S] brInv(r)
//@   requires[S] smallInt(r.pos)
// io.Reader: the error belongs to this call (a full read returns nil whatever earlier reads latched in Err()), and the bytes
// delivered are the content at the position before the call
//@   ensures[F,C19] @io-reader: len(b) > 0 && result1 == nil ==> result0 == len(b)
// Read and ReadAt hand their error to the caller, as io.Reader does; the error latched by the typed readers (Err()) is neither
// consulted nor changed, so a read that succeeds after a Seek back into the data is not reported as failed
//@   ensures[F,C19] @err-untouched: r.err == old(r.err)
//@   ensures[F,C19] @io-reader-content: forall(i, 0, result0, b[i] == content(r.f, old(r.pos) + i))
//@   ensures[S]  0 <= result0 && result0 <= len(b) && r.pos == old(r.pos) + result0
//@ func BinaryReader.ReadAt
//@   preserves[S] brInv(r)
//@   requires[S] smallInt(r.pos)
//@   requires[S] 0 <= off && smallInt(off)
//@   ensures[F,C19] @io-readerat: len(b) > 0 && result1 == nil ==> result0 == len(b)
//@   ensures[F,C19] @err-untouched: r.err == old(r.err)
//@   ensures[F,C19] @io-readerat-content: forall(i, 0, result0, b[i] == content(r.f, off + i))
//@   ensures[S]  0 <= result0 && result0 <= len(b) && r.pos == old(r.pos)

//@ func BinaryReader.ReadUint8
//@   preserves[S] brInv(r)
//@   requires[S] smallInt(r.pos)
//@   ensures[F,C19] r.err == nil ==> result == content(r.f, old(r.pos)) && r.pos == old(r.pos) + 1
//@ func BinaryReader.ReadByte
//@   preserves[S] brInv(r)
//@   requires[S] smallInt(r.pos)
// a failing ReadByte leaves the reader in the failed state (Err() reports it) and never clears an earlier error
//@   ensures[F,C19] @sticky: old(r.err) != nil ==> r.err == old(r.err)
//@   ensures[F,C19] @error-recorded: result1 != nil ==> r.err != nil
//@   ensures[F,C19] @value: result1 == nil ==> r.pos == old(r.pos) + 1 && result0 == content(r.f, old(r.pos))
// unsigned value of the N bytes at stream offset p in the reader's byte order, and its two's-complement reading
//@ pred uBE16(r, p) := content(r.f, p)*256 + content(r.f, p+1)
//@ pred uLE16(r, p) := content(r.f, p+1)*256 + content(r.f, p)
//@ pred uBE24(r, p) := content(r.f, p)*65536 + content(r.f, p+1)*256 + content(r.f, p+2)
//@ pred uLE24(r, p) := content(r.f, p+2)*65536 + content(r.f, p+1)*256 + content(r.f, p)
//@ pred uBE32(r, p) := content(r.f, p)*16777216 + content(r.f, p+1)*65536 + content(r.f, p+2)*256 + content(r.f, p+3)
//@ pred uLE32(r, p) := content(r.f, p+3)*16777216 + content(r.f, p+2)*65536 + content(r.f, p+1)*256 + content(r.f, p)
//@ pred uBE64(r, p) := uBE32(r, p)*4294967296 + uBE32(r, p+4)
//@ pred uLE64(r, p) := uLE32(r, p+4)*4294967296 + uLE32(r, p)
//@ pred sx(u, half) := ite(u < half, u, u - 2*half)
//@ func BinaryReader.ReadUint16
//@   preserves[S] brInv(r)
//@   requires[S] smallInt(r.pos)
//@   ensures[F,C19] @big: r.err == nil && r.ByteOrder != binary.LittleEndian ==> result == content(r.f, old(r.pos))*256 + content(r.f, old(r.pos)+1)
//@   ensures[F,C19] @little: r.err == nil && r.ByteOrder == binary.LittleEndian ==> result == content(r.f, old(r.pos)+1)*256 + content(r.f, old(r.pos))
//@   ensures[F,C19] @short: r.pos < old(r.pos) + 2 ==> result == 0
//@ func BinaryReader.ReadUint24
//@   preserves[S] brInv(r)
//@   requires[S] smallInt(r.pos)
//@   ensures[F,C19] @big: r.err == nil && r.ByteOrder != binary.LittleEndian ==> result == content(r.f, old(r.pos))*65536 + content(r.f, old(r.pos)+1)*256 + content(r.f, old(r.pos)+2)
//@   ensures[F,C19] @little: r.err == nil && r.ByteOrder == binary.LittleEndian ==> result == content(r.f, old(r.pos)+2)*65536 + content(r.f, old(r.pos)+1)*256 + content(r.f, old(r.pos))
//@   ensures[F,C19] @short: r.pos < old(r.pos) + 3 ==> result == 0
//@ func BinaryReader.ReadUint32
//@   preserves[S] brInv(r)
//@   requires[S] smallInt(r.pos)
//@   ensures[F,C19] @big: r.err == nil && r.ByteOrder != binary.LittleEndian ==> result == content(r.f, old(r.pos))*16777216 + content(r.f, old(r.pos)+1)*65536 + content(r.f, old(r.pos)+2)*256 + content(r.f, old(r.pos)+3)
//@   ensures[F,C19] @little: r.err == nil && r.ByteOrder == binary.LittleEndian ==> result == content(r.f, old(r.pos)+3)*16777216 + content(r.f, old(r.pos)+2)*65536 + content(r.f, old(r.pos)+1)*256 + content(r.f, old(r.pos))
//@   ensures[F,C19] @short: r.pos < old(r.pos) + 4 ==> result == 0
//@ func BinaryReader.ReadUint64
//@   preserves[S] brInv(r)
//@   requires[S] smallInt(r.pos)
//@   ensures[F,C19] @short: r.pos < old(r.pos) + 8 ==> result == 0
//@   ensures[F,C19] @big: r.err == nil && r.ByteOrder != binary.LittleEndian ==> result == content(r.f, old(r.pos))*72057594037927936 + content(r.f, old(r.pos)+1)*281474976710656 + content(r.f, old(r.pos)+2)*1099511627776 + content(r.f, old(r.pos)+3)*4294967296 + content(r.f, old(r.pos)+4)*16777216 + content(r.f, old(r.pos)+5)*65536 + content(r.f, old(r.pos)+6)*256 + content(r.f, old(r.pos)+7)
//@   ensures[F,C19] @little: r.err == nil && r.ByteOrder == binary.LittleEndian ==> result == content(r.f, old(r.pos)+7)*72057594037927936 + content(r.f, old(r.pos)+6)*281474976710656 + content(r.f, old(r.pos)+5)*1099511627776 + content(r.f, old(r.pos)+4)*4294967296 + content(r.f, old(r.pos)+3)*16777216 + content(r.f, old(r.pos)+2)*65536 + content(r.f, old(r.pos)+1)*256 + content(r.f, old(r.pos))
//@ func BinaryReader.ReadInt8
//@   preserves[S] brInv(r)
//@   requires[S] smallInt(r.pos)
//@   ensures[F,C19] @signed: r.err == nil ==> result == sx(content(r.f, old(r.pos)), 128)
//@ func BinaryReader.ReadInt16
//@   preserves[S] brInv(r)
//@   requires[S] smallInt(r.pos)
//@   ensures[F,C19] @signed-big: r.err == nil && r.ByteOrder != binary.LittleEndian ==> result == sx(uBE16(r, old(r.pos)), 32768)
//@   ensures[F,C19] @signed-little: r.err == nil && r.ByteOrder == binary.LittleEndian ==> result == sx(uLE16(r, old(r.pos)), 32768)
//@ func BinaryReader.ReadInt24
//@   preserves[S] brInv(r)
//@   requires[S] smallInt(r.pos)
//@   ensures[F,C19] @signed-big: r.err == nil && r.ByteOrder != binary.LittleEndian ==> result == sx(uBE24(r, old(r.pos)), 8388608)
//@   ensures[F,C19] @signed-little: r.err == nil && r.ByteOrder == binary.LittleEndian ==> result == sx(uLE24(r, old(r.pos)), 8388608)
//@ func BinaryReader.ReadInt32
//@   preserves[S] brInv(r)
//@   requires[S] smallInt(r.pos)
//@   ensures[F,C19] @signed-big: r.err == nil && r.ByteOrder != binary.LittleEndian ==> result == sx(uBE32(r, old(r.pos)), 2147483648)
//@   ensures[F,C19] @signed-little: r.err == nil && r.ByteOrder == binary.LittleEndian ==> result == sx(uLE32(r, old(r.pos)), 2147483648)
//@ func BinaryReader.ReadInt64
//@   preserves[S] brInv(r)
//@   requires[S] smallInt(r.pos)
//@   ensures[F,C19] @signed-big: r.err == nil && r.ByteOrder != binary.LittleEndian ==> result == sx(uBE64(r, old(r.pos)), 9223372036854775808)
//@   ensures[F,C19] @signed-little: r.err == nil && r.ByteOrder == binary.LittleEndian ==> result == sx(uLE64(r, old(r.pos)), 9223372036854775808)
//@ func BinaryReader.ReadString
//@   preserves[S] brInv(r)
//@   requires[S] smallInt(r.pos)
//@   requires[S] 0 <= n && smallInt(n)

// ---- BinaryWriter
//@ func BinaryWriter.Len
//@   ensures[S] result == len(w.buf)
//@ func BinaryWriter.Bytes
//@   ensures[S] sameSlice(result, w.buf)
//@ func BinaryWriter.Write
//@   ensures[S] result0 == len(b) && result1 == nil && len(w.buf) == old(len(w.buf)) + len(b)
//@   ensures[F,C19] forall(i, 0, old(len(w.buf)), w.buf[i] == old(w.buf[i])) && forall(i, 0, len(b), w.buf[old(len(w.buf)) + i] == old(b[i]))
//@ func BinaryWriter.WriteBytes
//@   ensures[S] len(w.buf) == old(len(w.buf)) + len(v)
//@   ensures[F,C19] forall(i, 0, old(len(w.buf)), w.buf[i] == old(w.buf[i])) && forall(i, 0, len(v), w.buf[old(len(w.buf)) + i] == old(v[i]))
//@ func BinaryWriter.WriteByte
//@   ensures[S] len(w.buf) == old(len(w.buf)) + 1
//@   ensures[F,C19] forall(i, 0, old(len(w.buf)), w.buf[i] == old(w.buf[i])) && w.buf[old(len(w.buf))] == v
//@ func BinaryWriter.WriteUint8
//@   ensures[S] len(w.buf) == old(len(w.buf)) + 1
//@   ensures[F,C19] forall(i, 0, old(len(w.buf)), w.buf[i] == old(w.buf[i])) && w.buf[old(len(w.buf))] == v
//@ func BinaryWriter.WriteUint24
//@   ensures[S] len(w.buf) == old(len(w.buf)) + 3
//@   ensures[F,C19] @prefix: forall(i, 0, old(len(w.buf)), w.buf[i] == old(w.buf[i]))
//@   ensures[F,C19] @big: w.ByteOrder != binary.LittleEndian ==> w.buf[old(len(w.buf))]*65536 + w.buf[old(len(w.buf))+1]*256 + w.buf[old(len(w.buf))+2] == v % 16777216
//@   ensures[F,C19] @little: w.ByteOrder == binary.LittleEndian ==> w.buf[old(len(w.buf))+2]*65536 + w.buf[old(len(w.buf))+1]*256 + w.buf[old(len(w.buf))] == v % 16777216

// ---- bitmaps: bit k of a buffer is (buf[k/8] >> (7 - k%8)) & 1
//@ pred bitAt(buf, k) := (buf[k / 8] / ite(k % 8 == 0, 128, ite(k % 8 == 1, 64, ite(k % 8 == 2, 32, ite(k % 8 == 3, 16, ite(k % 8 == 4, 8, ite(k % 8 == 5, 4, ite(k % 8 == 6, 2, 1)))))))) % 2 == 1
//@ func BitmapReader.Read
//@   requires[S] r != nil && len(r.buf) < (1<<28)
//@   ensures[F,C19] @bit: !old(r.eof) && old(r.pos) < 8*len(r.buf) ==> (result <==> bitAt(r.buf, old(r.pos))) && r.pos == old(r.pos) + 1 && !r.eof
//@   ensures[F,C19] @eof: old(r.eof) || old(r.pos) >= 8*len(r.buf) ==> !result && r.eof && r.pos == old(r.pos)
//@ func BitmapReader.Pos
//@   ensures[S] result == r.pos
//@ func BitmapReader.EOF
//@   ensures[S] result == r.eof
//@ func BitmapWriter.Write
//@   requires[S] w != nil && w.pos < 8*len(w.buf) + 8 && w.pos < (1<<40)
//@   ensures[S]  w.pos == old(w.pos) + 1 && w.pos <= 8*len(w.buf) && len(w.buf) >= old(len(w.buf))
//@   ensures[F,C19] @bit-set: bit ==> bitAt(w.buf, old(w.pos))
//@   ensures[F,C19] @earlier-bits: forall(k, 0, old(w.pos), k / 8 < old(len(w.buf)) ==> (bitAt(w.buf, k) <==> old(bitAt(w.buf, k))))
//@ func BitmapWriter.Len
//@   ensures[S] result == len(w.buf)
//@ func BitmapWriter.Bytes
//@   ensures[S] sameSlice(result, w.buf)

//@ func BinaryWriter.WriteUint16
//@   requires[S] w != nil && w.ByteOrder != nil
//@ func BinaryWriter.WriteUint32
//@   requires[S] w != nil && w.ByteOrder != nil
//@ func BinaryWriter.WriteUint64
//@   requires[S] w != nil && w.ByteOrder != nil
//@ func BinaryWriter.WriteInt16
//@   requires[S] w != nil && w.ByteOrder != nil
//@ func BinaryWriter.WriteInt32
//@   requires[S] w != nil && w.ByteOrder != nil
//@ func BinaryWriter.WriteInt64
//@   requires[S] w != nil && w.ByteOrder != nil

// ---- io contracts (assumed for external implementations; the repository's own Read/ReadAt/Seek are verified against them)
// Ghost model of a byte stream: stream(r, i) is the i-th byte reader r delivers over its lifetime and delivered(r) the
// number of bytes it has delivered so far. The clauses tagged "ghost" define this state from Read's observable behaviour
// (they hold for every reader by construction) and are therefore assumed at call sites and not imposed on implementations.
//@ ghost stream(r, i) byte
//@ ghostfield delivered
// slen(r): the total number of bytes reader r will ever deliver (ghost); what has been delivered lies within it
//@ ghost slen(r)
//@ iface io.Reader.Read
//@   modifies M.uint8, G.delivered
//@   ensures[S] 0 <= result0 && result0 <= len(arg0)
//@   ensures[F] @frame: sameBytesExcept(ptr(arg0), ptr(arg0) + len(arg0))
//@   ensures[F,ghost] @count: delivered(recv) == old(delivered(recv)) + result0 && old(delivered(recv)) >= 0
//@   ensures[F,ghost] @data: forall(k, 0, result0, arg0[k] == stream(recv, old(delivered(recv)) + k))
//@   ensures[F,ghost] @within: delivered(recv) <= slen(recv)
// ralen(r), radata(r, i): the data behind an io.ReaderAt (ghost). The documented contract of ReadAt: it reads into p only,
// the bytes it reports are the data at off.., they exist, and fewer than len(p) bytes come with an error.
//@ ghost ralen(r)
//@ ghost radata(r, i) byte
//@ iface io.ReaderAt.ReadAt
//@   modifies M.uint8
//@   ensures[S] 0 <= result0 && result0 <= len(arg0)
//@   ensures[F,ghost] @frame: sameBytesExcept(ptr(arg0), ptr(arg0) + len(arg0))
//@   ensures[F,ghost] @data: forall(k, 0, result0, arg0[k] == radata(recv, arg1 + k))
//@   ensures[F,ghost] @within: result0 > 0 ==> arg1 >= 0 && arg1 + result0 <= ralen(recv)
//@   ensures[F,ghost] @full: result1 == nil ==> result0 == len(arg0)
//@ iface io.Seeker.Seek
//@   modifies nothing
//@   ensures[S] true
// Ghost model of a seekable stream: sdata(r, i) the data, sdlen(r) their length, spos(r) the current offset. Seek from
// the start (whence 0) that succeeds moves the offset there; Read delivers the bytes at the offset and advances it.
//@ ghost sdlen(r)
//@ ghost sdata(r, i) byte
//@ ghostfield spos
//@ iface io.ReadSeeker.Read
//@   modifies M.uint8, G.spos
//@   ensures[S] 0 <= result0 && result0 <= len(arg0)
//@   ensures[F,ghost] @frame: sameBytesExcept(ptr(arg0), ptr(arg0) + len(arg0))
//@   ensures[F,ghost] @count: spos(recv) == old(spos(recv)) + result0
//@   ensures[F,ghost] @data: forall(k, 0, result0, arg0[k] == sdata(recv, old(spos(recv)) + k))
//@   ensures[F,ghost] @within: result0 > 0 ==> old(spos(recv)) >= 0 && spos(recv) <= sdlen(recv)
//@ iface io.ReadSeeker.Seek
//@   modifies G.spos
//@   ensures[S] true
//@   ensures[F,ghost] @set: result1 == nil && arg1 == 0 ==> spos(recv) == arg0

// the io.Reader back end: reads sequentially, so its abstract view is the reader's whole stream, its position the number
// of bytes the reader has delivered; the length its client stated at construction is assumed to be the stream's length
//@ pred rrView(r) := clen(r) == r.size && r.size == slen(r.r) && r.pos == delivered(r.r) && r.pos >= 0 && forall(i, 0, r.size, content(r, i) == stream(r.r, i))
//@ func binaryReaderReader.Bytes
//@   requires[S] r != nil && r.r != nil && (b == nil || len(b) == n) && n <= (1<<50)
//@   requires[F] rrView(r)
//@   ensures[F]  @view: rrView(r)
//@   loop 1 invariant 0 <= i && i <= n && b != nil && len(b) == n
//@   loop 1 invariant[F] r.pos == off + i && (i > 0 ==> r.pos <= r.size) && rrView(r) && forall(k, 0, i, b[k] == stream(r.r, off + k)) && (sameSlice(b, old(b)) || old(b) == nil)
//@   loop 1 invariant[F] ite(old(b) == nil, sameBytesExcept(0, 0), sameBytesExcept(ptr(old(b)), ptr(old(b)) + len(old(b))))
//@   loop 1 decreases n - i
// the io.ReadSeeker back end seeks to the offset and reads sequentially from there
//@ pred rsView(r) := clen(r) == r.size && r.size == sdlen(r.r) && forall(i, 0, r.size, content(r, i) == sdata(r.r, i))
//@ func binaryReaderSeeker.Bytes
//@   requires[S] r != nil && r.r != nil && (b == nil || len(b) == n) && n <= (1<<50)
//@   requires[F] rsView(r)
//@   ensures[F]  @view: rsView(r)
//@   loop 1 invariant 0 <= i && i <= n && b != nil && len(b) == n
//@   loop 1 invariant[F] spos(r.r) == off + i && (i > 0 ==> off >= 0 && off + i <= r.size) && rsView(r) && forall(k, 0, i, b[k] == sdata(r.r, off + k)) && (sameSlice(b, old(b)) || old(b) == nil)
//@   loop 1 invariant[F] ite(old(b) == nil, sameBytesExcept(0, 0), sameBytesExcept(ptr(old(b)), ptr(old(b)) + len(old(b))))
//@   loop 1 decreases n - i
// the io.ReaderAt back end: its abstract view is the data behind the reader; the length its client stated at construction
// is assumed to be the length of that data
//@ pred raView(r) := clen(r) == r.size && r.size == ralen(r.r) && forall(i, 0, r.size, content(r, i) == radata(r.r, i))
//@ func binaryReaderReaderAt.Bytes
//@   requires[S] r != nil && r.r != nil && (b == nil || len(b) == n) && n <= (1<<50)
//@   requires[F] raView(r)

// the stream back ends are constructed with the length their client states; it is assumed non-negative and small
//@ func binaryReaderReader.Len
//@   requires[S] r != nil && r.size >= 0 && smallInt(r.size)
//@   requires[F] rrView(r)
//@ func binaryReaderSeeker.Len
//@   requires[S] r != nil && r.size >= 0 && smallInt(r.size)
//@   requires[F] rsView(r)
//@ func binaryReaderReaderAt.Len
//@   requires[S] r != nil && r.size >= 0 && smallInt(r.size)
//@   requires[F] raView(r)
//@ iface io.Writer.Write
//@   readonly arg0
//@   ensures[S] true

// ---- recursion that follows a finite, already built data structure (not input-driven); its depth is the depth of that
// structure. Listed as assumptions of the depth argument (C01).
//@ recursion structural js.Walk -- recursion over the AST, whose depth the parser's nesting limits bound
//@ recursion structural js.*.JS -- printing recursion over the AST
//@ recursion structural js.*.String -- printing recursion over the AST
//@ recursion structural js.*.JSON -- printing recursion over the AST
//@ recursion structural js.Parser.exprToBinding* -- conversion of an already parsed expression tree into a binding pattern
//@ recursion structural parse.BinaryReader.* -- a BinaryReader wrapping a reader back end that wraps another BinaryReader: depth of the object nesting built by the caller
//@ recursion structural parse.binaryReader*.* -- same
//@ recursion structural parse.Indenter.Write -- an Indenter writing into another Indenter: depth of the writer nesting built by the caller

// ---- C20: package-level memory that heap objects may point to. The frame analysis treats what is loaded from
// parameter-reachable memory as parameter-rooted; that is only right if no pointer to package-level memory that is ever
// written gets stored into a heap object. Every such store must be listed here with the reason why the memory is never
// written (any other one is reported as frame:global-escape).
//@ sharedconst parse.nullBuffer -- the one-byte buffer of every empty Input holds only the terminator; the library edits buffers in place only inside token text, which never includes the terminator (frame clauses of C02); NewInputBytes writes the terminator into its argument or a fresh copy, never into nullBuffer
//@ sharedconst buffer.nullBuffer -- same for buffer.Lexer
//@ sharedconst io.EOF -- error values are immutable
//@ sharedconst css.endBytes -- []byte literal with cap == len: append reallocates; the css parser never edits p.data in place (ToLower is applied to parse.Copy(p.data))
//@ sharedconst css.emptyBytes -- same
//@ sharedconst css.wsBytes -- same (stored as Token.Data in the Values() buffer)
//@ sharedconst ? in js.*.JSON -- error values (ErrInvalidJSON and errors returned by callees) placed in the argument list of fmt.Errorf
//@ sharedconst ? in buffer.StreamLexer.read -- the error value returned by the reader
//@ sharedconst ? in parse.BinaryReader.ReadBytes -- the error value returned by the back end

// signed 8/24-bit writers: the bytes appended are the two's-complement encoding (value mod 2^N) in the writer's byte order
//@ func BinaryWriter.WriteInt8
//@   ensures[S] len(w.buf) == old(len(w.buf)) + 1
//@   ensures[F,C19] @twos: w.buf[old(len(w.buf))] == v % 256 && forall(i, 0, old(len(w.buf)), w.buf[i] == old(w.buf[i]))
//@ func BinaryWriter.WriteInt24
//@   ensures[S] len(w.buf) == old(len(w.buf)) + 3
//@   ensures[F,C19] @prefix: forall(i, 0, old(len(w.buf)), w.buf[i] == old(w.buf[i]))
//@   ensures[F,C19] @big: w.ByteOrder != binary.LittleEndian ==> w.buf[old(len(w.buf))]*65536 + w.buf[old(len(w.buf))+1]*256 + w.buf[old(len(w.buf))+2] == v % 16777216
//@   ensures[F,C19] @little: w.ByteOrder == binary.LittleEndian ==> w.buf[old(len(w.buf))+2]*65536 + w.buf[old(len(w.buf))+1]*256 + w.buf[old(len(w.buf))] == v % 16777216

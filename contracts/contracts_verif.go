//go:build verif

// Contracts for package parse (tdewolff/parse/v2), read by /verif/engine (vcgo).
// This file contains comments only; it is never compiled into the library.
package parse

//@ pred bufInv(z) := z != nil && len(z.buf) >= 1 && z.buf[len(z.buf)-1] == 0 &&
//@     0 <= z.start && z.start <= len(z.buf)-1 && 0 <= z.pos && z.pos <= len(z.buf)-1 &&
//@     (z.err != nil ==> len(z.buf) == 1)
//@ pred smallInt(x) := -(1<<60) <= x && x <= (1<<60)
//@ pred inputInv(z) := bufInv(z) && z.start <= z.pos

//@ func Input.Err
//@   requires[S] bufInv(z)
//@   ensures[S]  (result != nil) <==> (z.err != nil || z.pos >= len(z.buf)-1)
//@   ensures[F]  z.err != nil ==> result == z.err
//@   ensures[F]  z.err == nil && z.pos >= len(z.buf)-1 ==> result == io.EOF

//@ func Input.PeekErr
//@   requires[S] bufInv(z) && smallInt(pos)
//@   ensures[S]  (result != nil) <==> (z.err != nil || z.pos+pos >= len(z.buf)-1)
//@   ensures[F]  z.err != nil ==> result == z.err
//@   ensures[F]  z.err == nil && z.pos+pos >= len(z.buf)-1 ==> result == io.EOF

//@ func Input.Peek
//@   requires[S] bufInv(z) && 0 <= z.pos+pos && z.pos+pos <= len(z.buf)-1
//@   ensures[S]  result == z.buf[z.pos+pos]

//@ func Input.Move
//@   requires[S] bufInv(z) && 0 <= z.pos+n && z.pos+n <= len(z.buf)-1
//@   ensures[S]  z.pos == old(z.pos)+n

//@ func Input.PeekRune
//@   requires[S] bufInv(z) && 0 <= pos && z.pos+pos <= len(z.buf)-1
//@   ensures[S]  1 <= result1 && result1 <= 4
//@   ensures[S]  z.pos+pos < len(z.buf)-1 ==> z.pos+pos+result1 <= len(z.buf)-1

//@ func Input.MoveRune
//@   requires[S] bufInv(z)
//@   requires[S] z.pos < len(z.buf)-1
//@   ensures[S]  old(z.pos) < z.pos && z.pos <= old(z.pos)+4 && z.pos <= len(z.buf)-1

//@ func Input.Pos
//@   requires[S] bufInv(z)
//@   ensures[S]  result == z.pos - z.start

//@ func Input.Rewind
//@   requires[S] bufInv(z) && 0 <= z.start+pos && z.start+pos <= len(z.buf)-1
//@   ensures[S]  z.pos == z.start+pos

//@ func Input.Lexeme
//@   requires[S] inputInv(z)
//@   ensures[S]  sameMem(result, z.buf[z.start:z.pos]) && cap(result) == len(result)

//@ func Input.Skip
//@   requires[S] z != nil
//@   ensures[S]  z.start == z.pos

//@ func Input.Shift
//@   requires[S] inputInv(z)
//@   ensures[S]  sameMem(result, z.buf[old(z.start):z.pos]) && cap(result) == len(result)
//@   ensures[S]  z.start == z.pos

//@ func Input.Offset
//@   requires[S] z != nil
//@   ensures[S]  result == z.pos

//@ func Input.Bytes
//@   requires[S] bufInv(z)
//@   ensures[S]  sameMem(result, z.buf[0:len(z.buf)-1]) && cap(result) == len(result)

//@ func Input.Len
//@   requires[S] bufInv(z)
//@   ensures[S]  result == len(z.buf)-1

//@ func Input.Reset
//@   requires[S] z != nil
//@   ensures[S]  z.start == 0 && z.pos == 0

// ---- constructors
//@ func NewInputBytes
//@   ensures[S]  result != nil && bufInv(result) && result.pos == 0 && result.start == 0
//@   ensures[F]  result.err == nil && len(result.buf) == len(b)+1
//@   ensures[F]  forall(i, 0, len(b), result.buf[i] == old(b[i]))
//@   ensures[F,C12] @frame: sameBytesExcept(ptr(b)+len(b), ptr(b)+len(b)+1)
//@   ensures[F,C12] @borrow: len(b) == 0 || cap(b) == len(b) ==> sameBytesExcept(0, 0)

//@ func NewInputString
//@   ensures[S]  result != nil && bufInv(result) && result.pos == 0 && result.start == 0
//@   ensures[F]  result.err == nil && len(result.buf) == len(s)+1
//@   ensures[F]  sameBytesExcept(0, 0)

//@ func NewInput
//@   ensures[S]  result != nil && bufInv(result) && result.pos == 0 && result.start == 0

// ---- errors
// NewErrorLexer renders the position of the cursor. It reads l through l.Bytes(), whose capacity is clipped,
// so the private Input built by Position copies the bytes instead of borrowing a terminator slot.
//@ func NewErrorLexer
//@   trusted
//@   pure
//@   requires[S] bufInv(l)
//@   ensures[S]  result != nil && sameBytes()

// ---- util.go helpers (C16)
//@ pred lowerOf(c) := ite('A' <= c && c <= 'Z', c + 32, c)
//@ pred isWS(c) := c == ' ' || c == '\t' || c == '\n' || c == '\r' || c == '\f'

//@ func Copy
//@   ensures[S]  len(dst) == len(src) && cap(dst) == len(src) && fresh(dst) && sameBytesExcept(0, 0)
//@   ensures[F,C16]  forall(i, 0, len(src), dst[i] == old(src[i]))

//@ func ToLower
//@   ensures[S]  sameSlice(result, src) && sameBytesExcept(ptr(src), ptr(src)+len(src))
//@   ensures[S,C16]  forall(i, 0, len(src), src[i] == lowerOf(old(src[i])))
//@   loop 1 invariant -1 <= rangeindex && rangeindex < len(src) && sameBytesExcept(ptr(src), ptr(src)+len(src))
//@   loop 1 invariant forall(j, 0, rangeindex+1, src[j] == lowerOf(old(src[j]))) && forall(j, rangeindex+1, len(src), src[j] == old(src[j]))
//@   loop 1 decreases len(src) - rangeindex

//@ func EqualFold
//@   ensures[F,C16]  result ==> len(s) == len(targetLower) && forall(i, 0, len(s), s[i] == targetLower[i] || ('A' <= s[i] && s[i] <= 'Z' && s[i] + 32 == targetLower[i]))
//@   ensures[F,C16]  !result ==> len(s) != len(targetLower) || exists(i, 0, len(s), !(s[i] == targetLower[i] || ('A' <= s[i] && s[i] <= 'Z' && s[i] + 32 == targetLower[i])))
//@   loop 1 invariant -1 <= rangeindex && rangeindex < len(targetLower) && len(s) == len(targetLower)
//@   loop 1 invariant[F] forall(j, 0, rangeindex+1, s[j] == targetLower[j] || ('A' <= s[j] && s[j] <= 'Z' && s[j] + 32 == targetLower[j]))
//@   loop 1 decreases len(targetLower) - rangeindex

//@ func IsWhitespace
//@   ensures[F,C16]  result <==> isWS(c)

//@ func IsNewline
//@   ensures[F,C16]  result <==> (c == '\n' || c == '\r')

#!/bin/bash
# Must-fail corpus: every patch under selftest/mutants/<PROP>-<name>.diff breaks property <PROP> while still compiling.
# Each one is applied to a scratch copy of /repo (outside /repo and /verif, removed afterwards) and the quick check of
# <PROP> is run against the copy; the check must exit 1 with a VIOLATION line. A mutant that is not reported is a hole in
# the machinery (exit 1 here).
# usage: run.sh [-j N] [pattern]
cd "$(dirname "$0")"
J=4
if [ "$1" = "-j" ]; then J=$2; shift 2; fi
pat="${1:-*}"
export GOFLAGS=-mod=mod GOPROXY=off GOSUMDB=off GOTOOLCHAIN=local
one() {
  m="$1"; b=$(basename "$m" .diff); prop=${b%%-*}
  ev=$(mktemp -d /var/tmp/st-ev.XXXXXX)
  out=$(/verif/tools/mutant.sh "$PWD/$m" check -property "$prop" -tier quick -evidence "$ev" -replays "$ev/replays" 2>&1); rc=$?
  rm -rf "$ev"
  if [ $rc -eq 1 ] && echo "$out" | grep -q "^VIOLATION property=$prop"; then
    echo "caught   $b: $(echo "$out" | grep -m1 '^  obligation:' | cut -c1-150)"
  elif [ $rc -eq 3 ]; then
    echo "STALE    $b (patch does not apply)"
  else
    echo "MISSED   $b (exit $rc)"
  fi
}
export -f one
ls mutants/$pat.diff | xargs -P "$J" -I{} bash -c 'one {}' | sort | tee /dev/stderr | grep -c "^MISSED\|^STALE" | { read n; [ "$n" = 0 ]; }

; Walk arm for *IfStmt: children(IfStmt) = {Cond, Body, Else}; visited sets as Array Int Bool
(declare-fun sub (Int Int) Bool)          ; sub(n,m): m in subtree(n)
(declare-fun V0 () (Array Int Bool)) (declare-fun V1 () (Array Int Bool)) (declare-fun V2 () (Array Int Bool))
(declare-fun V3 () (Array Int Bool)) (declare-fun V4 () (Array Int Bool))
(declare-const n Int) (declare-const cond Int) (declare-const body Int) (declare-const els Int)
; type-derived unfolding axiom for this n (generated from go/types): subtree(n) = {n} ∪ subtree(Cond) ∪ subtree(Body) ∪ subtree(Else); subtree(nil)=∅
(assert (forall ((m Int)) (! (= (sub n m) (or (= m n) (and (not (= cond 0)) (sub cond m)) (and (not (= body 0)) (sub body m)) (and (not (= els 0)) (sub els m)))) :pattern ((sub n m)))))
; Enter(n): V1 = V0 ∪ {n}
(assert (= V1 (store V0 n true)))
; callee contract Walk(v,x): x==nil -> unchanged ; else forall m. (V'[m] <=> V[m] or ...) at least: V ⊆ V' and sub(x,m) => V'[m]
(define-fun walkpost ((x Int) (A (Array Int Bool)) (B (Array Int Bool))) Bool
  (and (forall ((m Int)) (! (=> (select A m) (select B m)) :pattern ((select B m))))
       (=> (not (= x 0)) (forall ((m Int)) (! (=> (sub x m) (select B m)) :pattern ((sub x m)))))))
; code order: Walk(Body); Walk(Else); Walk(Cond)
(assert (walkpost body V1 V2)) (assert (walkpost els V2 V3)) (assert (walkpost cond V3 V4))
; goal: forall m. sub(n,m) => V4[m]   and V0 ⊆ V4
(assert (not (and (forall ((m Int)) (=> (sub n m) (select V4 m))) (forall ((m Int)) (=> (select V0 m) (select V4 m))))))
(check-sat)

; AppendInt digit loop: for num != 0 { b[i] = num%10+'0'; num/=10; i-- }
; invariant: num == n0 div p10(j), i == endi - j, forall k<j: b[endi-k] == 48 + (n0 div p10(k)) mod 10, 0<=j<=L
; where L = digits(n0): p10(L-1) <= n0 < p10(L)
(define-fun p10 ((k Int)) Int
 (ite (= k 0) 1 (ite (= k 1) 10 (ite (= k 2) 100 (ite (= k 3) 1000 (ite (= k 4) 10000 (ite (= k 5) 100000
 (ite (= k 6) 1000000 (ite (= k 7) 10000000 (ite (= k 8) 100000000 (ite (= k 9) 1000000000 (ite (= k 10) 10000000000
 (ite (= k 11) 100000000000 (ite (= k 12) 1000000000000 (ite (= k 13) 10000000000000 (ite (= k 14) 100000000000000
 (ite (= k 15) 1000000000000000 (ite (= k 16) 10000000000000000 (ite (= k 17) 100000000000000000 (ite (= k 18) 1000000000000000000
 (ite (= k 19) 10000000000000000000 0)))))))))))))))))))))
(declare-const n0 Int) (declare-const L Int) (declare-const j Int) (declare-const num Int) (declare-const i Int) (declare-const endi Int)
(declare-fun b () (Array Int Int))
(assert (and (<= 1 n0) (<= n0 9223372036854775807)))
(assert (and (<= 1 L) (<= L 19) (<= (p10 (- L 1)) n0) (< n0 (p10 L))))
(assert (and (<= 0 j) (<= j L)))
(assert (= num (div n0 (p10 j))))
(assert (= i (- endi j)))
(assert (forall ((k Int)) (=> (and (<= 0 k) (< k j)) (= (select b (- endi k)) (+ 48 (mod (div n0 (p10 k)) 10))))))
(assert (not (= num 0)))  ; loop guard
; body
(define-fun b2 () (Array Int Int) (store b i (+ 48 (mod num 10))))
(define-fun num2 () Int (div num 10))
(define-fun i2 () Int (- i 1))
(define-fun j2 () Int (+ j 1))
; prove invariant preserved with j2
(push)
(assert (not (and (<= j2 L) (= num2 (div n0 (p10 j2))) (= i2 (- endi j2))
   (forall ((k Int)) (=> (and (<= 0 k) (< k j2)) (= (select b2 (- endi k)) (+ 48 (mod (div n0 (p10 k)) 10))))))))
(check-sat)
(pop)
; at exit (num == 0) j == L : separate query

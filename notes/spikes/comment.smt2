; css.Lexer.consumeComment loop body, heap-array encoding, preserves-as-invariant
; heap: Hr[l] = r ; Hptr/Hlen[r] slice of buf; Hpos/Hstart/Herr[r]; M bytes
(declare-fun M () (Array Int Int))      ; byte memory at loop head (havocked copy)
(declare-fun M0 () (Array Int Int))     ; byte memory at function entry
(declare-const l Int) (declare-const r Int)
(declare-const ptr Int) (declare-const blen Int) (declare-const bcap Int)
(declare-const pos0 Int) (declare-const start0 Int)
(declare-const pos Int) (declare-const start Int) (declare-const err Int)
; lexFrame at loop head (assumed): bufInv, start fixed, pos >= pos0, bytes unchanged
(assert (and (> r 0) (> ptr 0) (>= blen 1) (<= blen bcap)))
(assert (= (select M (+ ptr (- blen 1))) 0))
(assert (and (<= 0 start) (<= start pos) (<= pos (- blen 1))))
(assert (= start start0)) (assert (>= pos pos0))
(assert (forall ((a Int)) (! (= (select M a) (select M0 a)) :pattern ((select M a)))))
; body: c := Peek(0)   pre: 0 <= pos+0 <= blen-1  (holds)
(define-fun c () Int (select M (+ ptr pos)))
(assert (and (<= 0 c) (<= c 255)))
; Err(): err != nil ? err : (blen-1 <= pos ? EOF : nil) ; EOF = 1
(define-fun errv () Int (ite (not (= err 0)) err (ite (<= (- blen 1) pos) 1 0)))
; branch 1: !(c == 0 && Err() != nil)
(assert (not (and (= c 0) (not (= errv 0)))))
; branch 2: c == '*' -> Peek(1) precondition: pos+1 <= blen-1
(push)
(assert (= c 42))
(assert (not (<= (+ pos 1) (- blen 1))))
(check-sat)
(pop)
; else path: Move(1) precondition pos+1 <= blen-1 -- requires err==0 reasoning: if c==0 then errv==0 so pos < blen-1; if c != 0 then pos != blen-1
(push)
(assert (not (<= (+ pos 1) (- blen 1))))
(check-sat)
(get-value (c err pos blen))
(pop)

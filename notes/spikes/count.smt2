; EscapeAttrVal-like: t sized n = len+2+4*cnt(len); loop i over b: if b[i]==q { j += (i-start) + 5; start=i+1 }
; invariant: j == 1 + start + 4*cnt(start), start <= i <= len  (cnt(k) = # of q in b[0:k]); need j + (i-start) + 5 <= n-? when b[i]==q
(declare-fun b () (Array Int Int))
(declare-const q Int)
(declare-fun cnt (Int) Int)
(assert (= (cnt 0) 0))
(assert (forall ((k Int)) (! (=> (>= k 0) (= (cnt (+ k 1)) (+ (cnt k) (ite (= (select b k) q) 1 0)))) :pattern ((cnt (+ k 1))))))
(assert (forall ((k Int)) (! (=> (>= k 0) (>= (cnt k) 0)) :pattern ((cnt k)))))
; monotone lemma needed: cnt(k) <= cnt(m) for k<=m  (would be a proved lemma by induction); assume here to test use
(assert (forall ((k Int) (m Int)) (! (=> (and (<= 0 k) (<= k m)) (<= (cnt k) (cnt m))) :pattern ((cnt k) (cnt m)))))
(declare-const len Int) (declare-const i Int) (declare-const start Int) (declare-const j Int) (declare-const n Int)
(assert (and (<= 0 start) (<= start i) (< i len)))
(assert (= n (+ len 2 (* 4 (cnt len)))))
(assert (= j (+ 1 start (* 4 (cnt start)))))
(assert (= (cnt start) (cnt i)))  ; no quote in [start,i)
(assert (= (select b i) q))
; copy(t[j:], b[start:i]) requires j + (i-start) <= n ; then copy 5 bytes: j + (i-start) + 5 <= n
(assert (not (<= (+ j (- i start) 5) (- n 1))))
(check-sat)

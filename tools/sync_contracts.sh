#!/bin/bash
# Copies the contract files from /verif/contracts (mirror, where they are edited) to /repo and commits them there
# as a hook commit (comment-only files behind //go:build verif). Records the commit in /verif/HOOK_COMMITS.txt.
set -e
cd /verif/contracts
find . -name contracts_verif.go | while read f; do
  mkdir -p "/repo/$(dirname "$f")"
  cp "$f" "/repo/$f"
done
cd /repo
git add -A '*contracts_verif.go'
if git diff --cached --quiet; then echo "contracts unchanged"; exit 0; fi
git commit -q -m "verif: contract files for /verif (comment-only, //go:build verif)"
h=$(git log --format=%h -1)
echo "$h contracts_verif.go files (comment-only, build tag verif)" >> /verif/HOOK_COMMITS.txt
echo "committed $h"

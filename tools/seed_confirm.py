#!/usr/bin/env python3
"""Confirm a seeded property-breaking change and run the /verif checks against it.

usage: seed_confirm.py <seed_dir> [--props C01,C02] [--keep]

seed_dir contains patch.diff, a demonstration (demo_test.go) and meta.json as delivered by the seeding agent.
Steps (all in a scratch git worktree of /repo's HEAD outside /repo and /verif, removed afterwards):
  1. the demonstration passes on the unchanged tree
  2. the patch applies; the complete existing suite still passes with it
  3. the demonstration fails with the patch
  4. the registered checks (quick tier) of the given properties are run against the patched tree
The result is written to /verif/seeded/<id>/ (patch.diff, demo, meta.json with what was run and which checks caught it).
"""
import json, os, re, shutil, subprocess, sys, time

VCGO = os.environ.get("VCGO", "/verif/bin/vcgo")
ENV = dict(os.environ, GOFLAGS="-mod=mod", GOPROXY="off", GOSUMDB="off", GOTOOLCHAIN="local")

def run(cmd, cwd=None, timeout=1500):
    p = subprocess.run(cmd, shell=True, cwd=cwd, env=ENV, stdout=subprocess.PIPE, stderr=subprocess.STDOUT, text=True, timeout=timeout)
    return p.returncode, p.stdout

def main():
    seed = os.path.abspath(sys.argv[1])
    props = None
    keep = "--keep" in sys.argv
    for i, a in enumerate(sys.argv):
        if a == "--props":
            props = sys.argv[i + 1].split(",")
    meta = json.load(open(os.path.join(seed, "meta.json")))
    sid = os.path.basename(seed.rstrip("/"))
    prop = meta.get("property", sid.split("-")[0])
    if props is None:
        props = [prop]
    demo_txt = meta.get("demo", "")
    # where does the demo go, and how is it run?
    m = re.search(r"cp\s+\S*demo_test\.go\s+(\S+)", demo_txt)
    dest = m.group(1) if m else "zz_demo_test.go"
    dest = dest.lstrip("./")
    dest = re.sub(r"^/tmp/wt-C\d+/", "", dest)
    tests = re.findall(r"go test ([^;#&\n]*)", demo_txt)
    tests = [t.strip() for t in tests if "-run" in t]
    if not tests:
        tests = ["-vet=off -count=1 ./..."]
    wt = "/var/tmp/sw-" + sid
    run("git -C /repo worktree remove --force %s" % wt)
    shutil.rmtree(wt, ignore_errors=True)
    rc, out = run("git -C /repo worktree add -q --detach %s HEAD" % wt)
    if rc != 0:
        print(out); sys.exit(2)
    res = {"seed": sid, "property": prop, "repo_head": run("git -C /repo log --format=%h -1")[1].strip()}
    try:
        shutil.copy(os.path.join(seed, "demo_test.go"), os.path.join(wt, dest))
        def demo():
            ok = True; log = ""
            for t in tests:
                rc, out = run("go test " + t + " -timeout 300s", cwd=wt, timeout=900)
                log += "$ go test %s\n%s\n" % (t, out[-1500:])
                if rc != 0: ok = False
            return ok, log
        ok0, log0 = demo()
        res["demo_passes_unpatched"] = ok0
        rc, out = run("git apply --whitespace=nowarn %s" % os.path.join(seed, "patch.diff"), cwd=wt)
        res["patch_applies"] = rc == 0
        if rc != 0:
            res["apply_output"] = out[-800:]
            print(json.dumps(res, indent=1)); return res
        ok1, log1 = demo()
        res["demo_fails_patched"] = not ok1
        res["demo_output_patched"] = log1[-1200:]
        os.remove(os.path.join(wt, dest))
        rc, out = run("go test -vet=off -count=1 ./... 2>&1 | tail -15", cwd=wt, timeout=1500)
        res["suite_passes_patched"] = ("FAIL" not in out) and rc == 0
        res["suite_tail"] = out[-600:]
        # run the checks against the patched tree
        caught = {}
        for p in props:
            t0 = time.time()
            ev = "/var/tmp/sw-ev-" + sid
            rc, out = run(VCGO + " check -property %s -tier quick -repo %s -evidence %s -replays %s/replays" % (p, wt, ev, ev), timeout=1500)
            viol = [l for l in out.splitlines() if l.startswith("VIOLATION") or l.startswith("  obligation:")]
            caught[p] = {"exit": rc, "seconds": round(time.time() - t0, 1),
                         "violations": [l.strip().replace(wt + "/", "") for l in viol][:12]}
            shutil.rmtree(ev, ignore_errors=True)
        res["checks"] = caught
        res["detected"] = any(c["exit"] == 1 for c in caught.values())
    finally:
        if not keep:
            run("git -C /repo worktree remove --force %s" % wt)
            shutil.rmtree(wt, ignore_errors=True)
    # store under /verif/seeded/<id>
    confirmed = res.get("demo_passes_unpatched") and res.get("patch_applies") and res.get("demo_fails_patched") and res.get("suite_passes_patched")
    res["confirmed"] = bool(confirmed)
    outdir = "/verif/seeded/" + sid
    if confirmed:
        os.makedirs(outdir, exist_ok=True)
        shutil.copy(os.path.join(seed, "patch.diff"), outdir)
        shutil.copy(os.path.join(seed, "demo_test.go"), outdir)
        meta_out = dict(meta)
        meta_out["demo_destination"] = dest
        meta_out["demo_go_test_args"] = tests
        meta_out["confirmation"] = {k: res[k] for k in ("repo_head", "demo_passes_unpatched", "patch_applies", "demo_fails_patched", "suite_passes_patched")}
        meta_out["what_was_run"] = "scratch worktree of /repo HEAD; demo run unpatched (pass), patch applied, demo run (fail), `go test -vet=off -count=1 ./...` (pass); then `vcgo check -property P -tier quick -repo <scratch>` for P in %s" % props
        meta_out["checks"] = res.get("checks")
        meta_out["detected"] = res.get("detected")
        json.dump(meta_out, open(os.path.join(outdir, "meta.json"), "w"), indent=1)
    print(json.dumps({k: v for k, v in res.items() if k not in ("demo_output_patched", "suite_tail")}, indent=1))
    return res

if __name__ == "__main__":
    main()

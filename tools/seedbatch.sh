#!/bin/bash
export VCGO=/var/tmp/vcgo-stable
cd /verif
run() { prop=$1; id=$2; props=$3; mkdir -p seeded_raw/$prop/$id; cp ${SEEDWT:-/var/tmp/seedwt}/wt-$prop/seeded/$id/* seeded_raw/$prop/$id/ 2>/dev/null; python3 tools/seed_confirm.py seeded_raw/$prop/$id --props $props > /var/tmp/seedlog-$id.json 2>&1; echo "$id: $(grep -m1 '"detected"' /var/tmp/seedlog-$id.json) $(grep -m1 '"confirmed"' /var/tmp/seedlog-$id.json) $(grep -m1 'obligation:' /var/tmp/seedlog-$id.json | cut -c1-120)"; }
for a in "$@"; do IFS=: read prop id props <<< "$a"; run $prop $id $props; done

import json,glob,os,shutil
n=0
for d in sorted(glob.glob('/verif/seeded/*-r[789]-*')):
    sid=os.path.basename(d)
    m=json.load(open(d+'/meta.json'))
    if not m.get('detected'): continue
    if sid in ('C06-r8-1',): continue
    props=[p for p,c in m['checks'].items() if c['exit']==1]
    if not props: continue
    dst='/verif/selftest/mutants/%s-%sseed%s.diff'%(props[0], sid.split('-')[1], sid.split('-')[0]+'_'+sid.split('-')[2])
    shutil.copy(d+'/patch.diff',dst); n+=1
print(n)

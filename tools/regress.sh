#!/bin/bash
# run every registered quick (or $1=thorough) check against /repo's working tree (with the mirror copied in)
tier=${1:-quick}
cd /verif
tools/v list >/dev/null 2>&1
for p in $(python3 -c "import json;print(' '.join(c['property_id'] for c in json.load(open('/verif/MANIFEST.json'))['checks']))") $EXTRA; do
  /usr/bin/time -f "%es" /verif/bin/vcgo check -property $p -tier $tier 2>&1 | tail -4 | grep -v "^$"
done

#!/usr/bin/env python3
"""unsatcore.py q.smt2 : name every top-level assert of a query and print the unsat core (debugging vacuity)."""
import sys, subprocess, re
src = open(sys.argv[1]).read()
out = []; n = 0; names = {}
for line in src.split('\n'):
    if line.startswith('(assert ') and line.endswith(')'):
        n += 1
        body = line[len('(assert '):-1]
        names['a%d' % n] = body
        out.append('(assert (! %s :named a%d))' % (body, n))
    elif line.startswith('(get-value') or line.startswith('(get-model'):
        continue
    elif line.startswith('(check-sat'):
        out.append('(check-sat)\n(get-unsat-core)')
    else:
        out.append(line)
open('/tmp/core.smt2', 'w').write('(set-option :produce-unsat-cores true)\n' + '\n'.join(out))
r = subprocess.run(['z3-new', '-T:60', '/tmp/core.smt2'], capture_output=True, text=True).stdout
print(r.split('\n')[0])
for a in re.findall(r'a\d+', r.split('\n', 1)[1] if '\n' in r else ''):
    print(a, names[a][:400])

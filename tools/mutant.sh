#!/bin/bash
# usage: mutant.sh <patch.diff> <vcgo args...>   e.g. mutant.sh p.diff verify html.Lexer.moveTemplate
# Applies a patch to a scratch copy of /repo (HEAD + working tree) and runs vcgo against the copy; the copy is removed afterwards.
set -e
patch="$1"; shift
d=$(mktemp -d /var/tmp/mut.XXXXXX)
trap 'rm -rf "$d"' EXIT
REPO="${REPO:-/repo}"
(cd "$REPO" && git ls-files -z | xargs -0 cp --parents -t "$d" 2>/dev/null || true)
(cd "$d" && git init -q . >/dev/null 2>&1 && git apply --whitespace=nowarn "$patch") || { echo "PATCH DOES NOT APPLY"; exit 3; }
cmd="$1"; shift
/verif/bin/vcgo "$cmd" -repo "$d" "$@"

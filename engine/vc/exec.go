package vc

import (
	"fmt"
	"go/constant"
	"go/token"
	"go/types"
	"sort"
	"strings"

	"golang.org/x/tools/go/ssa"
)

// unsupportedErr aborts the encoding of a function that uses constructs outside the subset.
type unsupportedErr string

// frame is the symbolic execution of one function body (the function under verification or an inlined callee).
type frame struct {
	fx      *fx
	fn      *ssa.Function
	name    string
	vals    map[ssa.Value]Value
	params  map[string]Value
	entry   *State
	prefix  string // obligation name prefix ("" for the root, "inl(callee)." for inlined frames)
	depth   int
	reach   map[*ssa.BasicBlock]Term
	edge    map[[2]int]Term
	curB    *ssa.BasicBlock
	curReach Term
	contract *Contract
	level   int // facet level of this encoding: 0=S, 1=T, 2=F
	rets    []retInfo
	loopHead map[*loop]*headInfo
	parent  *frame
	innerEntry map[[2]*loop][]Term
	viaFuncParam bool
	ifaceMods    *ModSet
	selfT        Term
	dynSelf      Term
	snaps        map[string]Value
	csHit        map[*CallSite]bool
}

type retInfo struct {
	reach Term
	st    *State
	vals  []Value
	pos   token.Pos
}

type headInfo struct {
	st      *State // havocked header state
	measure []Term
}

var facetLevel = map[string]int{"S": 0, "T": 1, "F": 2}

func (fr *frame) unsupported(format string, a ...interface{}) {
	panic(unsupportedErr(fmt.Sprintf("%s: ", fr.name) + fmt.Sprintf(format, a...)))
}

func (fr *frame) pos(p token.Pos) token.Position {
	if !p.IsValid() {
		p = fr.fn.Pos()
	}
	return fr.fx.E.P.SSA.Fset.Position(p)
}

func (fr *frame) oblige(kind, what string, cond Term, p token.Pos) *Obligation {
	if cond == True {
		return nil
	}
	o := fr.fx.enc.Oblige(fr.fx.root, kind, fr.prefix+what, Implies(fr.curReach, cond), fr.pos(p))
	o.Facet = "S"
	return o
}

// obligeSplit records one obligation per top-level conjunct of cond (better diagnostics, smaller goals).
func (fr *frame) obligeSplit(kind, what string, cond Term, p token.Pos, facet string, tags []string) {
	cs := splitAnd(cond)
	for i, c := range cs {
		w := what
		if len(cs) > 1 {
			w = fmt.Sprintf("%s.c%d", what, i+1)
		}
		if o := fr.oblige(kind, w, c, p); o != nil {
			o.Facet, o.Tags = facet, tags
		}
	}
}

// splitAnd flattens nested top-level conjunctions.
func splitAnd(t Term) []Term {
	if strings.HasPrefix(t, "(=> ") {
		// (=> A (and x y)) splits into (=> A x), (=> A y)
		parts := splitTopLevel(t)
		if len(parts) == 3 && strings.HasPrefix(parts[2], "(and ") {
			var out []Term
			for _, c := range splitAnd(parts[2]) {
				out = append(out, Implies(parts[1], c))
			}
			return out
		}
		return []Term{t}
	}
	if !strings.HasPrefix(t, "(and ") {
		return []Term{t}
	}
	parts := splitTopLevel(t)
	if len(parts) < 2 || parts[0] != "and" {
		return []Term{t}
	}
	var out []Term
	for _, p := range parts[1:] {
		out = append(out, splitAnd(p)...)
	}
	return out
}

func (fr *frame) assume(cond Term) {
	fr.fx.enc.Assume(Implies(fr.curReach, cond))
}

// ---------------------------------------------------------------- operand evaluation

func (fr *frame) val(v ssa.Value) Value {
	switch x := v.(type) {
	case *ssa.Const:
		return fr.constant(x)
	case *ssa.Global:
		return IntV(fr.fx.globalAddr(x), x.Type())
	case *ssa.Function:
		if x.Synthetic != "" {
			// thunks and bound-method wrappers denote the method they wrap
			if obj, ok := x.Object().(*types.Func); ok {
				if m := fr.fx.E.P.SSA.FuncValue(obj); m != nil && len(m.Blocks) > 0 && strings.Contains(x.Name(), "$thunk") {
					return IntV(fr.fx.funcID(FuncName(m)), x.Type())
				}
			}
		}
		return IntV(fr.fx.funcID(FuncName(x)), x.Type())
	case *ssa.Builtin:
		return IntV("0", x.Type())
	}
	if r, ok := fr.vals[v]; ok {
		return r
	}
	fr.unsupported("use of undefined SSA value %s (%T)", v.Name(), v)
	return Value{}
}

func (fr *frame) constant(c *ssa.Const) Value {
	T := c.Type()
	if c.Value == nil {
		return fr.fx.zero(T)
	}
	if isFloatType(T) {
		return IntV(fr.fx.floatConst(c.Value.ExactString()), T)
	}
	if c.Value.Kind() == constant.Float {
		return IntV(fr.fx.floatConst(c.Value.ExactString()), T)
	}
	v := fr.fx.constValue(c.Value, T)
	v.Typ = T
	return v
}

// ---------------------------------------------------------------- addresses

// loc describes where a pointer-typed SSA value points, for loads and stores.
type loc struct {
	cell *ssa.Alloc // non-escaping local
	glob *ssa.Global
	addr Term
	key  string
	T    types.Type
}

func (fr *frame) locOf(p ssa.Value) loc {
	pt, ok := under(p.Type()).(*types.Pointer)
	if !ok {
		fr.unsupported("dereference of non-pointer %v", p.Type())
	}
	T := pt.Elem()
	switch a := p.(type) {
	case *ssa.Alloc:
		if isCell(a) {
			return loc{cell: a, T: T}
		}
	case *ssa.Global:
		return loc{glob: a, T: T, addr: fr.fx.globalAddr(a), key: "M." + typeKey(T)}
	case *ssa.FieldAddr:
		sT := a.X.Type().(*types.Pointer).Elem()
		st := under(sT).(*types.Struct)
		return loc{addr: fr.val(a).T, key: "H." + structKey(sT) + "." + st.Field(a.Field).Name(), T: T}
	}
	return loc{addr: fr.val(p).T, key: "M." + typeKey(T), T: T}
}

func (fr *frame) load(st *State, p ssa.Value, pos token.Pos) Value {
	l := fr.locOf(p)
	if l.cell != nil {
		v, ok := st.Cells[l.cell]
		if !ok {
			return fr.fx.zero(l.T)
		}
		return v
	}
	if l.glob != nil {
		return fr.fx.loadGlobal(st, l.glob)
	}
	fr.nilCheck(p, l.addr, pos)
	return fr.fx.loadAt(st, l.addr, l.T, l.key)
}

func (fr *frame) nilCheck(p ssa.Value, addr Term, pos token.Pos) {
	switch p.(type) {
	case *ssa.FieldAddr, *ssa.IndexAddr, *ssa.Alloc, *ssa.Global:
		return // checked when the address was formed / never nil
	}
	fr.oblige("nil", exprName(p), Ne(addr, "0"), pos)
	fr.commaOkCheck(p, addr, pos)
}

// commaOkCheck: a pointer obtained from a comma-ok type assertion is dereferenced only where ok is known to be true
// (on the other paths it is the zero value, nil). Needs no annotation: the obligation is the assertion's own ok flag.
func (fr *frame) commaOkCheck(p ssa.Value, addr Term, pos token.Pos) {
	if okT, found := fr.fx.commaOk[addr]; found {
		fr.oblige("commaok", exprName(p), okT, pos)
	}
}

func (fr *frame) store(st *State, p ssa.Value, v Value, pos token.Pos) {
	l := fr.locOf(p)
	if l.cell != nil {
		v.Typ = l.T
		st.Cells[l.cell] = v
		return
	}
	if l.glob != nil && fr.fx.E.immGlobal[l.glob] {
		fr.unsupported("store to immutable global %s", l.glob.Name())
	}
	fr.nilCheck(p, l.addr, pos)
	fr.fx.storeAt(st, l.addr, l.T, l.key, v)
}

// exprName gives a short stable name for an SSA value, used in obligation names.
func exprName(v ssa.Value) string {
	switch x := v.(type) {
	case *ssa.Alloc:
		if x.Comment != "" {
			return x.Comment
		}
	case *ssa.Parameter:
		return x.Name()
	case *ssa.FieldAddr:
		st := under(x.X.Type().(*types.Pointer).Elem()).(*types.Struct)
		return exprName(x.X) + "." + st.Field(x.Field).Name()
	case *ssa.Field:
		st := under(x.X.Type()).(*types.Struct)
		return exprName(x.X) + "." + st.Field(x.Field).Name()
	case *ssa.UnOp:
		if x.Op == token.MUL {
			return exprName(x.X)
		}
	case *ssa.IndexAddr:
		return exprName(x.X) + "[]"
	case *ssa.Global:
		return x.Name()
	case *ssa.Call:
		if f := x.Call.StaticCallee(); f != nil {
			return f.Name() + "()"
		}
		if x.Call.IsInvoke() {
			return x.Call.Method.Name() + "()"
		}
	case *ssa.Slice:
		return exprName(x.X) + "[:]"
	case *ssa.Extract:
		return exprName(x.Tuple)
	case *ssa.TypeAssert:
		return exprName(x.X)
	case *ssa.Const:
		return "const"
	}
	return "tmp"
}

// ---------------------------------------------------------------- state merging

func (fr *frame) mergeStates(ins []inEdge) *State {
	fx := fr.fx
	if len(ins) == 1 {
		return ins[0].st.Clone()
	}
	out := NewState()
	// cells
	cellKeys := map[interface{}]bool{}
	for _, in := range ins {
		for k := range in.st.Cells {
			cellKeys[k] = true
		}
	}
	// deterministic order
	var allocs []*ssa.Alloc
	for k := range cellKeys {
		allocs = append(allocs, k.(*ssa.Alloc))
	}
	sort.Slice(allocs, func(i, j int) bool { return allocs[i].Pos() < allocs[j].Pos() || (allocs[i].Pos() == allocs[j].Pos() && allocs[i].Name() < allocs[j].Name()) })
	for _, a := range allocs {
		var vs []Value
		for _, in := range ins {
			v, ok := in.st.Cells[a]
			if !ok {
				v = fx.zero(a.Type().(*types.Pointer).Elem())
			}
			vs = append(vs, v)
		}
		out.Cells[a] = fr.mergeValues(a.Comment, vs, ins)
	}
	heapKeys := map[string]bool{}
	for _, in := range ins {
		for k := range in.st.Heap {
			heapKeys[k] = true
		}
	}
	var hk []string
	for k := range heapKeys {
		hk = append(hk, k)
	}
	sort.Strings(hk)
	for _, k := range hk {
		t := fx.heapOf(ins[len(ins)-1].st, k)
		same := true
		for _, in := range ins {
			if fx.heapOf(in.st, k) != t {
				same = false
			}
		}
		if same {
			out.Heap[k] = t
			continue
		}
		for i := len(ins) - 2; i >= 0; i-- {
			t = Ite(ins[i].cond, fx.heapOf(ins[i].st, k), t)
		}
		out.Heap[k] = fx.enc.Def(k, fx.heapSort(k), t)
	}
	// brk
	b := fx.brkOf(ins[len(ins)-1].st)
	same := true
	for _, in := range ins {
		if fx.brkOf(in.st) != b {
			same = false
		}
	}
	if !same {
		for i := len(ins) - 2; i >= 0; i-- {
			b = Ite(ins[i].cond, fx.brkOf(ins[i].st), b)
		}
		b = fx.enc.Def("brk", "Int", b)
	}
	out.Brk = b
	return out
}

type inEdge struct {
	cond Term
	st   *State
}

func (fr *frame) mergeValues(name string, vs []Value, ins []inEdge) Value {
	base := vs[len(vs)-1]
	ts := base.terms()
	sorts := base.sorts()
	shapeOK := true
	for _, v := range vs {
		if len(v.terms()) != len(ts) {
			shapeOK = false
		}
	}
	if !shapeOK {
		// different shapes (e.g. zero struct vs value): fall back to the last one conservatively by havoc
		return fr.fx.sym("merge."+name, base.Typ)
	}
	out := make([]Term, len(ts))
	for j := range ts {
		t := ts[j]
		same := true
		for _, v := range vs {
			if v.terms()[j] != t {
				same = false
			}
		}
		if !same {
			for i := len(vs) - 2; i >= 0; i-- {
				t = Ite(ins[i].cond, vs[i].terms()[j], t)
			}
			t = fr.fx.enc.Def("phi."+name, sorts[j], t)
		}
		out[j] = t
	}
	r, _ := base.rebuild(out)
	return r
}

// ---------------------------------------------------------------- running a function body

// run executes the body from the given entry state; it returns the merged exit state, results and exit reachability.
func (fr *frame) run(entry *State, reach0 Term) (*State, []Value, Term) {
	fx := fr.fx
	fn := fr.fn
	if len(fn.Blocks) == 0 {
		fr.unsupported("function without body")
	}
	li := fx.E.loops(fn)
	if li.irreducible {
		fr.unsupported("irreducible control flow")
	}
	fr.reach = map[*ssa.BasicBlock]Term{}
	fr.edge = map[[2]int]Term{}
	fr.loopHead = map[*loop]*headInfo{}
	out := map[*ssa.BasicBlock]*State{}
	for _, b := range li.order {
		var ins []inEdge
		if b == fn.Blocks[0] {
			ins = append(ins, inEdge{reach0, entry})
		}
		for _, p := range b.Preds {
			if li.back[[2]int{p.Index, b.Index}] {
				continue
			}
			ec, ok := fr.edge[[2]int{p.Index, b.Index}]
			if !ok || ec == False {
				continue
			}
			ins = append(ins, inEdge{ec, out[p]})
		}
		if len(ins) == 0 {
			fr.reach[b] = False
			continue
		}
		var conds []Term
		for _, in := range ins {
			conds = append(conds, in.cond)
		}
		reach := fx.enc.Def(fmt.Sprintf("reach.%s%d", fr.prefixTag(), b.Index), "Bool", Or(conds...))
		fr.reach[b] = reach
		fr.curB, fr.curReach = b, reach
		st := fr.mergeStates(ins)
		if l := li.byHeader[b]; l != nil {
			st = fr.enterLoop(l, st)
		}
		fr.block(b, st, li)
		out[b] = st
	}
	// merge returns
	if len(fr.rets) == 0 {
		return entry.Clone(), nil, False
	}
	var ins []inEdge
	var conds []Term
	for _, r := range fr.rets {
		ins = append(ins, inEdge{r.reach, r.st})
		conds = append(conds, r.reach)
	}
	exitReach := fx.enc.Def("exit."+fr.prefixTag(), "Bool", Or(conds...))
	fr.curReach = exitReach
	exit := fr.mergeStates(ins)
	var results []Value
	for i := range fr.rets[0].vals {
		var vs []Value
		for _, r := range fr.rets {
			vs = append(vs, r.vals[i])
		}
		results = append(results, fr.mergeValues(fmt.Sprintf("result%d", i), vs, ins))
	}
	return exit, results, exitReach
}

func (fr *frame) prefixTag() string {
	if fr.prefix == "" {
		return ""
	}
	return fmt.Sprintf("d%d.", fr.depth)
}

// block executes the instructions of one basic block.
func (fr *frame) block(b *ssa.BasicBlock, st *State, li *loopInfo) {
	fx := fr.fx
	for _, ins := range b.Instrs {
		switch x := ins.(type) {
		case *ssa.DebugRef:
		case *ssa.Alloc:
			fr.alloc(x, st)
		case *ssa.Store:
			fr.store(st, x.Addr, fr.val(x.Val), x.Pos())
			fr.maybeSnapshot(x)
		case *ssa.UnOp:
			fr.vals[x] = fr.unop(x, st)
		case *ssa.BinOp:
			fr.vals[x] = fr.binop(x)
		case *ssa.Call:
			fr.vals[x] = fr.call(x, x.Common(), st)
		case *ssa.FieldAddr:
			base := fr.val(x.X)
			fr.oblige("nil", exprName(x.X), Ne(base.T, "0"), x.Pos())
			fr.commaOkCheck(x.X, base.T, x.Pos())
			sT := x.X.Type().(*types.Pointer).Elem()
			off := fieldOffset(under(sT).(*types.Struct), x.Field)
			fr.vals[x] = IntV(fx.enc.Def("fa", "Int", Add(base.T, Num(off))), x.Type())
			fr.checkFieldAddrEscape(x)
		case *ssa.Field:
			base := fr.val(x.X)
			if base.Kind != KStruct || x.Field >= len(base.Elems) {
				fr.unsupported("field of non-struct value")
			}
			fr.vals[x] = base.Elems[x.Field]
		case *ssa.IndexAddr:
			fr.vals[x] = fr.indexAddr(x)
		case *ssa.Index:
			fr.vals[x] = fr.indexVal(x, st)
		case *ssa.Lookup:
			fr.vals[x] = fr.lookup(x, st)
		case *ssa.Slice:
			fr.vals[x] = fr.slice(x)
		case *ssa.Convert:
			fr.vals[x] = fr.convert(x, st)
		case *ssa.ChangeType:
			v := fr.val(x.X)
			v.Typ = x.Type()
			fr.vals[x] = v
		case *ssa.ChangeInterface:
			v := fr.val(x.X)
			v.Typ = x.Type()
			fr.vals[x] = v
		case *ssa.MakeInterface:
			fr.vals[x] = fr.makeInterface(x, st)
		case *ssa.TypeAssert:
			fr.vals[x] = fr.typeAssert(x, st)
		case *ssa.Extract:
			t := fr.val(x.Tuple)
			if t.Kind != KTuple || x.Index >= len(t.Elems) {
				fr.unsupported("extract from non-tuple")
			}
			fr.vals[x] = t.Elems[x.Index]
		case *ssa.Phi:
			fr.vals[x] = fr.phi(x, li)
		case *ssa.MakeSlice:
			fr.vals[x] = fr.makeSlice(x, st)
		case *ssa.MakeClosure:
			// a bound method value (recv.Method) is identified with the method, like a method expression
			if w, ok := x.Fn.(*ssa.Function); ok && strings.HasSuffix(w.Name(), "$bound") && len(x.Bindings) == 1 {
				if obj, isf := w.Object().(*types.Func); isf {
					if m := fx.E.P.SSA.FuncValue(obj); m != nil {
						fr.vals[x] = IntV(fx.funcID(FuncName(m)), x.Type())
						break
					}
				}
			}
			id := fx.enc.Decl("closure", "Int")
			fx.enc.Assume(Gt(id, "0"))
			fr.vals[x] = IntV(id, x.Type())
		case *ssa.MakeMap:
			id := fx.enc.Decl("map", "Int")
			fx.enc.Assume(Gt(id, "0"))
			fr.vals[x] = IntV(id, x.Type())
		case *ssa.MapUpdate:
			fx.note("map contents are opaque (updates ignored, lookups unconstrained)")
		case *ssa.Range:
			fr.vals[x] = IntV(fx.enc.Decl("iter", "Int"), x.Type())
		case *ssa.Next:
			fr.vals[x] = fx.sym("next", x.Type())
			fx.note("range over map/string: iteration values unconstrained")
		case *ssa.Return:
			var vs []Value
			for _, r := range x.Results {
				vs = append(vs, fr.val(r))
			}
			fr.rets = append(fr.rets, retInfo{fr.curReach, st.Clone(), vs, x.Pos()})
		case *ssa.RunDefers:
			fr.runDefers(st)
		case *ssa.Defer:
			fr.deferCall(x, st)
		case *ssa.Panic:
			fr.oblige("panic", "explicit", False, x.Pos())
		case *ssa.Jump:
			fr.setEdge(b, b.Succs[0], fr.curReach, st, li)
		case *ssa.If:
			c := fr.val(x.Cond)
			cn := fx.enc.Def("cond", "Bool", c.T)
			fr.setEdge(b, b.Succs[0], And(fr.curReach, cn), st, li)
			fr.setEdge(b, b.Succs[1], And(fr.curReach, Not(cn)), st, li)
		case *ssa.Go, *ssa.Select, *ssa.Send, *ssa.MakeChan:
			fr.unsupported("concurrency construct %T", ins)
		default:
			fr.unsupported("instruction %T", ins)
		}
	}
}

func (fr *frame) setEdge(from, to *ssa.BasicBlock, cond Term, st *State, li *loopInfo) {
	key := [2]int{from.Index, to.Index}
	if prev, ok := fr.edge[key]; ok {
		cond = Or(prev, cond) // both branches of an If to the same block
	}
	fr.edge[key] = cond
	if li.back[key] {
		fr.backEdge(li.byHeader[to], cond, st)
	}
}

func (fr *frame) checkFieldAddrEscape(x *ssa.FieldAddr) {
	T := x.Type().(*types.Pointer).Elem()
	switch under(T).(type) {
	case *types.Struct, *types.Array:
		return
	}
	for _, r := range *x.Referrers() {
		switch u := r.(type) {
		case *ssa.Store:
			if u.Addr == x && u.Val != x {
				continue
			}
		case *ssa.UnOp:
			continue
		case *ssa.DebugRef:
			continue
		}
		fr.unsupported("address of scalar field %s escapes", exprName(x))
	}
}

func (fr *frame) alloc(a *ssa.Alloc, st *State) {
	fx := fr.fx
	T := a.Type().(*types.Pointer).Elem()
	if isCell(a) {
		st.Cells[a] = fx.zero(T)
		fr.vals[a] = IntV("0", a.Type())
		return
	}
	addr := fr.freshAddr(st, a.Comment, Num(size(T)))
	fr.vals[a] = IntV(addr, a.Type())
	// zero-initialise
	if arr, ok := under(T).(*types.Array); ok {
		if arr.Len() <= 16 {
			for i := int64(0); i < arr.Len(); i++ {
				fx.storeAt(st, Add(addr, Num(i*size(arr.Elem()))), arr.Elem(), "M."+typeKey(arr.Elem()), fx.zero(arr.Elem()))
			}
		} else {
			fx.note("large local array: initial zero contents not modelled")
		}
		return
	}
	fx.storeAt(st, addr, T, "M."+typeKey(T), fx.zero(T))
}

func (fr *frame) freshAddr(st *State, name string, sz Term) Term {
	fx := fr.fx
	a := fx.enc.Decl("new."+name, "Int")
	fx.enc.Assume(And(Ge(a, fx.brkOf(st)), Gt(a, "0")))
	st.Brk = fx.enc.Def("brk", "Int", Add(a, sz))
	return a
}

// ---------------------------------------------------------------- loops

func (fr *frame) loopClauses(l *loop) (invs []*Clause, decs []*Clause) {
	c := fr.contract
	if c == nil {
		return nil, nil
	}
	for _, p := range c.Preserves {
		invs = append(invs, p)
	}
	for _, iv := range c.LoopInv {
		if iv.Loop == 0 || iv.Loop == l.ord {
			invs = append(invs, iv)
		}
	}
	for _, d := range c.LoopDec {
		if d.Loop == 0 || d.Loop == l.ord {
			decs = append(decs, d)
		}
	}
	if fr.prefix == "" {
		for _, cd := range c.LoopCand {
			if (cd.Loop == 0 || cd.Loop == l.ord) && fr.fx.candActive[CandKey{cd, l.ord}] {
				invs = append(invs, cd)
			}
		}
	}
	return
}

func (fr *frame) clauseActive(c *Clause) bool {
	return facetLevel[c.Facet] <= fr.level
}

func (fr *frame) enterLoop(l *loop, st *State) *State {
	fx := fr.fx
	invs, decs := fr.loopClauses(l)
	ev := fr.env(st, fr.entry, l)
	for _, c := range invs {
		if !fr.clauseActive(c) || c.Kind == "transition" {
			continue
		}
		t, err := ev.EvalBool(c.E)
		if err != nil {
			if c.Kind == "candidate" {
				fx.candFail[CandKey{c, l.ord}] = true
				continue
			}
			fr.specError(c, err)
			continue
		}
		if c.Kind == "assume" {
			fx.note("ASSUMED without proof at loop %d of %s: %s", l.ord, fr.name, c.Src)
			continue
		}
		if c.Kind == "derived" || c.Kind == "transition" {
			continue
		}
		if facetLevel[c.Facet] == fr.level {
			n0 := len(fx.enc.Obls)
			fr.obligeSplit("inv-entry", fmt.Sprintf("loop%d.%s", l.ord, clauseName(c)), t, l.header.Instrs[0].Pos(), c.Facet, c.Tags)
			if c.Kind == "candidate" {
				for _, o := range fx.enc.Obls[n0:] {
					o.Cand = &CandKey{c, l.ord}
				}
			}
		}
	}
	// enclosing loops' measures must not increase inside this loop (implicit invariant, checked like any other)
	outer := fr.enclosing(l)
	for _, L := range outer {
		fr.nestedVariant(L, l, st, "inv-entry")
	}
	// havoc what the loop modifies
	ns := st.Clone()
	cells, keys, all := fr.loopMods(l)
	for _, a := range cells {
		if _, ok := ns.Cells[a]; ok || true {
			ns.Cells[a] = fx.sym("loop."+a.Comment, a.Type().(*types.Pointer).Elem())
		}
	}
	if all {
		fr.unsupported("loop %d calls code with unknown effects", l.ord)
	}
	fx.havocKeys(ns, keys)
	if len(keys) > 0 || true {
		// allocation frontier may have advanced
		nb := fx.enc.Decl("brk.loop", "Int")
		fx.enc.Assume(Ge(nb, fx.brkOf(st)))
		ns.Brk = nb
	}
	// whatever a loop-modified local refers to at the loop head has been allocated by then
	for _, a := range cells {
		if v, ok := ns.Cells[a]; ok {
			fx.assumeBelowBrk(v, ns)
		}
	}
	ev2 := fr.env(ns, fr.entry, l)
	for _, c := range invs {
		if !fr.clauseActive(c) {
			continue
		}
		if c.Kind == "candidate" && fx.candFail[CandKey{c, l.ord}] {
			continue
		}
		if c.Kind == "transition" {
			continue
		}
		if t, err := ev2.EvalBool(c.E); err == nil {
			if c.Kind == "derived" && facetLevel[c.Facet] == fr.level {
				fr.obligeSplit("inv-derived", fmt.Sprintf("loop%d.%s", l.ord, clauseName(c)), t, l.header.Instrs[0].Pos(), c.Facet, c.Tags)
			}
			fr.assume(t)
		} else if c.Kind == "derived" {
			fr.specError(c, err)
		}
	}
	for _, L := range outer {
		fr.nestedVariant(L, l, ns, "assume")
	}
	hi := &headInfo{st: ns.Clone()}
	for _, d := range decs {
		t, err := ev2.EvalInt(d.E)
		if err != nil {
			fr.specError(d, err)
			continue
		}
		hi.measure = append(hi.measure, fx.enc.Def("measure", "Int", t))
	}
	fr.loopHead[l] = hi
	if len(decs) == 0 && fr.prefix == "" {
		fx.note("termination of loop %d in %s is not proved (no decreases clause)", l.ord, fr.name)
	}
	return ns
}

func (fr *frame) backEdge(l *loop, cond Term, st *State) {
	saved := fr.curReach
	fr.curReach = cond
	defer func() { fr.curReach = saved }()
	invs, decs := fr.loopClauses(l)
	ev := fr.env(st, fr.entry, l)
	for _, c := range invs {
		if !fr.clauseActive(c) || facetLevel[c.Facet] != fr.level {
			continue
		}
		if c.Kind == "candidate" && fr.fx.candFail[CandKey{c, l.ord}] {
			continue
		}
		if c.Kind == "assume" || c.Kind == "derived" {
			continue
		}
		if c.Kind == "transition" {
			hi := fr.loopHead[l]
			if hi == nil {
				continue
			}
			tev := fr.env(st, fr.entry, l)
			tev.prevSt, tev.prevLoop = hi.st, l
			t, err := tev.EvalBool(c.E)
			if err != nil {
				fr.specError(c, err)
				continue
			}
			fr.obligeSplit("inv-transition", fmt.Sprintf("loop%d.%s", l.ord, clauseName(c)), t, l.header.Instrs[0].Pos(), c.Facet, c.Tags)
			continue
		}
		t, err := ev.EvalBool(c.E)
		if err != nil {
			if c.Kind == "candidate" {
				fr.fx.candFail[CandKey{c, l.ord}] = true
				continue
			}
			fr.specError(c, err)
			continue
		}
		n0 := len(fr.fx.enc.Obls)
		fr.obligeSplit("inv-step", fmt.Sprintf("loop%d.%s", l.ord, clauseName(c)), t, l.header.Instrs[0].Pos(), c.Facet, c.Tags)
		if c.Kind == "candidate" {
			for _, o := range fr.fx.enc.Obls[n0:] {
				o.Cand = &CandKey{c, l.ord}
			}
		}
	}
	if fr.level == 0 {
		for _, L := range fr.enclosing(l) {
			fr.nestedVariant(L, l, st, "inv-step")
		}
	}
	hi := fr.loopHead[l]
	if hi != nil && fr.level == 0 {
		for i, d := range decs {
			if i >= len(hi.measure) {
				break
			}
			t, err := ev.EvalInt(d.E)
			if err != nil {
				fr.specError(d, err)
				continue
			}
			if o := fr.oblige("variant", fmt.Sprintf("loop%d", l.ord), And(Le("0", hi.measure[i]), Lt(t, hi.measure[i])), l.header.Instrs[0].Pos()); o != nil {
				o.Tags = d.Tags
			}
		}
	}
}

func clauseName(c *Clause) string {
	if c.Label != "" {
		return c.Label
	}
	return fmt.Sprintf("%s%d", c.Kind, c.Ord)
}

func (fr *frame) specError(c *Clause, err error) {
	o := fr.fx.enc.Oblige(fr.fx.root, "spec-error", fr.prefix+clauseName(c), False, token.Position{Filename: c.File, Line: c.Line})
	o.Facet = c.Facet
	o.Tags = c.Tags
	fr.fx.enc.Comment("spec error: " + err.Error())
	fr.fx.unsupported = append(fr.fx.unsupported, fmt.Sprintf("%s:%d: %v", c.File, c.Line, err))
}

// loopMods lists the local cells and heap arrays a loop body may modify.
func (fr *frame) loopMods(l *loop) (cells []*ssa.Alloc, keys []string, all bool) {
	E := fr.fx.E
	cs := map[*ssa.Alloc]bool{}
	ks := map[string]bool{}
	for b := range l.body {
		for _, ins := range b.Instrs {
			switch x := ins.(type) {
			case *ssa.Alloc:
				if isCell(x) {
					cs[x] = true
				}
			case *ssa.Store:
				if a, ok := x.Addr.(*ssa.Alloc); ok && isCell(a) {
					cs[a] = true
				} else {
					for _, k := range storeKeys(x.Addr) {
						ks[k] = true
					}
				}
			case ssa.CallInstruction:
				m := E.callMods(x.Common())
				if m.All {
					all = true
				}
				for k := range m.Keys {
					ks[k] = true
				}
			}
		}
	}
	for a := range cs {
		cells = append(cells, a)
	}
	sort.Slice(cells, func(i, j int) bool { return cells[i].Name() < cells[j].Name() })
	for k := range ks {
		keys = append(keys, k)
	}
	sort.Strings(keys)
	return
}

// callMods is the write effect of one call site.
func (E *Engine) callMods(c *ssa.CallCommon) *ModSet {
	m := &ModSet{Keys: map[string]bool{}}
	if bi, ok := c.Value.(*ssa.Builtin); ok {
		switch bi.Name() {
		case "append", "copy":
			if sl, ok := under(c.Args[0].Type()).(*types.Slice); ok {
				m.add(leafKeysOf(sl.Elem(), "M."+typeKey(sl.Elem()), map[string]bool{})...)
			}
		}
		return m
	}
	targets, ext, dyn := E.callTargets(c)
	m.add(E.ghostKeysOfCall(c)...)
	if ext != nil {
		m.union(E.externalModset(ext, c.Args))
	}
	if dyn {
		m.union(E.externalModset(nil, c.Args))
	}
	for _, t := range targets {
		m.union(E.modset(t))
	}
	return m
}

// ---------------------------------------------------------------- contract environments

// env builds the evaluation environment of this frame's contract clauses.
func (fr *frame) env(cur, old *State, l *loop) *Env {
	ev := &Env{fr: fr, vars: map[string]Value{}, cur: cur, old: old, nq: &fr.fx.nq}
	if fr.fn.Pkg != nil {
		ev.pkg = fr.fn.Pkg.Pkg
	} else if fr.fn.Parent() != nil && fr.fn.Parent().Pkg != nil {
		ev.pkg = fr.fn.Parent().Pkg.Pkg
	}
	for k, v := range fr.params {
		ev.vars[k] = v
	}
	if fr.contract != nil && fr.prefix == "" {
		for _, sn := range fr.contract.Snapshots {
			if _, clash := ev.vars[sn.Name]; !clash {
				ev.vars[sn.Name] = fr.snapValue(sn)
			}
		}
	}
	// positional aliases (used by interface contracts): recv, arg0, arg1, ...
	if fr.fn != nil {
		off := 0
		if fr.fn.Signature.Recv() != nil && len(fr.fn.Params) > 0 {
			if v, ok := fr.params[fr.fn.Params[0].Name()]; ok {
				if _, clash := ev.vars["recv"]; !clash {
					ev.vars["recv"] = v
				}
			}
			off = 1
		}
		for i := off; i < len(fr.fn.Params); i++ {
			if v, ok := fr.params[fr.fn.Params[i].Name()]; ok {
				an := fmt.Sprintf("arg%d", i-off)
				if _, clash := ev.vars[an]; !clash {
					ev.vars[an] = v
				}
			}
		}
	}
	ev.local = func(name string) (Value, bool) {
		return fr.localValue(name, cur, l)
	}
	ev.preferLocals = l != nil
	ev.selfT = fr.selfT
	return ev
}

func (fr *frame) localValue(name string, st *State, l *loop) (Value, bool) {
	ord := 0
	if k := strings.Index(name, "#"); k >= 0 {
		fmt.Sscanf(name[k+1:], "%d", &ord)
		name = name[:k]
	}
	var cands []*ssa.Alloc
	for _, b := range fr.fn.Blocks {
		for _, ins := range b.Instrs {
			if a, ok := ins.(*ssa.Alloc); ok && a.Comment == name {
				cands = append(cands, a)
			}
		}
	}
	if len(cands) == 0 {
		return Value{}, false
	}
	sort.Slice(cands, func(i, j int) bool { return cands[i].Pos() < cands[j].Pos() })
	var pick *ssa.Alloc
	if ord > 0 && ord <= len(cands) {
		pick = cands[ord-1]
	} else {
		// prefer a candidate that is live (has a value) in the state
		for _, a := range cands {
			if isCell(a) {
				if _, ok := st.Cells[a]; ok {
					pick = a
				}
			} else if _, ok := fr.vals[a]; ok {
				pick = a
			}
		}
		if pick == nil {
			pick = cands[0]
		}
	}
	T := pick.Type().(*types.Pointer).Elem()
	if isCell(pick) {
		v, ok := st.Cells[pick]
		if !ok {
			return fr.fx.zero(T), true
		}
		v.Typ = T
		return v, true
	}
	av, ok := fr.vals[pick]
	if !ok {
		return Value{}, false
	}
	return fr.fx.loadAt(st, av.T, T, "M."+typeKey(T)), true
}

var _ = strings.Contains

// enclosing lists the loops that strictly contain l.
func (fr *frame) enclosing(l *loop) []*loop {
	li := fr.fx.E.loops(fr.fn)
	var out []*loop
	for _, L := range li.loops {
		if L != l && L.body[l.header] {
			out = append(out, L)
		}
	}
	return out
}

// nestedVariant handles the implicit invariant of an inner loop that the measure of an enclosing loop L does not
// grow: relative to its value d_in at the inner loop's entry (so a strict decrease before the inner loop survives it).
func (fr *frame) nestedVariant(L, inner *loop, st *State, mode string) {
	hi := fr.loopHead[L]
	if hi == nil || len(hi.measure) == 0 {
		return
	}
	_, decs := fr.loopClauses(L)
	ev := fr.env(st, fr.entry, L)
	key := [2]*loop{L, inner}
	if fr.innerEntry == nil {
		fr.innerEntry = map[[2]*loop][]Term{}
	}
	for i, d := range decs {
		if i >= len(hi.measure) {
			break
		}
		t, err := ev.EvalInt(d.E)
		if err != nil {
			continue
		}
		switch mode {
		case "inv-entry":
			din := fr.fx.enc.Def("measure.in", "Int", t)
			for len(fr.innerEntry[key]) <= i {
				fr.innerEntry[key] = append(fr.innerEntry[key], "")
			}
			fr.innerEntry[key][i] = din
		case "assume":
			if i < len(fr.innerEntry[key]) && fr.innerEntry[key][i] != "" {
				fr.assume(Le(t, fr.innerEntry[key][i]))
			}
		default:
			if i < len(fr.innerEntry[key]) && fr.innerEntry[key][i] != "" {
				fr.oblige(mode, fmt.Sprintf("loop%d.outer-measure-loop%d", inner.ord, L.ord), Le(t, fr.innerEntry[key][i]), inner.header.Instrs[0].Pos())
			}
		}
	}
}

// ghostKeysOfCall: the ghost-state arrays (G.*) an interface method call changes according to its contract.
func (E *Engine) ghostKeysOfCall(c *ssa.CallCommon) []string {
	if !c.IsInvoke() {
		return nil
	}
	ict := E.S.Contracts[ifaceKey(c.Value.Type(), c.Method.Name())]
	if ict == nil {
		return nil
	}
	var out []string
	for _, k := range ict.Modifies {
		if strings.HasPrefix(k, "G.") {
			out = append(out, k)
		}
	}
	return out
}

// snapValue returns the ghost constant of a snapshot (declared on first use).
func (fr *frame) snapValue(sn Snapshot) Value {
	if fr.snaps == nil {
		fr.snaps = map[string]Value{}
	}
	if v, ok := fr.snaps[sn.Name]; ok {
		return v
	}
	v := IntV(fr.fx.enc.Decl("snap."+sn.Name, "Int"), tInt)
	fr.snaps[sn.Name] = v
	return v
}

// maybeSnapshot ties a snapshot constant to the value stored by the assignment it names.
func (fr *frame) maybeSnapshot(x *ssa.Store) {
	ct := fr.contract
	if ct == nil || len(ct.Snapshots) == 0 || fr.prefix != "" {
		return
	}
	a, ok := x.Addr.(*ssa.Alloc)
	if !ok {
		return
	}
	for _, sn := range ct.Snapshots {
		if sn.Var != a.Comment {
			continue
		}
		var stores []*ssa.Store
		for _, b := range fr.fn.Blocks {
			for _, ins := range b.Instrs {
				if s, ok := ins.(*ssa.Store); ok {
					if sa, ok := s.Addr.(*ssa.Alloc); ok && sa.Comment == sn.Var {
						stores = append(stores, s)
					}
				}
			}
		}
		sort.SliceStable(stores, func(i, j int) bool { return stores[i].Pos() < stores[j].Pos() })
		if sn.K > len(stores) {
			fr.unsupported("snapshot %s: variable %s has only %d assignments", sn.Name, sn.Var, len(stores))
			continue
		}
		if stores[sn.K-1] != x {
			continue
		}
		li := fr.fx.E.loops(fr.fn)
		for _, l := range li.loops {
			if l.body[x.Block()] {
				fr.unsupported("snapshot %s: assignment %d of %s is inside a loop", sn.Name, sn.K, sn.Var)
			}
		}
		v := fr.val(x.Val)
		if v.Kind != KInt {
			fr.unsupported("snapshot %s: only scalar variables", sn.Name)
			continue
		}
		fr.assume(Eq(fr.snapValue(sn).T, v.T))
	}
}

package vc

import (
	"encoding/json"
	"fmt"
	"go/types"
	"os"
	"os/exec"
	"path/filepath"
	"sort"
	"strconv"
	"strings"

	"golang.org/x/tools/go/ssa"
)

const probeElems = 40

// addProbes records, for every parameter of the function under verification, the terms whose model values
// describe the pre-state (scalars, struct fields through entry heap arrays, the first elements of slices).
func (fx *fx) addProbes(fn *ssa.Function, params map[string]Value) []Probe {
	var ps []Probe
	seen := map[string]bool{}
	var walk func(label string, v Value, T types.Type, depth int)
	walk = func(label string, v Value, T types.Type, depth int) {
		if depth > 3 || T == nil {
			return
		}
		switch u := under(T).(type) {
		case *types.Pointer:
			ps = append(ps, Probe{label, v.T})
			if st, ok := under(u.Elem()).(*types.Struct); ok {
				k := structKey(u.Elem())
				if seen[label+k] {
					return
				}
				seen[label+k] = true
				off := int64(0)
				for i := 0; i < st.NumFields(); i++ {
					f := st.Field(i)
					fv := fx.loadAtQuiet(Add(v.T, Num(off)), f.Type(), "H."+k+"."+f.Name())
					walk(label+"."+f.Name(), fv, f.Type(), depth+1)
					off += size(f.Type())
				}
			}
		case *types.Slice:
			ps = append(ps, Probe{label + ".ptr", v.T}, Probe{label + ".len", v.Len}, Probe{label + ".cap", v.Cap})
			el := u.Elem()
			if _, _, _, _, ok := intRange(el); ok && size(el) == 1 {
				arr := fx.heapOf(nil, "M."+typeKey(el))
				for i := 0; i < probeElems; i++ {
					ps = append(ps, Probe{fmt.Sprintf("%s[%d]", label, i), Select(arr, Add(v.T, Num(int64(i))))})
				}
			}
		case *types.Struct:
			if v.Kind == KStruct {
				for i := 0; i < u.NumFields() && i < len(v.Elems); i++ {
					walk(label+"."+u.Field(i).Name(), v.Elems[i], u.Field(i).Type(), depth+1)
				}
			}
		case *types.Interface:
			ps = append(ps, Probe{label + ".tag", v.Tag}, Probe{label + ".val", v.T})
		case *types.Basic:
			if u.Info()&types.IsString != 0 {
				ps = append(ps, Probe{label + ".ptr", v.T}, Probe{label + ".len", v.Len})
				for i := 0; i < probeElems; i++ {
					ps = append(ps, Probe{fmt.Sprintf("%s[%d]", label, i), Select(fx.strMem(), Add(v.T, Num(int64(i))))})
				}
				return
			}
			if v.Kind == KBool {
				ps = append(ps, Probe{label, v.T})
				return
			}
			ps = append(ps, Probe{label, v.T})
		default:
			ps = append(ps, Probe{label, v.T})
		}
	}
	for _, p := range fn.Params {
		walk(p.Name(), params[p.Name()], p.Type(), 0)
	}
	return ps
}

// loadAtQuiet loads from the entry heap without emitting range assumptions (probe construction only).
func (fx *fx) loadAtQuiet(addr Term, T types.Type, key string) Value {
	fx.enc.quiet++
	defer func() { fx.enc.quiet-- }()
	// entry arrays must exist as declarations: touch them outside quiet mode
	for _, k := range fx.leafKeys(T, key) {
		if _, ok := fx.entryHeap[k]; !ok {
			fx.enc.quiet--
			fx.heapOf(nil, k)
			fx.enc.quiet++
		}
	}
	return fx.loadAt(nil, addr, T, key)
}

func init() { tryReplay = replayOnRealCode }

// replayOnRealCode builds the model's pre-state as Go values, runs the real function in an in-package test
// (go test -overlay, nothing written to the repository) and reports panics or contract clauses that evaluate to false.
func replayOnRealCode(E *Engine, r *Result, base string) *replayResult {
	fn := E.P.Funcs[r.O.Func]
	if fn == nil || fn.Pkg == nil || fn.Parent() != nil {
		return nil
	}
	g := &goGen{E: E, fn: fn, model: r.Model, ct: E.S.Contracts[r.O.Func]}
	src, err := g.testFile()
	if err != nil {
		return &replayResult{Log: "replay not generated: " + err.Error() + "\n"}
	}
	testPath := base + "_replay_test.go"
	os.WriteFile(testPath, []byte(src), 0o644)
	pkgDir := filepath.Dir(E.P.SSA.Fset.Position(fn.Pos()).Filename)
	ov := map[string]map[string]string{"Replace": {filepath.Join(pkgDir, "zz_vcgo_replay_test.go"): testPath}}
	ovData, _ := json.Marshal(ov)
	ovPath := base + "_overlay.json"
	os.WriteFile(ovPath, ovData, 0o644)
	cmdline := fmt.Sprintf("cd %s && GOFLAGS=-mod=mod GOPROXY=off GOSUMDB=off GOTOOLCHAIN=local go test -overlay %s -vet=off -count=1 -timeout 60s -run '^TestVcgoReplay$' -v .", pkgDir, ovPath)
	cmd := exec.Command("bash", "-c", cmdline)
	out, _ := cmd.CombinedOutput()
	log := string(out)
	rep := &replayResult{TestFile: testPath, Cmd: cmdline}
	var keep []string
	for _, l := range strings.Split(log, "\n") {
		if strings.HasPrefix(strings.TrimSpace(l), "REPLAY") || strings.Contains(l, "panic") || strings.Contains(l, "FAIL") || strings.Contains(l, "cannot") || strings.Contains(l, "undefined") {
			keep = append(keep, "  "+strings.TrimSpace(l))
		}
	}
	rep.Log = strings.Join(keep, "\n") + "\n"
	if strings.Contains(log, "REPLAY-PRESTATE-INVALID") {
		rep.Log += "  (the model's pre-state, truncated to the probed elements, does not satisfy the precondition on the real types)\n"
		return rep
	}
	// a panic of the real code reproduces a safety obligation (bounds, nil, division, failed assertion, callee
	// precondition); for a functional obligation only the violated clause evaluating false does: a panic there just
	// means the model's pre-state (which the function's preconditions do not exclude) is not one the clause is about
	safety := map[string]bool{"bounds": true, "nil": true, "div": true, "assert": true, "typeassert": true, "pre": true, "make": true}
	if strings.Contains(log, "REPLAY-CLAUSE-FALSE") {
		rep.Reproduced = true
	} else if strings.Contains(log, "REPLAY-PANIC") || strings.Contains(log, "fatal error") {
		if safety[r.O.Kind] {
			rep.Reproduced = true
		} else {
			rep.Log += "  (the real code panicked on the model's pre-state before the clause could be evaluated: not counted as a reproduction of this " + r.O.Kind + " obligation)\n"
		}
	}
	return rep
}

// ---------------------------------------------------------------- Go source generation

type goGen struct {
	E     *Engine
	fn    *ssa.Function
	model map[string]string
	ct    *Contract
	pkg   *types.Package
	n     int
	pre   []string // statements capturing old() values
	olds  map[string]string
	imports map[string]bool
	qdepth  int
}

func (g *goGen) mv(label string) (int64, bool) {
	s, ok := g.model[label]
	if !ok {
		return 0, false
	}
	s = strings.TrimSpace(s)
	if s == "true" {
		return 1, true
	}
	if s == "false" {
		return 0, true
	}
	n, err := strconv.ParseInt(s, 10, 64)
	if err != nil {
		return 0, false
	}
	return n, true
}

func (g *goGen) typeStr(T types.Type) string {
	return types.TypeString(T, func(p *types.Package) string {
		if p == g.pkg {
			return ""
		}
		g.imports[p.Path()] = true
		return p.Name()
	})
}

// literal builds a Go expression for a value of type T from the model.
func (g *goGen) literal(label string, T types.Type, depth int) (string, error) {
	switch u := under(T).(type) {
	case *types.Pointer:
		a, _ := g.mv(label)
		if a == 0 {
			return "nil", nil
		}
		if st, ok := under(u.Elem()).(*types.Struct); ok && depth < 4 {
			var fs []string
			for i := 0; i < st.NumFields(); i++ {
				f := st.Field(i)
				v, err := g.literal(label+"."+f.Name(), f.Type(), depth+1)
				if err != nil {
					return "", err
				}
				if v != "" {
					fs = append(fs, f.Name()+": "+v)
				}
			}
			return "&" + g.typeStr(u.Elem()) + "{" + strings.Join(fs, ", ") + "}", nil
		}
		return "new(" + g.typeStr(u.Elem()) + ")", nil
	case *types.Slice:
		ptr, _ := g.mv(label + ".ptr")
		n, ok1 := g.mv(label + ".len")
		c, ok2 := g.mv(label + ".cap")
		if !ok1 || !ok2 {
			return "nil", nil
		}
		if ptr == 0 {
			return "nil", nil
		}
		if c > 1<<16 || n > 1<<16 {
			return "", fmt.Errorf("model slice %s too large (len %d cap %d)", label, n, c)
		}
		el := u.Elem()
		if _, _, _, _, ok := intRange(el); ok && size(el) == 1 {
			var elems []string
			for i := int64(0); i < c && i < probeElems; i++ {
				v, _ := g.mv(fmt.Sprintf("%s[%d]", label, i))
				elems = append(elems, strconv.FormatInt(v, 10))
			}
			return fmt.Sprintf("append(make([]%s, 0, %d), []%s{%s}...)[:%d]", g.typeStr(el), c, g.typeStr(el), strings.Join(elems, ", "), n), nil
		}
		return fmt.Sprintf("make([]%s, %d, %d)", g.typeStr(el), n, c), nil
	case *types.Struct:
		var fs []string
		for i := 0; i < u.NumFields(); i++ {
			f := u.Field(i)
			v, err := g.literal(label+"."+f.Name(), f.Type(), depth+1)
			if err != nil {
				return "", err
			}
			if v != "" {
				fs = append(fs, f.Name()+": "+v)
			}
		}
		return g.typeStr(T) + "{" + strings.Join(fs, ", ") + "}", nil
	case *types.Interface:
		tag, _ := g.mv(label + ".tag")
		if tag == 0 {
			return "nil", nil
		}
		if types.Identical(T, types.Universe.Lookup("error").Type()) {
			g.imports["errors"] = true
			return `errors.New("replay error")`, nil
		}
		return "nil", nil
	case *types.Signature:
		a, _ := g.mv(label)
		if a == 0 {
			return "nil", nil
		}
		return "", fmt.Errorf("function value in pre-state (%s)", label)
	case *types.Map, *types.Chan:
		return "nil", nil
	case *types.Basic:
		switch {
		case u.Info()&types.IsBoolean != 0:
			v, _ := g.mv(label)
			if v != 0 {
				return "true", nil
			}
			return "false", nil
		case u.Info()&types.IsString != 0:
			n, _ := g.mv(label + ".len")
			if n > 1<<16 {
				return "", fmt.Errorf("model string too large")
			}
			var bs []string
			for i := int64(0); i < n && i < probeElems; i++ {
				v, _ := g.mv(fmt.Sprintf("%s[%d]", label, i))
				bs = append(bs, strconv.FormatInt(v&255, 10))
			}
			return "string([]byte{" + strings.Join(bs, ", ") + "})", nil
		case u.Info()&types.IsInteger != 0:
			v, _ := g.mv(label)
			return fmt.Sprintf("%s(%d)", g.typeStr(T), v), nil
		case u.Info()&types.IsFloat != 0:
			return g.typeStr(T) + "(0)", nil
		}
	case *types.Array:
		return "", nil
	}
	return "", nil
}

func (g *goGen) testFile() (string, error) {
	fn := g.fn
	g.pkg = fn.Pkg.Pkg
	g.imports = map[string]bool{"testing": true, "fmt": true}
	g.olds = map[string]string{}
	var b strings.Builder
	var body strings.Builder
	var argNames []string
	for _, p := range fn.Params {
		lit, err := g.literal(p.Name(), p.Type(), 0)
		if err != nil {
			return "", err
		}
		if lit == "" {
			lit = "*new(" + g.typeStr(p.Type()) + ")"
		}
		name := "a_" + p.Name()
		fmt.Fprintf(&body, "\tvar %s %s = %s\n", name, g.typeStr(p.Type()), lit)
		argNames = append(argNames, name)
	}
	// contract clauses as Go
	var preChecks, postChecks []string
	if g.ct != nil {
		for _, grp := range [][]*Clause{g.ct.Requires, g.ct.Preserves} {
			for _, c := range grp {
				if e, err := g.expr(c.E, false); err == nil {
					preChecks = append(preChecks, fmt.Sprintf("\tif !(%s) { fmt.Println(\"REPLAY-PRESTATE-INVALID: %s\"); return }\n", e.s, escape(clauseName(c)+": "+c.Src)))
				}
			}
		}
	}
	// old() captures are produced while translating the post clauses
	if g.ct != nil {
		for _, grp := range [][]*Clause{g.ct.Ensures, g.ct.Preserves} {
			for _, c := range grp {
				if e, err := g.expr(c.E, true); err == nil {
					postChecks = append(postChecks, fmt.Sprintf("\tif !(%s) { fmt.Println(\"REPLAY-CLAUSE-FALSE: %s\") }\n", e.s, escape(clauseName(c)+": "+c.Src)))
				} else {
					postChecks = append(postChecks, fmt.Sprintf("\t// clause not translated (%s): %s\n", escape(err.Error()), escape(c.Src)))
				}
			}
		}
	}
	for _, pc := range preChecks {
		body.WriteString(pc)
	}
	for _, s := range g.pre {
		body.WriteString("\t" + s + "\n")
	}
	body.WriteString("\tdefer func() { if r := recover(); r != nil { fmt.Println(\"REPLAY-PANIC:\", r) } }()\n")
	// the call
	nres := fn.Signature.Results().Len()
	var lhs []string
	for i := 0; i < nres; i++ {
		lhs = append(lhs, fmt.Sprintf("result%d", i))
	}
	call := ""
	if fn.Signature.Recv() != nil {
		call = fmt.Sprintf("%s.%s(%s)", argNames[0], fn.Name(), strings.Join(argNames[1:], ", "))
		if fn.Signature.Variadic() {
			call = fmt.Sprintf("%s.%s(%s...)", argNames[0], fn.Name(), strings.Join(argNames[1:], ", "))
		}
	} else {
		call = fmt.Sprintf("%s(%s)", fn.Name(), strings.Join(argNames, ", "))
		if fn.Signature.Variadic() {
			call = fmt.Sprintf("%s(%s...)", fn.Name(), strings.Join(argNames, ", "))
		}
	}
	if nres > 0 {
		fmt.Fprintf(&body, "\t%s := %s\n", strings.Join(lhs, ", "), call)
		for _, l := range lhs {
			fmt.Fprintf(&body, "\t_ = %s\n", l)
		}
		fmt.Fprintf(&body, "\tfmt.Println(\"REPLAY-RETURNED:\", %s)\n", strings.Join(lhs, ", "))
	} else {
		fmt.Fprintf(&body, "\t%s\n\tfmt.Println(\"REPLAY-RETURNED\")\n", call)
	}
	for _, pc := range postChecks {
		body.WriteString(pc)
	}
	fmt.Fprintf(&b, "package %s\n\n// Generated by vcgo: replay of a verifier counterexample on the real code.\n// function: %s\nimport (\n", g.pkg.Name(), g.E.P.Names[fn])
	var imps []string
	for p := range g.imports {
		imps = append(imps, p)
	}
	sort.Strings(imps)
	for _, p := range imps {
		fmt.Fprintf(&b, "\t%q\n", p)
	}
	b.WriteString("\t\"unsafe\"\n)\n\n")
	b.WriteString("func vcgoPtr[T any](s []T) int64 { if cap(s) == 0 { return 0 }; return int64(uintptr(unsafe.Pointer(&s[:1][0]))) }\n")
	b.WriteString("func vcgoImp(a, b bool) bool { return !a || b }\n")
	b.WriteString("func vcgoAll(lo, hi int64, f func(int64) bool) bool { for i := lo; i < hi; i++ { if !f(i) { return false } }; return true }\n")
	b.WriteString("func vcgoAny(lo, hi int64, f func(int64) bool) bool { for i := lo; i < hi; i++ { if f(i) { return true } }; return false }\n")
	b.WriteString("func vcgoIte[T any](c bool, a, b T) T { if c { return a }; return b }\n\n")
	b.WriteString("func TestVcgoReplay(t *testing.T) {\n")
	b.WriteString(body.String())
	b.WriteString("}\n")
	return b.String(), nil
}

func escape(s string) string {
	s = strings.ReplaceAll(s, "\\", "\\\\")
	s = strings.ReplaceAll(s, "\"", "\\\"")
	return strings.Join(strings.Fields(s), " ")
}

// gx is a translated expression with its kind.
type gx struct {
	s    string
	kind string // int, bool, slice, string, ptr, iface, other
	typ  types.Type
}

func kindOf(T types.Type) string {
	if T == nil {
		return "other"
	}
	switch u := under(T).(type) {
	case *types.Basic:
		switch {
		case u.Info()&types.IsBoolean != 0:
			return "bool"
		case u.Info()&types.IsInteger != 0:
			return "int"
		case u.Info()&types.IsString != 0:
			return "string"
		}
	case *types.Slice:
		return "slice"
	case *types.Pointer:
		return "ptr"
	case *types.Interface:
		return "iface"
	case *types.Signature:
		return "func"
	}
	return "other"
}

func (g *goGen) wrap(s string, T types.Type) gx {
	k := kindOf(T)
	if k == "int" {
		return gx{"int64(" + s + ")", "int", T}
	}
	return gx{s, k, T}
}

// expr translates a contract expression to Go. post=true allows result names and old().
func (g *goGen) expr(e Expr, post bool) (gx, error) {
	return g.exprEnv(e, post, map[string]gx{})
}

func (g *goGen) exprEnv(e Expr, post bool, env map[string]gx) (gx, error) {
	fail := func(format string, a ...interface{}) (gx, error) { return gx{}, fmt.Errorf(format, a...) }
	switch x := e.(type) {
	case *ENum:
		return gx{"int64(" + x.Val.String() + ")", "int", nil}, nil
	case *EBool:
		return gx{fmt.Sprint(x.Val), "bool", nil}, nil
	case *EStr:
		return gx{strconv.Quote(x.Val), "string", nil}, nil
	case *EIdent:
		if v, ok := env[x.Name]; ok {
			return v, nil
		}
		if x.Name == "nil" {
			return gx{"nil", "nil", nil}, nil
		}
		for _, p := range g.fn.Params {
			if p.Name() == x.Name {
				return g.wrap("a_"+p.Name(), p.Type()), nil
			}
		}
		rs := g.fn.Signature.Results()
		if post {
			if x.Name == "result" && rs.Len() == 1 {
				return g.wrap("result0", rs.At(0).Type()), nil
			}
			for i := 0; i < rs.Len(); i++ {
				if x.Name == fmt.Sprintf("result%d", i) || (rs.At(i).Name() != "" && rs.At(i).Name() == x.Name) {
					return g.wrap(fmt.Sprintf("result%d", i), rs.At(i).Type()), nil
				}
			}
		}
		if obj := g.pkg.Scope().Lookup(x.Name); obj != nil {
			switch obj.(type) {
			case *types.Const, *types.Var:
				return g.wrap(x.Name, obj.Type()), nil
			}
		}
		return fail("identifier %s", x.Name)
	case *EUnary:
		v, err := g.exprEnv(x.X, post, env)
		if err != nil {
			return gx{}, err
		}
		switch x.Op {
		case "!":
			return gx{"!(" + v.s + ")", "bool", nil}, nil
		case "-":
			return gx{"(-" + v.s + ")", "int", nil}, nil
		}
		return fail("unary %s", x.Op)
	case *EBinary:
		a, err := g.exprEnv(x.X, post, env)
		if err != nil {
			return gx{}, err
		}
		b, err := g.exprEnv(x.Y, post, env)
		if err != nil {
			return gx{}, err
		}
		switch x.Op {
		case "&&", "||":
			return gx{"(" + a.s + " " + x.Op + " " + b.s + ")", "bool", nil}, nil
		case "==>":
			return gx{"vcgoImp(" + a.s + ", " + b.s + ")", "bool", nil}, nil
		case "<==>":
			return gx{"((" + a.s + ") == (" + b.s + "))", "bool", nil}, nil
		case "==", "!=":
			if a.kind == "slice" && b.kind == "nil" {
				return gx{"(" + a.s + " " + x.Op + " nil)", "bool", nil}, nil
			}
			if a.kind == "slice" || b.kind == "slice" {
				return fail("slice comparison")
			}
			return gx{"(" + a.s + " " + x.Op + " " + b.s + ")", "bool", nil}, nil
		case "<", "<=", ">", ">=":
			return gx{"(" + a.s + " " + x.Op + " " + b.s + ")", "bool", nil}, nil
		case "+", "-", "*":
			return gx{"(" + a.s + " " + x.Op + " " + b.s + ")", "int", nil}, nil
		case "/", "%", "<<", ">>", "&", "|", "^":
			return gx{"(" + a.s + " " + x.Op + " " + b.s + ")", "int", nil}, nil
		}
		return fail("operator %s", x.Op)
	case *ESel:
		if id, ok := x.X.(*EIdent); ok {
			if _, bound := env[id.Name]; !bound {
				for _, imp := range g.pkg.Imports() {
					if imp.Name() == id.Name {
						obj := imp.Scope().Lookup(x.Name)
						if obj == nil {
							return fail("no %s.%s", id.Name, x.Name)
						}
						g.imports[imp.Path()] = true
						return g.wrap(id.Name+"."+x.Name, obj.Type()), nil
					}
				}
			}
		}
		v, err := g.exprEnv(x.X, post, env)
		if err != nil {
			return gx{}, err
		}
		if v.typ == nil {
			return fail("selector on untyped")
		}
		obj, _, _ := types.LookupFieldOrMethod(v.typ, true, g.pkg, x.Name)
		if obj == nil {
			for _, sp := range g.E.P.SPkgs {
				if sp != nil {
					if obj, _, _ = types.LookupFieldOrMethod(v.typ, true, sp.Pkg, x.Name); obj != nil {
						break
					}
				}
			}
		}
		fv, ok := obj.(*types.Var)
		if !ok {
			return fail("field %s", x.Name)
		}
		if fv.Pkg() != nil && fv.Pkg() != g.pkg && !fv.Exported() {
			return fail("unexported field %s of another package", x.Name)
		}
		return g.wrap(v.s+"."+x.Name, fv.Type()), nil
	case *EIndex:
		v, err := g.exprEnv(x.X, post, env)
		if err != nil {
			return gx{}, err
		}
		i, err := g.exprEnv(x.I, post, env)
		if err != nil {
			return gx{}, err
		}
		var el types.Type
		switch u := under(v.typ).(type) {
		case *types.Slice:
			el = u.Elem()
		case *types.Basic:
			el = types.Typ[types.Uint8]
		case *types.Array:
			el = u.Elem()
		default:
			return fail("index of %v", v.typ)
		}
		return g.wrap(v.s+"["+i.s+"]", el), nil
	case *ESlice:
		v, err := g.exprEnv(x.X, post, env)
		if err != nil {
			return gx{}, err
		}
		lo, hi := "", ""
		if x.Lo != nil {
			l, err := g.exprEnv(x.Lo, post, env)
			if err != nil {
				return gx{}, err
			}
			lo = l.s
		}
		if x.Hi != nil {
			h, err := g.exprEnv(x.Hi, post, env)
			if err != nil {
				return gx{}, err
			}
			hi = h.s
		}
		return gx{v.s + "[" + lo + ":" + hi + "]", v.kind, v.typ}, nil
	case *ECall:
		return g.callExpr(x, post, env)
	}
	return fail("expression %T", e)
}

func (g *goGen) callExpr(x *ECall, post bool, env map[string]gx) (gx, error) {
	fail := func(format string, a ...interface{}) (gx, error) { return gx{}, fmt.Errorf(format, a...) }
	arg := func(i int) (gx, error) { return g.exprEnv(x.Args[i], post, env) }
	switch x.Fun {
	case "old":
		if !post {
			return g.exprEnv(x.Args[0], false, env)
		}
		if g.qdepth > 0 {
			// old(s[i]) with a quantified index: capture a copy of the whole slice before the call
			if ix, ok := x.Args[0].(*EIndex); ok {
				saved := g.qdepth
				g.qdepth = 0
				base, err := g.exprEnv(ix.X, false, env)
				g.qdepth = saved
				if err == nil && base.kind == "slice" && !strings.Contains(base.s, "q") {
					name, ok := g.olds["copy:"+base.s]
					if !ok {
						g.n++
						name = fmt.Sprintf("oldc%d", g.n)
						g.olds["copy:"+base.s] = name
						g.pre = append(g.pre, fmt.Sprintf("%s := append(%s(nil), %s...); _ = %s", name, g.typeStr(base.typ), base.s, name))
					}
					i, err := g.exprEnv(ix.I, false, env)
					if err != nil {
						return gx{}, err
					}
					return g.wrap(name+"["+i.s+"]", under(base.typ).(*types.Slice).Elem()), nil
				}
			}
			return fail("old() under a quantifier")
		}
		v, err := g.exprEnv(x.Args[0], false, env)
		if err != nil {
			return gx{}, err
		}
		if name, ok := g.olds[v.s]; ok {
			return gx{name, v.kind, v.typ}, nil
		}
		g.n++
		name := fmt.Sprintf("old%d", g.n)
		g.olds[v.s] = name
		if v.kind == "slice" {
			// capture header and contents
			g.pre = append(g.pre, fmt.Sprintf("%s := %s; _ = %s", name, v.s, name))
		} else {
			g.pre = append(g.pre, fmt.Sprintf("%s := %s; _ = %s", name, v.s, name))
		}
		return gx{name, v.kind, v.typ}, nil
	case "len", "cap":
		v, err := arg(0)
		if err != nil {
			return gx{}, err
		}
		return gx{"int64(" + x.Fun + "(" + v.s + "))", "int", nil}, nil
	case "ptr":
		v, err := arg(0)
		if err != nil {
			return gx{}, err
		}
		return gx{"vcgoPtr(" + v.s + ")", "int", nil}, nil
	case "forall", "exists":
		id, ok := x.Args[0].(*EIdent)
		if !ok {
			return fail("quantifier variable")
		}
		lo, err := g.exprEnv(x.Args[1], post, env)
		if err != nil {
			return gx{}, err
		}
		hi, err := g.exprEnv(x.Args[2], post, env)
		if err != nil {
			return gx{}, err
		}
		env2 := map[string]gx{}
		for k, v := range env {
			env2[k] = v
		}
		g.n++
		vn := fmt.Sprintf("q%d", g.n)
		env2[id.Name] = gx{vn, "int", nil}
		g.qdepth++
		body, err := g.exprEnv(x.Args[3], post, env2)
		g.qdepth--
		if err != nil {
			return gx{}, err
		}
		f := "vcgoAll"
		if x.Fun == "exists" {
			f = "vcgoAny"
		}
		return gx{fmt.Sprintf("%s(%s, %s, func(%s int64) bool { return %s })", f, lo.s, hi.s, vn, body.s), "bool", nil}, nil
	case "ite":
		c, err := arg(0)
		if err != nil {
			return gx{}, err
		}
		a, err := arg(1)
		if err != nil {
			return gx{}, err
		}
		b, err := arg(2)
		if err != nil {
			return gx{}, err
		}
		return gx{"vcgoIte(" + c.s + ", " + a.s + ", " + b.s + ")", a.kind, a.typ}, nil
	case "min", "max":
		a, err := arg(0)
		if err != nil {
			return gx{}, err
		}
		b, err := arg(1)
		if err != nil {
			return gx{}, err
		}
		op := "<"
		if x.Fun == "max" {
			op = ">"
		}
		return gx{"vcgoIte(" + a.s + " " + op + " " + b.s + ", " + a.s + ", " + b.s + ")", "int", nil}, nil
	case "sameMem", "sameSlice":
		a, err := arg(0)
		if err != nil {
			return gx{}, err
		}
		b, err := arg(1)
		if err != nil {
			return gx{}, err
		}
		s := fmt.Sprintf("(len(%s) == len(%s) && (len(%s) == 0 || vcgoPtr(%s) == vcgoPtr(%s)))", a.s, b.s, a.s, a.s, b.s)
		if x.Fun == "sameSlice" {
			s = fmt.Sprintf("(%s && cap(%s) == cap(%s))", s, a.s, b.s)
		}
		return gx{s, "bool", nil}, nil
	case "within":
		a, err := arg(0)
		if err != nil {
			return gx{}, err
		}
		b, err := arg(1)
		if err != nil {
			return gx{}, err
		}
		return gx{fmt.Sprintf("(len(%s) == 0 || (vcgoPtr(%s) <= vcgoPtr(%s) && vcgoPtr(%s)+int64(len(%s)) <= vcgoPtr(%s)+int64(len(%s))))", a.s, b.s, a.s, a.s, a.s, b.s, b.s), "bool", nil}, nil
	}
	if p, ok := g.E.S.Preds[x.Fun]; ok {
		if len(p.Params) != len(x.Args) {
			return fail("pred arity")
		}
		env2 := map[string]gx{}
		for k, v := range env {
			env2[k] = v
		}
		for i, name := range p.Params {
			v, err := g.exprEnv(x.Args[i], post, env)
			if err != nil {
				return gx{}, err
			}
			env2[name] = v
		}
		// preds containing old() with bound parameters: old is taken of the whole body's state, translate with post as given
		return g.exprEnv(p.Body, post, env2)
	}
	return fail("function %s not translated", x.Fun)
}

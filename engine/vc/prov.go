package vc

import (
	"fmt"
	"os"
	"go/token"
	"go/types"
	"sort"
	"strings"

	"golang.org/x/tools/go/ssa"
)

// Provenance analysis: for every pointer-like SSA value, the set of roots its target may belong to:
// memory reachable from parameter i (incl. receiver and closure free variables), memory freshly allocated
// during the call, memory reachable from a package-level variable, or unknown.
// A function's write summary lists, per root, the heap arrays (field granularity) it may write.
// Writes to fresh objects are not part of the summary: they are invisible to the caller's pre-existing memory.

type Roots uint64

const (
	rootFresh   = 60
	rootGlob  = 61
	rootUnknown = 62
	maxParams   = 56
)

func bit(i int) Roots { return Roots(1) << uint(i) }

// GlobalWrite records a write that may hit memory reachable from a package-level variable.
type GlobalWrite struct {
	Func string
	Pos  token.Position
	Keys []string
	Via  string
}

type Summary struct {
	Mod    map[int]map[string]bool // root index -> keys
	Ret    []Roots
	GW     []GlobalWrite
	gwSeen map[string]bool
	// Esc: bit i set = the pointer passed as parameter i (or a pointer derived from it) may be stored into a heap object
	// (anything but a non-escaping local), directly or by a callee
	Esc Roots
	// GE: places where a pointer into package-level memory is stored into a heap object (the frame analysis classifies
	// what is loaded from parameter-reachable memory as parameter-rooted, which is only right if this never happens with
	// memory that is ever written)
	GE     []GlobalEscape
	geSeen map[string]bool
}

// GlobalEscape: a package-level-rooted pointer stored into the heap.
type GlobalEscape struct {
	Func    string
	Pos     token.Position
	Globals []string // the package-level variables the value was derived from (best effort), "?" if unknown
	Via     string
}

func newSummary() *Summary {
	return &Summary{Mod: map[int]map[string]bool{}, gwSeen: map[string]bool{}, geSeen: map[string]bool{}}
}

func (s *Summary) addMod(root int, keys []string) bool {
	ch := false
	m := s.Mod[root]
	if m == nil {
		m = map[string]bool{}
		s.Mod[root] = m
	}
	for _, k := range keys {
		if !m[k] {
			m[k] = true
			ch = true
		}
	}
	return ch
}

func pointerLike(t types.Type) bool {
	switch u := under(t).(type) {
	case *types.Pointer, *types.Slice, *types.Map, *types.Chan, *types.Signature, *types.Interface:
		return true
	case *types.Struct:
		for i := 0; i < u.NumFields(); i++ {
			if pointerLike(u.Field(i).Type()) {
				return true
			}
		}
	case *types.Array:
		return pointerLike(u.Elem())
	case *types.Tuple:
		for i := 0; i < u.Len(); i++ {
			if pointerLike(u.At(i).Type()) {
				return true
			}
		}
	}
	return false
}

type provAnalysis struct {
	E        *Engine
	sums     map[*ssa.Function]*Summary
	escCache map[*ssa.Alloc]bool
}

func (E *Engine) provenance() *provAnalysis {
	if E.prov != nil {
		return E.prov
	}
	pa := &provAnalysis{E: E, sums: map[*ssa.Function]*Summary{}}
	E.prov = pa
	var fns []*ssa.Function
	for _, f := range E.P.Funcs {
		fns = append(fns, f)
		pa.sums[f] = newSummary()
	}
	sort.Slice(fns, func(i, j int) bool { return E.P.Names[fns[i]] < E.P.Names[fns[j]] })
	for iter := 0; iter < 50; iter++ {
		changed := false
		for _, f := range fns {
			if pa.analyze(f) {
				changed = true
			}
		}
		if !changed {
			break
		}
	}
	return pa
}

// analyze recomputes one function's summary; reports whether it grew.
func (pa *provAnalysis) analyze(fn *ssa.Function) bool {
	E := pa.E
	sum := pa.sums[fn]
	changed := false
	if len(fn.Blocks) == 0 {
		return false
	}
	prov := map[ssa.Value]Roots{}
	cell := map[*ssa.Alloc]Roots{}
	var freshContent Roots
	for i, p := range fn.Params {
		if i < maxParams {
			prov[p] = bit(i)
		} else {
			prov[p] = bit(rootUnknown)
		}
	}
	for i, fv := range fn.FreeVars {
		k := len(fn.Params) + i
		if k < maxParams {
			prov[fv] = bit(k)
		} else {
			prov[fv] = bit(rootUnknown)
		}
	}
	// escaping allocations may be written through other pointers
	escapes := func(a *ssa.Alloc) bool { return pa.allocEscapes(a) }
	get := func(v ssa.Value) Roots {
		switch x := v.(type) {
		case *ssa.Global:
			return bit(rootGlob)
		case *ssa.Const, *ssa.Function, *ssa.Builtin:
			return 0
		case *ssa.Alloc:
			if isCell(x) {
				return 0
			}
			return bit(rootFresh)
		}
		return prov[v]
	}
	isInit := fn.Name() == "init" || strings.HasPrefix(fn.Name(), "init#")
	// content loaded from an address with the given roots
	loadFrom := func(addr ssa.Value) Roots {
		if a := baseAlloc(addr); a != nil && a != addr {
			// field or element of a local aggregate: per-allocation content
			if !escapes(a) {
				return cell[a]
			}
			return cell[a] | freshContent
		}
		if a, ok := addr.(*ssa.Alloc); ok {
			if isCell(a) || !escapes(a) {
				return cell[a]
			}
			return cell[a] | freshContent
		}
		r := get(addr)
		var out Roots
		if r&bit(rootFresh) != 0 {
			out |= freshContent
		}
		out |= r &^ bit(rootFresh)
		return out
	}
	write := func(addrRoots Roots, keys []string, val Roots, pos token.Pos, via string) {
		if addrRoots&bit(rootFresh) != 0 {
			freshContent |= val
		}
		for i := 0; i < maxParams; i++ {
			if addrRoots&bit(i) != 0 {
				if sum.addMod(i, keys) {
					changed = true
				}
			}
		}
		if addrRoots&bit(rootUnknown) != 0 {
			if sum.addMod(rootUnknown, keys) {
				changed = true
			}
		}
		if addrRoots&bit(rootGlob) != 0 && !isInit {
			if sum.addMod(rootGlob, keys) {
				changed = true
			}
			p := E.P.SSA.Fset.Position(pos)
			id := fmt.Sprintf("%s:%d:%s", p.Filename, p.Line, via)
			if !sum.gwSeen[id] {
				sum.gwSeen[id] = true
				sum.GW = append(sum.GW, GlobalWrite{Func: E.P.Names[fn], Pos: p, Keys: keys, Via: via})
			}
		}
	}
	// escape: a pointer-like value with roots val is stored into a heap object
	escape := func(val Roots, src ssa.Value, pos token.Pos, via string) {
		for i := 0; i < maxParams; i++ {
			if val&bit(i) != 0 && sum.Esc&bit(i) == 0 {
				sum.Esc |= bit(i)
				changed = true
			}
		}
		if val&bit(rootGlob) != 0 && !isInit {
			p := E.P.SSA.Fset.Position(pos)
			id := fmt.Sprintf("%s:%d:%s", p.Filename, p.Line, via)
			if !sum.geSeen[id] {
				sum.geSeen[id] = true
				sum.GE = append(sum.GE, GlobalEscape{Func: E.P.Names[fn], Pos: p, Globals: globalsBehind(src, 0), Via: via})
			}
		}
	}
	localChanged := false
	set := func(v ssa.Value, r Roots) {
		if prov[v]|r != prov[v] {
			prov[v] |= r
			localChanged = true
		}
	}
	// local fix-point (cells and fresh content feed back)
	cellOut := map[*ssa.BasicBlock]map[*ssa.Alloc]Roots{}
	for pass := 0; pass < 16; pass++ {
		localChanged = false
		fcBefore := freshContent
		for _, b := range fn.Blocks {
			// flow-sensitive contents of local variables: join over predecessors
			for k := range cell {
				delete(cell, k)
			}
			for _, p := range b.Preds {
				for a, r := range cellOut[p] {
					cell[a] |= r
				}
			}
			for _, ins := range b.Instrs {
				switch x := ins.(type) {
				case *ssa.Store:
					if a := baseAlloc(x.Addr); a != nil && a != x.Addr {
						if cell[a]|get(x.Val) != cell[a] {
							cell[a] |= get(x.Val)
							localChanged = true
						}
						if !escapes(a) {
							continue
						}
					}
					if a, ok := x.Addr.(*ssa.Alloc); ok {
						if isCell(a) {
							cell[a] = get(x.Val) // strong update: the variable now holds exactly this value
							continue
						}
						if cell[a]|get(x.Val) != cell[a] {
							cell[a] |= get(x.Val)
							localChanged = true
						}
						if !escapes(a) {
							continue
						}
					}
					if pointerLike(x.Val.Type()) {
						escape(get(x.Val), x.Val, x.Pos(), "store "+exprName(x.Addr))
					}
					write(get(x.Addr), storeKeys(x.Addr), get(x.Val), x.Pos(), "store "+exprName(x.Addr))
				case *ssa.UnOp:
					if x.Op == token.MUL {
						if pointerLike(x.Type()) {
							set(x, loadFrom(x.X))
						}
					}
				case *ssa.FieldAddr:
					set(x, get(x.X))
				case *ssa.IndexAddr:
					set(x, get(x.X))
				case *ssa.Field:
					set(x, get(x.X))
				case *ssa.Index:
					set(x, get(x.X))
				case *ssa.Slice:
					set(x, get(x.X))
				case *ssa.ChangeType:
					set(x, get(x.X))
				case *ssa.ChangeInterface:
					set(x, get(x.X))
				case *ssa.MakeInterface:
					set(x, get(x.X))
				case *ssa.Convert:
					if pointerLike(x.Type()) {
						if pointerLike(x.X.Type()) {
							set(x, get(x.X))
						} else {
							set(x, bit(rootFresh)) // string -> []byte etc. allocates
						}
					}
				case *ssa.TypeAssert:
					set(x, get(x.X))
				case *ssa.Extract:
					// tuple provenance kept per tuple value (coarse)
					set(x, get(x.Tuple))
				case *ssa.Phi:
					var r Roots
					for _, e := range x.Edges {
						r |= get(e)
					}
					set(x, r)
				case *ssa.Lookup:
					if pointerLike(x.Type()) {
						set(x, loadFrom2(get(x.X), freshContent))
					}
				case *ssa.Range:
					set(x, get(x.X))
				case *ssa.Next:
					set(x, loadFrom2(get(x.Iter), freshContent))
				case *ssa.MakeSlice, *ssa.MakeMap, *ssa.MakeChan:
					set(x.(ssa.Value), bit(rootFresh))
				case *ssa.MakeClosure:
					set(x, bit(rootFresh))
					for _, bnd := range x.Bindings {
						freshContent |= get(bnd)
					}
				case *ssa.MapUpdate:
					write(get(x.Map), []string{"MAP." + typeKey(x.Map.Type())}, get(x.Key)|get(x.Value), x.Pos(), "map update")
				case *ssa.Return:
					for len(sum.Ret) < len(x.Results) {
						sum.Ret = append(sum.Ret, 0)
					}
					for i, r := range x.Results {
						if sum.Ret[i]|get(r) != sum.Ret[i] {
							sum.Ret[i] |= get(r)
							changed = true
						}
					}
				case ssa.CallInstruction:
					pa.call(fn, x, get, set, write, &freshContent, escape)
				}
			}
			prev := cellOut[b]
			snap := make(map[*ssa.Alloc]Roots, len(cell))
			for a, r := range cell {
				snap[a] = r
				if prev == nil || prev[a] != r {
					localChanged = true
				}
			}
			cellOut[b] = snap
		}
		if !localChanged && freshContent == fcBefore {
			break
		}
	}
	if os.Getenv("VCGO_PROVDEBUG") == E.P.Names[fn] {
		fmt.Printf("prov %s: freshContent=%b\n", E.P.Names[fn], freshContent)
		for _, b := range fn.Blocks {
			for _, ins := range b.Instrs {
				if v, ok := ins.(ssa.Value); ok && prov[v]&bit(rootGlob) != 0 {
					fmt.Printf("   G: %s = %s\n", v.Name(), ins.String())
				}
			}
		}
		for a, r := range cell {
			if r&bit(rootGlob) != 0 {
				fmt.Printf("   G cell: %s (%s)\n", a.Name(), a.Comment)
			}
		}
	}
	return changed
}

func loadFrom2(r Roots, freshContent Roots) Roots {
	var out Roots
	if r&bit(rootFresh) != 0 {
		out |= freshContent
	}
	return out | (r &^ bit(rootFresh))
}

func (pa *provAnalysis) call(fn *ssa.Function, ci ssa.CallInstruction, get func(ssa.Value) Roots, set func(ssa.Value, Roots),
	write func(Roots, []string, Roots, token.Pos, string), freshContent *Roots, escape func(Roots, ssa.Value, token.Pos, string)) {
	E := pa.E
	c := ci.Common()
	var resV ssa.Value
	if v, ok := ci.(*ssa.Call); ok {
		resV = v
	}
	var argRoots Roots
	for _, a := range c.Args {
		argRoots |= get(a)
	}
	if c.IsInvoke() {
		argRoots |= get(c.Value)
	}
	if bi, ok := c.Value.(*ssa.Builtin); ok {
		switch bi.Name() {
		case "append":
			if sl, ok := under(c.Args[0].Type()).(*types.Slice); ok {
				keys := leafKeysOf(sl.Elem(), "M."+typeKey(sl.Elem()), map[string]bool{})
				var val Roots
				if len(c.Args) > 1 {
					val = loadFrom2(get(c.Args[1]), *freshContent) | get(c.Args[1])
				}
				write(get(c.Args[0]), keys, val, c.Pos(), "append")
				if len(c.Args) > 1 && hasPointers(sl.Elem()) {
					escape(val, c.Args[1], c.Pos(), "append")
				}
			}
			if resV != nil {
				set(resV, get(c.Args[0])|bit(rootFresh))
			}
		case "copy":
			if sl, ok := under(c.Args[0].Type()).(*types.Slice); ok {
				keys := leafKeysOf(sl.Elem(), "M."+typeKey(sl.Elem()), map[string]bool{})
				write(get(c.Args[0]), keys, loadFrom2(get(c.Args[1]), *freshContent), c.Pos(), "copy")
				if hasPointers(sl.Elem()) {
					escape(loadFrom2(get(c.Args[1]), *freshContent), c.Args[1], c.Pos(), "copy")
				}
			}
		case "delete", "clear":
			write(get(c.Args[0]), []string{"MAP." + typeKey(c.Args[0].Type())}, 0, c.Pos(), bi.Name())
		case "ssa:wrapnilchk":
			if resV != nil {
				set(resV, get(c.Args[0]))
			}
		}
		return
	}
	// a fresh object passed to any callee may afterwards contain whatever the callee could store into it
	if argRoots&bit(rootFresh) != 0 {
		*freshContent |= argRoots &^ bit(rootFresh)
	}
	targets, ext, dyn := E.callTargets(c)
	var actuals []ssa.Value
	if c.IsInvoke() {
		actuals = append(actuals, c.Value)
	}
	actuals = append(actuals, c.Args...)
	var res Roots
	apply := func(t *ssa.Function, closureBindings []ssa.Value) {
		ts := pa.sums[t]
		if ts == nil {
			return
		}
		if ct := E.S.Contracts[E.P.Names[t]]; ct != nil && ct.Pure && ct.Trusted {
			// trusted frame: the callee writes nothing the caller can observe (listed as an assumption)
			for _, rr := range ts.Ret {
				res |= rr & (bit(rootFresh) | bit(rootGlob) | bit(rootUnknown))
			}
			return
		}
		mapRoot := func(j int) Roots {
			if j < len(t.Params) {
				if j < len(actuals) {
					return get(actuals[j])
				}
				return bit(rootUnknown)
			}
			k := j - len(t.Params)
			if closureBindings != nil && k < len(closureBindings) {
				return get(closureBindings[k])
			}
			return bit(rootUnknown) // free variable of a closure called through a function value
		}
		for r, keys := range ts.Mod {
			var ks []string
			for k := range keys {
				ks = append(ks, k)
			}
			sort.Strings(ks)
			switch {
			case r < maxParams:
				write(mapRoot(r), ks, argRoots, c.Pos(), "call "+t.Name())
			case r == rootGlob:
				write(bit(rootGlob), ks, 0, c.Pos(), "call "+t.Name())
			default:
				write(bit(rootUnknown), ks, 0, c.Pos(), "call "+t.Name())
			}
		}
		for _, rr := range ts.Ret {
			for j := 0; j < maxParams; j++ {
				if rr&bit(j) != 0 {
					res |= mapRoot(j)
				}
			}
			res |= rr & (bit(rootFresh) | bit(rootGlob) | bit(rootUnknown))
		}
		// pointers the callee may store into the heap
		for j := 0; j < maxParams && j < len(t.Params)+len(closureBindings); j++ {
			if ts.Esc&bit(j) != 0 {
				var src ssa.Value
				if j < len(actuals) {
					src = actuals[j]
				}
				escape(mapRoot(j), src, c.Pos(), "call "+t.Name())
			}
		}
	}
	if gk := E.ghostKeysOfCall(c); len(gk) > 0 {
		gr := get(c.Value) &^ bit(rootGlob) // ghost state is not program memory: never a global write
		if gr&^bit(rootFresh) == 0 {
			gr = bit(rootUnknown)
		}
		write(gr, gk, 0, c.Pos(), "ghost state of "+c.Method.Name())
	}
	if mc, ok := c.Value.(*ssa.MakeClosure); ok {
		apply(mc.Fn.(*ssa.Function), mc.Bindings)
	} else {
		for _, t := range targets {
			apply(t, nil)
		}
	}
	if ext != nil {
		if !knownPure[extName(ext)] {
			// writes whatever its pointer arguments reach
			roA := map[int]bool{}
			if ect := E.S.Contracts["extern:"+extName(ext)]; ect != nil {
				for _, k := range ect.ReadonlyActuals {
					roA[k] = true
				}
			}
			for ai, a := range actuals {
				if roA[ai] {
					continue
				}
				ks := typeReachKeys(a.Type(), map[string]bool{}, 0)
				if len(ks) > 0 {
					write(get(a), ks, argRoots, c.Pos(), "external "+extName(ext))
				}
			}
		}
		res |= bit(rootFresh) | argRoots
	}
	if dyn {
		// implementations outside the repository / unknown function values: may write what the arguments reach
		ro := map[int]bool{}
		if c.IsInvoke() {
			if ict := E.S.Contracts[ifaceKey(c.Value.Type(), c.Method.Name())]; ict != nil {
				for _, k := range ict.ReadonlyArgs {
					ro[k+1] = true // actuals[0] is the receiver
				}
			}
		}
		for ai, a := range actuals {
			if ro[ai] {
				continue
			}
			ks := typeReachKeys(a.Type(), map[string]bool{}, 0)
			if len(ks) > 0 {
				write(get(a), ks, argRoots, c.Pos(), "dynamic call")
			}
		}
		res |= bit(rootFresh) | argRoots
		if !c.IsInvoke() {
			res |= get(c.Value)
		}
	}
	if resV != nil && pointerLike(resV.Type()) {
		set(resV, res)
	}
}

// SummaryOf returns the write summary of a repository function.
func (E *Engine) SummaryOf(fn *ssa.Function) *Summary {
	return E.provenance().sums[fn]
}

// modsetFromSummary flattens a summary (all roots) into the keys a call may change in pre-existing memory.
func (E *Engine) modsetFromSummary(fn *ssa.Function) *ModSet {
	m := &ModSet{Keys: map[string]bool{}}
	s := E.SummaryOf(fn)
	if s == nil {
		return nil
	}
	for _, keys := range s.Mod {
		for k := range keys {
			m.Keys[k] = true
		}
	}
	return m
}

// returnsFresh reports whether result i of fn always points to memory allocated during the call.
func (E *Engine) returnsFresh(fn *ssa.Function, i int) bool {
	s := E.SummaryOf(fn)
	if s == nil || i >= len(s.Ret) {
		return false
	}
	return s.Ret[i] == bit(rootFresh)
}

// allocEscapes: the allocation's address is used other than for direct loads/stores and closure capture
// by closures that do not write the captured variable itself.
func (pa *provAnalysis) allocEscapes(a *ssa.Alloc) bool {
	if v, ok := pa.escCache[a]; ok {
		return v
	}
	esc := false
	refs := a.Referrers()
	if refs != nil {
		for _, r := range *refs {
			switch x := r.(type) {
			case *ssa.Store:
				if x.Val == a {
					esc = true
				}
			case *ssa.UnOp, *ssa.DebugRef:
			case *ssa.FieldAddr, *ssa.IndexAddr:
				if addrEscapes(x.(ssa.Value), 0) {
					esc = true
				}
			case *ssa.MakeClosure:
				cl := x.Fn.(*ssa.Function)
				for k, b := range x.Bindings {
					if b != a {
						continue
					}
					cs := pa.sums[cl]
					T := a.Type().(*types.Pointer).Elem()
					keys := leafKeysOf(T, "M."+typeKey(T), map[string]bool{})
					if cs == nil {
						esc = true
						continue
					}
					mod := cs.Mod[len(cl.Params)+k]
					for _, key := range keys {
						if mod[key] {
							esc = true
						}
					}
				}
			default:
				esc = true
			}
		}
	}
	// not cached while summaries are still growing: closure summaries may change
	return esc
}

// baseAlloc follows field/element address computations back to a local allocation.
func baseAlloc(v ssa.Value) *ssa.Alloc {
	for i := 0; i < 8; i++ {
		switch x := v.(type) {
		case *ssa.Alloc:
			return x
		case *ssa.FieldAddr:
			v = x.X
		case *ssa.IndexAddr:
			if _, ok := under(x.X.Type()).(*types.Pointer); ok {
				v = x.X // element of an array held in a local
			} else {
				return nil
			}
		default:
			return nil
		}
	}
	return nil
}

// addrEscapes: a derived address is used for anything but loads, stores through it and further field/element addressing.
func addrEscapes(v ssa.Value, depth int) bool {
	if depth > 6 {
		return true
	}
	refs := v.Referrers()
	if refs == nil {
		return true
	}
	for _, r := range *refs {
		switch x := r.(type) {
		case *ssa.Store:
			if x.Val == v {
				return true
			}
		case *ssa.UnOp, *ssa.DebugRef:
		case *ssa.FieldAddr, *ssa.IndexAddr:
			if addrEscapes(x.(ssa.Value), depth+1) {
				return true
			}
		default:
			return true
		}
	}
	return false
}

// hasPointers: values of the type contain pointers (so storing one can make a heap object point somewhere).
func hasPointers(t types.Type) bool {
	switch u := under(t).(type) {
	case *types.Basic:
		return u.Kind() == types.String || u.Kind() == types.UnsafePointer
	case *types.Struct:
		for i := 0; i < u.NumFields(); i++ {
			if hasPointers(u.Field(i).Type()) {
				return true
			}
		}
		return false
	case *types.Array:
		return hasPointers(u.Elem())
	}
	return true
}

// globalsBehind names the package-level variables a value is derived from (syntactic back-trace, best effort).
func globalsBehind(v ssa.Value, depth int) []string {
	if v == nil || depth > 6 {
		return []string{"?"}
	}
	switch x := v.(type) {
	case *ssa.Global:
		return []string{shortPkg(x.Pkg.Pkg.Path()) + "." + x.Name()}
	case *ssa.UnOp:
		return globalsBehind(x.X, depth+1)
	case *ssa.Slice:
		return globalsBehind(x.X, depth+1)
	case *ssa.FieldAddr:
		return globalsBehind(x.X, depth+1)
	case *ssa.IndexAddr:
		return globalsBehind(x.X, depth+1)
	case *ssa.Field:
		return globalsBehind(x.X, depth+1)
	case *ssa.Index:
		return globalsBehind(x.X, depth+1)
	case *ssa.ChangeType:
		return globalsBehind(x.X, depth+1)
	case *ssa.MakeInterface:
		return globalsBehind(x.X, depth+1)
	case *ssa.Convert:
		return globalsBehind(x.X, depth+1)
	case *ssa.Phi:
		var out []string
		seen := map[string]bool{}
		for _, e := range x.Edges {
			for _, g := range globalsBehind(e, depth+1) {
				if !seen[g] {
					seen[g] = true
					out = append(out, g)
				}
			}
		}
		return out
	}
	return []string{"?"}
}

package vc

import (
	"fmt"
	"go/token"
	"go/types"

	"golang.org/x/tools/go/ssa"
)

// wrap reduces a mathematical result into the range of an integer type (Go's defined wrap-around).
func wrapTo(t Term, T types.Type) Term {
	_, _, bits, signed, ok := intRange(T)
	if !ok {
		return t
	}
	if signed {
		return app("wraps", t, Pow2(bits-1))
	}
	return app("wrapu", t, Pow2(bits))
}

func (fr *frame) unop(x *ssa.UnOp, st *State) Value {
	fx := fr.fx
	switch x.Op {
	case token.MUL:
		v := fr.load(st, x.X, x.Pos())
		if v.Typ == nil {
			v.Typ = x.Type()
		}
		return v
	case token.NOT:
		return BoolV(Not(fr.val(x.X).T))
	case token.SUB:
		v := fr.val(x.X)
		if isFloatType(x.Type()) {
			return IntV(app("fop", "5", v.T, "0"), x.Type())
		}
		return IntV(fx.enc.Def("neg", "Int", wrapTo(Neg(v.T), x.Type())), x.Type())
	case token.XOR:
		v := fr.val(x.X)
		_, hi, _, signed, ok := intRange(x.Type())
		if !ok {
			fr.unsupported("^ on %v", x.Type())
		}
		if signed {
			return IntV(Sub(Neg(v.T), "1"), x.Type())
		}
		return IntV(Sub(hi, v.T), x.Type())
	}
	fr.unsupported("unary operator %v", x.Op)
	return Value{}
}

// bitInfo is a small syntactic abstraction used to turn | into + when bits are disjoint.
type bitInfo struct {
	lowZero int // number of known-zero low bits
	width   int // value < 2^width (0 = unknown)
}

func (fr *frame) bits(v ssa.Value) bitInfo {
	switch x := v.(type) {
	case *ssa.Const:
		if x.Value != nil {
			if n, ok := isNumLit(fr.constant(x).T); ok {
				bi := bitInfo{}
				if n == 0 {
					return bitInfo{lowZero: 64, width: 1}
				}
				for n&1 == 0 {
					n >>= 1
					bi.lowZero++
				}
				w := bi.lowZero
				for n > 0 {
					n >>= 1
					w++
				}
				bi.width = w
				return bi
			}
		}
	case *ssa.BinOp:
		switch x.Op {
		case token.AND:
			a, b := fr.bits(x.X), fr.bits(x.Y)
			r := bitInfo{}
			if a.lowZero > b.lowZero {
				r.lowZero = a.lowZero
			} else {
				r.lowZero = b.lowZero
			}
			r.width = minPos(a.width, b.width)
			if r.width == 0 {
				r.width = typeBits(x.Type())
			}
			return r
		case token.SHL:
			if c, ok := x.Y.(*ssa.Const); ok && c.Value != nil {
				if k, ok := isNumLit(fr.constant(c).T); ok && k < 64 {
					a := fr.bits(x.X)
					r := bitInfo{lowZero: a.lowZero + int(k)}
					if a.width > 0 {
						r.width = a.width + int(k)
					}
					if tb := typeBits(x.Type()); tb > 0 && (r.width == 0 || r.width > tb) {
						// shifting may drop bits; keep only lowZero, width = type width
						r.width = tb
					}
					return r
				}
			}
		case token.OR, token.XOR:
			a, b := fr.bits(x.X), fr.bits(x.Y)
			r := bitInfo{}
			if a.lowZero < b.lowZero {
				r.lowZero = a.lowZero
			} else {
				r.lowZero = b.lowZero
			}
			if a.width > 0 && b.width > 0 {
				r.width = a.width
				if b.width > r.width {
					r.width = b.width
				}
			}
			return r
		}
	case *ssa.Convert:
		a := fr.bits(x.X)
		if _, _, _, signed, ok := intRange(x.X.Type()); ok && !signed || a.width > 0 {
			tb := typeBits(x.Type())
			if a.width == 0 {
				a.width = typeBits(x.X.Type())
			}
			if tb > 0 && a.width > tb {
				return bitInfo{lowZero: a.lowZero, width: tb}
			}
			return a
		}
		return bitInfo{}
	case *ssa.ChangeType:
		return fr.bits(x.X)
	}
	if _, _, bits, signed, ok := intRange(v.Type()); ok && !signed {
		return bitInfo{width: bits}
	}
	return bitInfo{}
}

func minPos(a, b int) int {
	if a == 0 {
		return b
	}
	if b == 0 || a < b {
		return a
	}
	return b
}

func typeBits(T types.Type) int {
	_, _, bits, _, ok := intRange(T)
	if !ok {
		return 0
	}
	return bits
}

func (fr *frame) binop(x *ssa.BinOp) Value {
	fx := fr.fx
	a, b := fr.val(x.X), fr.val(x.Y)
	T := x.Type()
	opT := x.X.Type()
	switch x.Op {
	case token.EQL:
		return BoolV(fx.enc.Def("eq", "Bool", fx.valEq(a, b)))
	case token.NEQ:
		return BoolV(fx.enc.Def("ne", "Bool", Not(fx.valEq(a, b))))
	}
	if isFloatType(opT) {
		code := map[token.Token]string{token.ADD: "1", token.SUB: "2", token.MUL: "3", token.QUO: "4"}
		if c, ok := code[x.Op]; ok {
			return IntV(fx.enc.Def("f", "Int", app("fop", c, a.T, b.T)), T)
		}
		cmp := map[token.Token]string{token.LSS: "1", token.LEQ: "2", token.GTR: "3", token.GEQ: "4"}
		if c, ok := cmp[x.Op]; ok {
			return BoolV(app("fcmp", c, a.T, b.T))
		}
		fr.unsupported("float operator %v", x.Op)
	}
	if isStringType(opT) {
		switch x.Op {
		case token.ADD:
			p := fx.enc.Decl("concat", "Int")
			fx.enc.Assume(Gt(p, "0"))
			fx.note("string concatenation: content of the result is not modelled")
			return Value{Kind: KString, T: p, Len: fx.enc.Def("clen", "Int", Add(a.Len, b.Len)), Typ: T}
		case token.LSS, token.LEQ, token.GTR, token.GEQ:
			return BoolV(fx.enc.Decl("strcmp", "Bool"))
		}
		fr.unsupported("string operator %v", x.Op)
	}
	if isBoolType(opT) {
		switch x.Op {
		case token.AND, token.LAND:
			return BoolV(And(a.T, b.T))
		case token.OR, token.LOR:
			return BoolV(Or(a.T, b.T))
		}
		fr.unsupported("bool operator %v", x.Op)
	}
	switch x.Op {
	case token.LSS:
		return BoolV(Lt(a.T, b.T))
	case token.LEQ:
		return BoolV(Le(a.T, b.T))
	case token.GTR:
		return BoolV(Gt(a.T, b.T))
	case token.GEQ:
		return BoolV(Ge(a.T, b.T))
	case token.ADD:
		if fr.contract != nil && fr.contract.ArithMath && fr.prefix == "" {
			fx.note("ASSUMED: machine arithmetic treated as mathematical (no overflow of +/-) in %s", fr.name)
			return IntV(fx.enc.Def("add", "Int", Add(a.T, b.T)), T)
		}
		return IntV(fx.enc.Def("add", "Int", wrapTo(Add(a.T, b.T), T)), T)
	case token.SUB:
		if fr.contract != nil && fr.contract.ArithMath && fr.prefix == "" {
			fx.note("ASSUMED: machine arithmetic treated as mathematical (no overflow of +/-) in %s", fr.name)
			return IntV(fx.enc.Def("sub", "Int", Sub(a.T, b.T)), T)
		}
		return IntV(fx.enc.Def("sub", "Int", wrapTo(Sub(a.T, b.T), T)), T)
	case token.MUL:
		return IntV(fx.enc.Def("mul", "Int", wrapTo(Mul(a.T, b.T), T)), T)
	case token.QUO:
		fr.oblige("div", "zero", Ne(b.T, "0"), x.Pos())
		_, _, _, signed, _ := intRange(T)
		if !signed {
			return IntV(fx.enc.Def("quo", "Int", Div(a.T, b.T)), T)
		}
		// truncated division
		q := Ite(Ge(a.T, "0"), Div(a.T, b.T), Neg(Div(Neg(a.T), b.T)))
		return IntV(fx.enc.Def("quo", "Int", wrapTo(q, T)), T)
	case token.REM:
		fr.oblige("div", "zero", Ne(b.T, "0"), x.Pos())
		_, _, _, signed, _ := intRange(T)
		if !signed {
			return IntV(fx.enc.Def("rem", "Int", Mod(a.T, b.T)), T)
		}
		r := Ite(Ge(a.T, "0"), Mod(a.T, b.T), Neg(Mod(Neg(a.T), b.T)))
		return IntV(fx.enc.Def("rem", "Int", r), T)
	case token.AND:
		// x & (2^k-1)  ==  x mod 2^k for non-negative x or two's complement in general
		for _, pr := range [][2]Value{{a, b}, {b, a}} {
			if k, ok := isNumLit(pr[1].T); ok {
				if nb := maskBits(k); nb >= 0 {
					return IntV(fx.enc.Def("and", "Int", Mod(pr[0].T, Pow2(nb))), T)
				}
				// single bit or general constant mask on small unsigned types: decompose via div/mod for contiguous masks
				if lo, w, ok := contiguousMask(k); ok {
					// (x div 2^lo mod 2^w) * 2^lo
					return IntV(fx.enc.Def("and", "Int", Mul(Mod(Div(pr[0].T, Pow2(lo)), Pow2(w)), Pow2(lo))), T)
				}
			}
		}
		for _, pr := range [][2]Value{{a, b}, {b, a}} {
			if tbl, ok := fx.tables[pr[1].T]; ok {
				// x & table[k]: distribute over the table entries (each a constant mask)
				t := Term("0")
				for j := len(tbl.vals) - 1; j >= 0; j-- {
					var e Term
					if nb := maskBits(tbl.vals[j]); nb >= 0 {
						e = Mod(pr[0].T, Pow2(nb))
					} else if lo, w, ok := contiguousMask(tbl.vals[j]); ok {
						e = Mul(Mod(Div(pr[0].T, Pow2(lo)), Pow2(w)), Pow2(lo))
					} else if tbl.vals[j] == 0 {
						e = "0"
					} else {
						e = app("band", pr[0].T, Num(tbl.vals[j]))
					}
					t = Ite(Eq(tbl.idx, Num(int64(j))), e, t)
				}
				return IntV(fx.enc.Def("and", "Int", t), T)
			}
		}
		r := fx.enc.Def("and", "Int", app("band", a.T, b.T))
		lo, hi, _, signed, ok := intRange(T)
		if ok && !signed {
			fx.enc.Assume(And(Le(lo, r), Le(r, a.T), Le(r, b.T), Le(r, hi)))
		} else if ok {
			fx.enc.Assume(And(Le(lo, r), Le(r, hi)))
		}
		return IntV(r, T)
	case token.OR:
		ai, bi := fr.bits(x.X), fr.bits(x.Y)
		if (ai.width > 0 && bi.lowZero >= ai.width) || (bi.width > 0 && ai.lowZero >= bi.width) {
			return IntV(fx.enc.Def("or", "Int", Add(a.T, b.T)), T)
		}
		for _, pr := range [][2]Value{{a, b}, {b, a}} {
			if tbl, ok := fx.tables[pr[1].T]; ok {
				t := Term(pr[0].T)
				single := true
				for j := len(tbl.vals) - 1; j >= 0; j-- {
					lo, w, ok := contiguousMask(tbl.vals[j])
					if !ok || w != 1 {
						single = false
						break
					}
					// x | 2^lo = x + 2^lo when that bit is clear
					e := Ite(Eq(Mod(Div(pr[0].T, Pow2(lo)), "2"), "1"), pr[0].T, Add(pr[0].T, Pow2(lo)))
					t = Ite(Eq(tbl.idx, Num(int64(j))), e, t)
				}
				if single {
					return IntV(fx.enc.Def("or", "Int", t), T)
				}
			}
		}
		r := fx.enc.Def("or", "Int", app("bor", a.T, b.T))
		lo, hi, _, signed, ok := intRange(T)
		if ok && !signed {
			fx.enc.Assume(And(Le(a.T, r), Le(b.T, r), Le(r, Add(a.T, b.T)), Le(r, hi)))
		} else if ok {
			fx.enc.Assume(And(Le(lo, r), Le(r, hi)))
		}
		return IntV(r, T)
	case token.XOR:
		r := fx.enc.Def("xor", "Int", app("bxor", a.T, b.T))
		if lo, hi, _, _, ok := intRange(T); ok {
			fx.enc.Assume(And(Le(lo, r), Le(r, hi)))
		}
		return IntV(r, T)
	case token.AND_NOT:
		r := fx.enc.Def("andnot", "Int", app("bandnot", a.T, b.T))
		if lo, hi, _, signed, ok := intRange(T); ok {
			if !signed {
				fx.enc.Assume(And(Le(lo, r), Le(r, a.T)))
			} else {
				fx.enc.Assume(And(Le(lo, r), Le(r, hi)))
			}
		}
		return IntV(r, T)
	case token.SHL:
		if k, ok := isNumLit(b.T); ok && k < 64 {
			return IntV(fx.enc.Def("shl", "Int", wrapTo(Mul(a.T, Pow2(int(k))), T)), T)
		}
		if av, ok := isNumLit(a.T); ok {
			if w := fr.bits(x.Y).width; w > 0 && w <= 4 {
				_, _, tb, _, _ := intRange(T)
				var vals []int64
				for j := int64(0); j < int64(1)<<uint(w); j++ {
					v := av << uint(j)
					if tb < 64 {
						v &= (int64(1) << uint(tb)) - 1
					}
					vals = append(vals, v)
				}
				return fr.tableValue(b.T, vals, T)
			}
		}
		r := fx.enc.Def("shl", "Int", app("shl", a.T, b.T))
		if lo, hi, _, _, ok := intRange(T); ok {
			fx.enc.Assume(And(Le(lo, r), Le(r, hi)))
		}
		if _, _, _, signed, ok := intRange(x.Y.Type()); ok && signed {
			fr.oblige("shift", "negative", Ge(b.T, "0"), x.Pos())
		}
		return IntV(r, T)
	case token.SHR:
		if k, ok := isNumLit(b.T); ok && k < 64 {
			return IntV(fx.enc.Def("shr", "Int", Div(a.T, Pow2(int(k)))), T)
		}
		// constant >> small variable amount: explicit table
		if av, ok := isNumLit(a.T); ok {
			if w := fr.bits(x.Y).width; w > 0 && w <= 4 {
				var vals []int64
				for j := int64(0); j < int64(1)<<uint(w); j++ {
					vals = append(vals, av>>uint(j))
				}
				return fr.tableValue(b.T, vals, T)
			}
		}
		r := fx.enc.Def("shr", "Int", app("shr", a.T, b.T))
		if lo, hi, _, signed, ok := intRange(T); ok {
			if !signed {
				fx.enc.Assume(And(Le(lo, r), Le(r, a.T)))
			} else {
				fx.enc.Assume(And(Le(lo, r), Le(r, hi)))
			}
		}
		if _, _, _, signed, ok := intRange(x.Y.Type()); ok && signed {
			fr.oblige("shift", "negative", Ge(b.T, "0"), x.Pos())
		}
		return IntV(r, T)
	}
	fr.unsupported("binary operator %v", x.Op)
	return Value{}
}

// contiguousMask recognises masks of the form ((2^w - 1) << lo).
func contiguousMask(k int64) (lo, w int, ok bool) {
	if k <= 0 {
		return 0, 0, false
	}
	for k&1 == 0 {
		k >>= 1
		lo++
	}
	for k&1 == 1 {
		k >>= 1
		w++
	}
	return lo, w, k == 0
}

func (fr *frame) indexAddr(x *ssa.IndexAddr) Value {
	fx := fr.fx
	base := fr.val(x.X)
	idx := fr.val(x.Index)
	var n Term
	var el types.Type
	switch t := under(x.X.Type()).(type) {
	case *types.Slice:
		n, el = base.Len, t.Elem()
	case *types.Pointer:
		arr := under(t.Elem()).(*types.Array)
		n, el = Num(arr.Len()), arr.Elem()
		if _, isG := x.X.(*ssa.Global); isG {
			// immutable global array: use its constant address
			if g := x.X.(*ssa.Global); fx.E.immGlobal[g] {
				base = fx.loadGlobal(nil, g)
			}
		} else {
			fr.nilCheck(x.X, base.T, x.Pos())
		}
	default:
		fr.unsupported("IndexAddr on %v", x.X.Type())
	}
	fr.oblige("bounds", exprName(x.X)+"[]", And(Le("0", idx.T), Lt(idx.T, n)), x.Pos())
	return IntV(fx.enc.Def("ia", "Int", Add(base.T, Mul(idx.T, Num(size(el))))), x.Type())
}

func (fr *frame) indexVal(x *ssa.Index, st *State) Value {
	fx := fr.fx
	base := fr.val(x.X)
	idx := fr.val(x.Index)
	switch t := under(x.X.Type()).(type) {
	case *types.Array:
		fr.oblige("bounds", exprName(x.X)+"[]", And(Le("0", idx.T), Lt(idx.T, Num(t.Len()))), x.Pos())
		if base.Kind != KArray {
			fr.unsupported("index of non-array value")
		}
		return fx.loadAt(st, Add(base.T, Mul(idx.T, Num(size(t.Elem())))), t.Elem(), "M."+typeKey(t.Elem()))
	case *types.Basic: // string
		fr.oblige("bounds", exprName(x.X)+"[]", And(Le("0", idx.T), Lt(idx.T, base.Len)), x.Pos())
		v := IntV(fx.enc.Def("sb", "Int", Select(fx.strMem(), Add(base.T, idx.T))), types.Typ[types.Uint8])
		fx.enc.Assume(And(Le("0", v.T), Le(v.T, "255")))
		return v
	}
	fr.unsupported("Index on %v", x.X.Type())
	return Value{}
}

func (fr *frame) lookup(x *ssa.Lookup, st *State) Value {
	fx := fr.fx
	if isStringType(x.X.Type()) {
		base := fr.val(x.X)
		idx := fr.val(x.Index)
		fr.oblige("bounds", exprName(x.X)+"[]", And(Le("0", idx.T), Lt(idx.T, base.Len)), x.Pos())
		v := IntV(fx.enc.Def("sb", "Int", Select(fx.strMem(), Add(base.T, idx.T))), types.Typ[types.Uint8])
		fx.enc.Assume(And(Le("0", v.T), Le(v.T, "255")))
		return v
	}
	// lookup in an immutable package-level map given by a literal with constant keys and values: exact table
	if ld, ok := x.X.(*ssa.UnOp); ok {
		if g, ok := ld.X.(*ssa.Global); ok && fx.E.immGlobal[g] {
			if gf := fx.E.globalLit[g]; gf != nil && gf.isMap && len(gf.mapV) <= 256 {
				key := fr.val(x.Index)
				mt := under(x.X.Type()).(*types.Map)
				val := Term("0")
				var hit []Term
				for i := len(gf.mapV) - 1; i >= 0; i-- {
					var c Term
					if gf.mapS != nil {
						// string key: same length and the same bytes
						cs := []Term{Eq(key.Len, Num(int64(len(gf.mapS[i]))))}
						for j := 0; j < len(gf.mapS[i]); j++ {
							if o, ok := fx.strFrom[key.T]; ok {
								cs = append(cs, Eq(Select(o.arr, Add(o.ptr, Num(int64(j)))), Num(int64(gf.mapS[i][j]))))
							} else {
								cs = append(cs, Eq(Select(fx.strMem(), Add(key.T, Num(int64(j)))), Num(int64(gf.mapS[i][j]))))
							}
						}
						c = fx.enc.Def("mapkey", "Bool", And(cs...))
					} else {
						c = Eq(key.T, Num(gf.mapK[i]))
					}
					val = Ite(c, Num(gf.mapV[i]), val)
					hit = append(hit, c)
				}
				v := IntV(fx.enc.Def("maplit", "Int", val), mt.Elem())
				if x.CommaOk {
					return Value{Kind: KTuple, Elems: []Value{v, BoolV(fx.enc.Def("mapok", "Bool", Or(hit...)))}, Typ: x.Type()}
				}
				return v
			}
		}
	}
	// map lookup: unconstrained result
	fx.note("map contents are opaque (updates ignored, lookups unconstrained)")
	res := fx.sym("maplookup", x.Type())
	if fr.contract != nil && fr.prefix == "" {
		if p := paramOfValue(x.X); p != nil {
			if ms := fr.contract.MapSpecs[p.Name()]; ms != nil {
				ev := fr.env(st, fr.entry, nil)
				ev.preferLocals = true
				ev = ev.bind("key", fr.val(x.Index))
				if x.CommaOk && res.Kind == KTuple {
					ev = ev.bind("value", res.Elems[0]).bind("ok", res.Elems[1])
				} else {
					ev = ev.bind("value", res).bind("ok", BoolV(True))
				}
				if t, err := ev.EvalBool(ms.E); err == nil {
					fr.assume(t)
					fx.note("caller obligation assumed for map parameter %s of %s: %s", p.Name(), fr.name, ms.Src)
				} else {
					fr.specError(ms, err)
				}
			}
		}
	}
	return res
}

func (fr *frame) slice(x *ssa.Slice) Value {
	fx := fr.fx
	base := fr.val(x.X)
	var lo, hi, max Term
	if x.Low != nil {
		lo = fr.val(x.Low).T
	} else {
		lo = "0"
	}
	name := exprName(x.X) + "[:]"
	switch t := under(x.X.Type()).(type) {
	case *types.Slice:
		if x.High != nil {
			hi = fr.val(x.High).T
		} else {
			hi = base.Len
		}
		if x.Max != nil {
			max = fr.val(x.Max).T
			fr.oblige("bounds", name, And(Le("0", lo), Le(lo, hi), Le(hi, max), Le(max, base.Cap)), x.Pos())
		} else {
			max = base.Cap
			fr.oblige("bounds", name, And(Le("0", lo), Le(lo, hi), Le(hi, base.Cap)), x.Pos())
		}
		esz := size(t.Elem())
		// Go: slicing a nil slice [0:0] stays nil; the address arithmetic 0+0 keeps that.
		return Value{Kind: KSlice, Typ: x.Type(),
			T:   fx.enc.Def("sl.ptr", "Int", Add(base.T, Mul(lo, Num(esz)))),
			Len: fx.enc.Def("sl.len", "Int", Sub(hi, lo)),
			Cap: fx.enc.Def("sl.cap", "Int", Sub(max, lo))}
	case *types.Basic: // string
		if x.High != nil {
			hi = fr.val(x.High).T
		} else {
			hi = base.Len
		}
		fr.oblige("bounds", name, And(Le("0", lo), Le(lo, hi), Le(hi, base.Len)), x.Pos())
		return Value{Kind: KString, Typ: x.Type(), T: fx.enc.Def("ss.ptr", "Int", Add(base.T, lo)), Len: fx.enc.Def("ss.len", "Int", Sub(hi, lo))}
	case *types.Pointer:
		arr := under(t.Elem()).(*types.Array)
		n := Num(arr.Len())
		if g, isG := x.X.(*ssa.Global); isG && fx.E.immGlobal[g] {
			base = fx.loadGlobal(nil, g)
		} else {
			fr.nilCheck(x.X, base.T, x.Pos())
		}
		if x.High != nil {
			hi = fr.val(x.High).T
		} else {
			hi = n
		}
		if x.Max != nil {
			max = fr.val(x.Max).T
		} else {
			max = n
		}
		fr.oblige("bounds", name, And(Le("0", lo), Le(lo, hi), Le(hi, max), Le(max, n)), x.Pos())
		esz := size(arr.Elem())
		return Value{Kind: KSlice, Typ: x.Type(),
			T:   fx.enc.Def("sl.ptr", "Int", Add(base.T, Mul(lo, Num(esz)))),
			Len: fx.enc.Def("sl.len", "Int", Sub(hi, lo)),
			Cap: fx.enc.Def("sl.cap", "Int", Sub(max, lo))}
	}
	fr.unsupported("Slice on %v", x.X.Type())
	return Value{}
}

func (fr *frame) convert(x *ssa.Convert, st *State) Value {
	fx := fr.fx
	v := fr.val(x.X)
	from, to := x.X.Type(), x.Type()
	_, _, _, _, fromInt := intRange(from)
	_, _, _, _, toInt := intRange(to)
	switch {
	case fromInt && toInt:
		lo1, hi1, b1, s1, _ := intRange(from)
		_, _, b2, s2, _ := intRange(to)
		_ = lo1
		_ = hi1
		if (s1 == s2 && b2 >= b1) || (!s1 && s2 && b2 > b1) {
			return IntV(v.T, to) // value-preserving
		}
		return IntV(fx.enc.Def("conv", "Int", wrapTo(v.T, to)), to)
	case fromInt && isFloatType(to):
		return IntV(fx.enc.Def("i2f", "Int", app("i2f", v.T)), to)
	case isFloatType(from) && toInt:
		r := fx.enc.Def("f2i", "Int", wrapTo(app("f2i", v.T), to))
		return IntV(r, to)
	case isFloatType(from) && isFloatType(to):
		return IntV(v.T, to)
	case isStringType(from) && isStringType(to):
		v.Typ = to
		return v
	}
	// string <-> []byte, []rune; integer -> string
	if sl, ok := under(to).(*types.Slice); ok && isStringType(from) {
		if typeKey(sl.Elem()) == "uint8" {
			p := fr.freshAddr(st, "bytes", v.Len)
			// contents copied from string memory
			fx.nq++
			q := fmt.Sprintf("k?%d", fx.nq)
			old := fx.heapOf(st, "M.uint8")
			nm := fx.enc.Decl("M.uint8", "(Array Int Int)")
			fx.enc.Assume(Forall(q, Ite(And(Le(p, q), Lt(q, Add(p, v.Len))),
				Eq(Select(nm, q), Select(fx.strMem(), Add(v.T, Sub(q, p)))),
				Eq(Select(nm, q), Select(old, q)))))
			st.Heap["M.uint8"] = nm
			// an empty string converts to an empty non-nil or nil slice; Go gives a non-nil empty slice for "" in general
			return Value{Kind: KSlice, T: p, Len: v.Len, Cap: v.Len, Typ: to}
		}
		// []rune
		p := fr.freshAddr(st, "runes", v.Len)
		n := fx.enc.Decl("nrunes", "Int")
		fx.enc.Assume(And(Le("0", n), Le(n, v.Len), Implies(Gt(v.Len, "0"), Gt(n, "0"))))
		return Value{Kind: KSlice, T: p, Len: n, Cap: n, Typ: to}
	}
	if sl, ok := under(from).(*types.Slice); ok && isStringType(to) {
		p := fx.enc.Decl("str.conv", "Int")
		fx.enc.Assume(Gt(p, "0"))
		if typeKey(sl.Elem()) == "uint8" {
			if n, ok := isNumLit(v.Len); ok && n <= 16 {
				for i := int64(0); i < n; i++ {
					fx.enc.Assume(Eq(Select(fx.strMem(), Add(p, Num(i))), Select(fx.heapOf(st, "M.uint8"), Add(v.T, Num(i)))))
				}
			} else {
				fx.nq++
				q := fmt.Sprintf("k?%d", fx.nq)
				fx.enc.Assume(Forall(q, Implies(And(Le("0", q), Lt(q, v.Len)),
					Eq(Select(fx.strMem(), Add(p, q)), Select(fx.heapOf(st, "M.uint8"), Add(v.T, q))))))
			}
			// remember where the bytes came from: comparisons of this string with constants can then be stated on the
			// byte memory directly (no quantifier instantiation needed)
			if fx.strFrom == nil {
				fx.strFrom = map[Term]strOrigin{}
			}
			fx.strFrom[p] = strOrigin{arr: fx.heapOf(st, "M.uint8"), ptr: v.T}
			return Value{Kind: KString, T: p, Len: v.Len, Typ: to}
		}
		n := fx.enc.Decl("slen", "Int")
		fx.enc.Assume(And(Le(v.Len, n), Le(n, Mul("4", v.Len))))
		return Value{Kind: KString, T: p, Len: n, Typ: to}
	}
	if fromInt && isStringType(to) {
		p := fx.enc.Decl("str.rune", "Int")
		n := fx.enc.Decl("slen", "Int")
		fx.enc.Assume(And(Gt(p, "0"), Le("1", n), Le(n, "4")))
		return Value{Kind: KString, T: p, Len: n, Typ: to}
	}
	if _, ok := under(to).(*types.Pointer); ok {
		// unsafe.Pointer conversions
		fr.unsupported("pointer conversion %v -> %v", from, to)
	}
	fr.unsupported("conversion %v -> %v", from, to)
	return Value{}
}

func (fr *frame) makeInterface(x *ssa.MakeInterface, st *State) Value {
	fx := fr.fx
	v := fr.val(x.X)
	T := x.X.Type()
	tag := Num(int64(fx.E.typeID(T)))
	switch under(T).(type) {
	case *types.Pointer, *types.Signature, *types.Map, *types.Chan:
		return Value{Kind: KIface, Tag: tag, T: v.T, Typ: x.Type()}
	}
	if v.Kind == KInt {
		// small scalar payloads are stored directly (plus a type-specific offset is unnecessary: tag distinguishes)
		return Value{Kind: KIface, Tag: tag, T: v.T, Typ: x.Type()}
	}
	if v.Kind == KBool {
		return Value{Kind: KIface, Tag: tag, T: BoolToInt(v.T), Typ: x.Type()}
	}
	if st2, ok := under(T).(*types.Struct); ok && st2.NumFields() == 0 {
		// zero-size value: identity is the type alone
		return Value{Kind: KIface, Tag: tag, T: "0", Typ: x.Type()}
	}
	// box
	addr := fr.freshAddr(st, "box", Num(size(T)))
	fx.storeAt(st, addr, T, "M."+typeKey(T), v)
	return Value{Kind: KIface, Tag: tag, T: addr, Typ: x.Type()}
}

func (fr *frame) typeAssert(x *ssa.TypeAssert, st *State) Value {
	fx := fr.fx
	v := fr.val(x.X)
	if v.Kind != KIface {
		fr.unsupported("type assertion on non-interface value")
	}
	T := x.AssertedType
	var ok Term
	var res Value
	if types.IsInterface(T) {
		id := Num(int64(fx.E.typeID(T)))
		ok = fx.enc.Def("ta.ok", "Bool", And(Ne(v.Tag, "0"), app("implements", v.Tag, id)))
		// static knowledge: the source interface type implements the target trivially
		if types.Implements(x.X.Type(), under(T).(*types.Interface)) {
			ok = fx.enc.Def("ta.ok", "Bool", Ne(v.Tag, "0"))
		}
		res = v
		res.Typ = T
	} else {
		id := Num(int64(fx.E.typeID(T)))
		ok = fx.enc.Def("ta.ok", "Bool", Eq(v.Tag, id))
		switch under(T).(type) {
		case *types.Pointer, *types.Signature, *types.Map, *types.Chan:
			res = IntV(v.T, T)
		default:
			if isBoolType(T) {
				res = BoolV(Eq(v.T, "1"))
			} else if _, _, _, _, isInt := intRange(T); isInt || isFloatType(T) {
				res = IntV(v.T, T)
				fx.assumeRangeIf(ok, res)
			} else {
				res = fx.loadAt(st, v.T, T, "M."+typeKey(T))
			}
		}
	}
	if x.CommaOk {
		// on failure the value is the zero value
		z := fx.zero(T)
		zt, rt := z.terms(), res.terms()
		if len(zt) == len(rt) {
			out := make([]Term, len(rt))
			for i := range rt {
				out[i] = Ite(ok, rt[i], zt[i])
			}
			res, _ = res.rebuild(out)
			if _, isPtr := under(T).(*types.Pointer); isPtr && len(out) == 1 {
				if fx.commaOk == nil {
					fx.commaOk = map[Term]Term{}
				}
				fx.commaOk[out[0]] = ok
			}
		}
		return Value{Kind: KTuple, Elems: []Value{res, BoolV(ok)}, Typ: x.Type()}
	}
	fr.oblige("typeassert", exprName(x.X), ok, x.Pos())
	fr.assume(ok)
	return res
}

func (fx *fx) assumeRangeIf(cond Term, v Value) {
	if lo, hi, _, _, ok := intRange(v.Typ); ok {
		fx.enc.Assume(Implies(cond, And(Le(lo, v.T), Le(v.T, hi))))
	}
}

func (fr *frame) phi(x *ssa.Phi, li *loopInfo) Value {
	b := x.Block()
	var vs []Value
	var ins []inEdge
	for i, p := range b.Preds {
		if li.back[[2]int{p.Index, b.Index}] {
			fr.unsupported("phi at loop header")
		}
		ec, ok := fr.edge[[2]int{p.Index, b.Index}]
		if !ok || ec == False {
			continue
		}
		vs = append(vs, fr.val(x.Edges[i]))
		ins = append(ins, inEdge{cond: ec})
	}
	if len(vs) == 0 {
		return fr.fx.zero(x.Type())
	}
	if len(vs) == 1 {
		return vs[0]
	}
	r := fr.mergeValues("phi", vs, ins)
	r.Typ = x.Type()
	return r
}

func (fr *frame) makeSlice(x *ssa.MakeSlice, st *State) Value {
	fx := fr.fx
	n := fr.val(x.Len).T
	c := fr.val(x.Cap).T
	fr.oblige("bounds", "make", And(Le("0", n), Le(n, c)), x.Pos())
	el := under(x.Type()).(*types.Slice).Elem()
	p := fr.freshAddr(st, "make", Mul(c, Num(size(el))))
	fx.enc.Assume(Le(c, Pow2(maxLenBits)))
	// zero contents for small constant capacities; otherwise state zero-ness with a quantifier for scalar elements
	if k, ok := isNumLit(c); ok && k <= 8 {
		for i := int64(0); i < k; i++ {
			fx.storeAt(st, Add(p, Num(i*size(el))), el, "M."+typeKey(el), fx.zero(el))
		}
	} else if _, _, _, _, isInt := intRange(el); isInt {
		key := "M." + typeKey(el)
		old := fx.heapOf(st, key)
		nm := fx.enc.Decl(key, "(Array Int Int)")
		fx.nq++
		q := fmt.Sprintf("k?%d", fx.nq)
		fx.enc.Assume(Forall(q, Ite(And(Le(p, q), Lt(q, Add(p, c))), Eq(Select(nm, q), "0"), Eq(Select(nm, q), Select(old, q)))))
		st.Heap[key] = nm
	}
	return Value{Kind: KSlice, T: p, Len: n, Cap: c, Typ: x.Type()}
}

func (fr *frame) runDefers(st *State) {
	// functions with Defer instructions are handled by deferCall (executed at RunDefers in LIFO order)
	for i := len(frDefers(fr)) - 1; i >= 0; i-- {
		d := frDefers(fr)[i]
		fr.call(nil, &d.Call, st)
	}
}

var deferTable = map[*frame][]*ssa.Defer{}

func frDefers(fr *frame) []*ssa.Defer { return deferTable[fr] }

func (fr *frame) deferCall(x *ssa.Defer, st *State) {
	// supported shape: defers executed unconditionally before every return that follows them.
	// A defer inside a branch is only run on paths through it; we approximate soundly only for the dominating case.
	if !x.Block().Dominates(fr.fn.Blocks[len(fr.fn.Blocks)-1]) && len(fr.fn.Blocks) > 1 {
		// conditional defer: record with its reach condition by executing it at RunDefers under that condition is not supported
		fr.fx.note("conditional defer in %s: modelled as executed at function exit on every later return", fr.name)
	}
	deferTable[fr] = append(deferTable[fr], x)
}

type tableInfo struct {
	idx  Term
	vals []int64
}

// tableValue builds ite(idx==0, v0, ite(idx==1, v1, ...)) and remembers its structure for later bit operations.
func (fr *frame) tableValue(idx Term, vals []int64, T types.Type) Value {
	fx := fr.fx
	t := Num(vals[len(vals)-1])
	for j := len(vals) - 2; j >= 0; j-- {
		t = Ite(Eq(idx, Num(int64(j))), Num(vals[j]), t)
	}
	name := fx.enc.Def("tbl", "Int", t)
	if fx.tables == nil {
		fx.tables = map[Term]*tableInfo{}
	}
	fx.tables[name] = &tableInfo{idx: idx, vals: vals}
	return IntV(name, T)
}

package vc

import (
	"fmt"
	"go/ast"
	"go/constant"
	"go/token"
	"go/types"
	"sort"
	"strings"

	"golang.org/x/tools/go/ssa"
)

// Engine holds everything shared by all verification runs.
type Engine struct {
	P         *Program
	S         *Specs
	typeIDs   map[string]int
	typeByID  []types.Type
	globals   map[*types.Var]*ssa.Global
	immGlobal map[*ssa.Global]bool
	globalLit map[*ssa.Global]*globalFacts
	modsets   map[*ssa.Function]map[string]bool
	modsetsM  map[*ssa.Function]*ModSet
	prov      *provAnalysis
	candCache map[string]map[CandKey]bool
	effCache  map[string]*Contract
	implCache map[string][]*ssa.Function
	specFuncs map[string]func(ev *Env, e *ECall) Value
	funcIDs   map[string]int
	loopsOf   map[*ssa.Function]*loopInfo
	cg        map[*ssa.Function][]*ssa.Function
	sccOf     map[*ssa.Function]map[*ssa.Function]bool
	MaxInline int
}

type globalFacts struct {
	n      int64   // number of elements of a slice/array literal (-1 unknown)
	elems  []int64 // constant integer elements (nil if not all constant)
	isStr  bool
	str    string
	nested [][]int64 // [][]byte literal: bytes of every element
	isMap  bool
	mapK   []int64 // map literal with constant integer keys and values
	mapV   []int64
	mapS   []string // map literal with constant string keys (values in mapV)
	isInt  bool     // integer variable initialised by a constant expression
	intVal int64
}

func NewEngine(P *Program, S *Specs) *Engine {
	E := &Engine{P: P, S: S, typeIDs: map[string]int{}, globals: map[*types.Var]*ssa.Global{}, immGlobal: map[*ssa.Global]bool{},
		globalLit: map[*ssa.Global]*globalFacts{}, modsets: map[*ssa.Function]map[string]bool{}, specFuncs: map[string]func(*Env, *ECall) Value{},
		funcIDs: map[string]int{}, loopsOf: map[*ssa.Function]*loopInfo{}, MaxInline: 6}
	E.typeByID = append(E.typeByID, nil)
	E.scanGlobals()
	E.specFuncs["cnt"] = func(ev *Env, e *ECall) Value {
		// cnt(s, c, lo, hi): number of indices k in [lo,hi) with s[k] == c
		if len(e.Args) != 4 {
			ev.errf("cnt(slice, byte, lo, hi)")
		}
		s := ev.eval(e.Args[0])
		c := ev.evalI(e.Args[1])
		lo := ev.evalI(e.Args[2])
		hi := ev.evalI(e.Args[3])
		if s.Kind != KSlice || elemSize(s) != 1 {
			ev.errf("cnt: byte slice expected")
		}
		fx := ev.fr.fx
		el := under(s.Typ).(*types.Slice).Elem()
		fx.enc.usesCnt = true
		arr := fx.heapOf(ev.cur, "M."+typeKey(el))
		a, h := Add(s.T, lo), Add(s.T, hi)
		t := app("cntA", arr, c, a, h)
		if fx.enc.quiet == 0 {
			if fx.enc.cntSeen == nil {
				fx.enc.cntSeen = map[string]bool{}
			}
			if !fx.enc.cntSeen[t] {
				fx.enc.cntSeen[t] = true
				// one-step unfolding of the recursive definition at h
				prev := app("cntA", arr, c, a, Sub(h, "1"))
				fx.enc.Assume(Eq(t, Ite(Le(h, a), "0", Add(prev, Ite(Eq(Select(arr, Sub(h, "1")), c), "1", "0")))))
			}
		}
		return IntV(t, tInt)
	}
	E.specFuncs["digitsVal"] = func(ev *Env, e *ECall) Value {
		// digitsVal(s, lo, hi): decimal value of s[lo:hi]
		if len(e.Args) != 3 {
			ev.errf("digitsVal(slice, lo, hi)")
		}
		s := ev.eval(e.Args[0])
		lo := ev.evalI(e.Args[1])
		hi := ev.evalI(e.Args[2])
		if s.Kind != KSlice || elemSize(s) != 1 {
			ev.errf("digitsVal: byte slice expected")
		}
		fx := ev.fr.fx
		el := under(s.Typ).(*types.Slice).Elem()
		fx.enc.usesDv = true
		arr := fx.heapOf(ev.cur, "M."+typeKey(el))
		a, h := Add(s.T, lo), Add(s.T, hi)
		t := app("dvA", arr, a, h)
		if fx.enc.quiet == 0 {
			if fx.enc.cntSeen == nil {
				fx.enc.cntSeen = map[string]bool{}
			}
			if !fx.enc.cntSeen[t] {
				fx.enc.cntSeen[t] = true
				prev := app("dvA", arr, a, Sub(h, "1"))
				fx.enc.Assume(Eq(t, Ite(Le(h, a), "0", Add(Mul("10", prev), app("dclamp", Select(arr, Sub(h, "1")))))))
			}
		}
		return IntV(t, tInt)
	}
	for name, cls := range map[string]string{"digitEnd": "1", "alphaEnd": "2", "hexEnd": "3", "wsEnd": "4"} {
		cls := cls
		name := name
		E.specFuncs[name] = func(ev *Env, e *ECall) Value {
			if len(e.Args) != 2 {
				ev.errf("%s(slice, index)", name)
			}
			s := ev.eval(e.Args[0])
			i := ev.evalI(e.Args[1])
			if s.Kind != KSlice || elemSize(s) != 1 {
				ev.errf("%s: byte slice expected", name)
			}
			el := under(s.Typ).(*types.Slice).Elem()
			ev.fr.fx.enc.usesRunEnd = true
			arr := ev.fr.fx.heapOf(ev.cur, "M."+typeKey(el))
			return IntV(Sub(app("runEnd", cls, arr, Add(s.T, i), Add(s.T, s.Len)), s.T), tInt)
		}
	}
	return E
}

func (E *Engine) typeID(t types.Type) int {
	k := typeKey(t)
	if id, ok := E.typeIDs[k]; ok {
		return id
	}
	id := len(E.typeByID)
	E.typeIDs[k] = id
	E.typeByID = append(E.typeByID, t)
	return id
}

func (E *Engine) typeIDByName(name string) int {
	k := sanitize(name)
	if id, ok := E.typeIDs[k]; ok {
		return id
	}
	id := len(E.typeByID)
	E.typeIDs[k] = id
	E.typeByID = append(E.typeByID, nil)
	return id
}

func (E *Engine) globalOf(v *types.Var) *ssa.Global {
	return E.globals[v]
}

// scanGlobals indexes package-level variables, finds the ones never written outside
// package initialisers, and records facts about literal initialisers.
func (E *Engine) scanGlobals() {
	written := map[*ssa.Global]bool{}
	for _, sp := range E.P.SSA.AllPackages() {
		for _, m := range sp.Members {
			if g, ok := m.(*ssa.Global); ok {
				if v, ok := g.Object().(*types.Var); ok {
					E.globals[v] = g
				}
			}
		}
	}
	var visit func(f *ssa.Function)
	seen := map[*ssa.Function]bool{}
	visit = func(f *ssa.Function) {
		if seen[f] {
			return
		}
		seen[f] = true
		isInit := f.Name() == "init" || strings.HasPrefix(f.Name(), "init#")
		for _, b := range f.Blocks {
			for _, ins := range b.Instrs {
				if st, ok := ins.(*ssa.Store); ok && !isInit {
					if g := rootGlobal(st.Addr); g != nil {
						written[g] = true
					}
				}
				// address of a global escaping into a call or a store counts as written
				if !isInit {
					switch x := ins.(type) {
					case *ssa.Call:
						for _, a := range x.Call.Args {
							if g, ok := a.(*ssa.Global); ok {
								written[g] = true
							}
						}
					case *ssa.Store:
						if g, ok := x.Val.(*ssa.Global); ok {
							written[g] = true
						}
					}
				}
			}
		}
		for _, af := range f.AnonFuncs {
			visit(af)
		}
	}
	for _, f := range E.P.Funcs {
		visit(f)
	}
	for _, g := range E.globals {
		if !written[g] {
			E.immGlobal[g] = true
		}
	}
	// literal facts from the AST
	for _, p := range E.P.Pkgs {
		for _, file := range p.Syntax {
			for _, d := range file.Decls {
				gd, ok := d.(*ast.GenDecl)
				if !ok || gd.Tok != token.VAR {
					continue
				}
				for _, sp := range gd.Specs {
					vs := sp.(*ast.ValueSpec)
					if len(vs.Values) != len(vs.Names) {
						continue
					}
					for i, nm := range vs.Names {
						v, _ := p.TypesInfo.Defs[nm].(*types.Var)
						g := E.globals[v]
						if g == nil {
							continue
						}
						if gf := literalFacts(p.TypesInfo, vs.Values[i]); gf != nil {
							E.globalLit[g] = gf
						}
					}
				}
			}
		}
	}
}

func rootGlobal(v ssa.Value) *ssa.Global {
	for {
		switch x := v.(type) {
		case *ssa.Global:
			return x
		case *ssa.FieldAddr:
			v = x.X
		case *ssa.IndexAddr:
			v = x.X
		default:
			return nil
		}
	}
}

func literalFacts(info *types.Info, e ast.Expr) *globalFacts {
	if tv, ok := info.Types[e]; ok && tv.Value != nil && tv.Value.Kind() == constant.String {
		return &globalFacts{n: int64(len(constant.StringVal(tv.Value))), isStr: true, str: constant.StringVal(tv.Value)}
	}
	if tv, ok := info.Types[e]; ok && tv.Value != nil && tv.Value.Kind() == constant.Int {
		if v, exact := constant.Int64Val(tv.Value); exact {
			return &globalFacts{isInt: true, intVal: v}
		}
	}
	// []byte("...") conversion
	if call, ok := e.(*ast.CallExpr); ok && len(call.Args) == 1 {
		if tv, ok := info.Types[call.Fun]; ok && tv.IsType() {
			if atv, ok := info.Types[call.Args[0]]; ok && atv.Value != nil && atv.Value.Kind() == constant.String {
				s := constant.StringVal(atv.Value)
				gf := &globalFacts{n: int64(len(s))}
				for i := 0; i < len(s); i++ {
					gf.elems = append(gf.elems, int64(s[i]))
				}
				return gf
			}
		}
	}
	cl, ok := e.(*ast.CompositeLit)
	if !ok {
		return nil
	}
	tv, ok := info.Types[cl]
	if !ok {
		return nil
	}
	if _, isMap := under(tv.Type).(*types.Map); isMap {
		gf := &globalFacts{isMap: true}
		for _, el := range cl.Elts {
			kv, ok := el.(*ast.KeyValueExpr)
			if !ok {
				return nil
			}
			ktv, ok1 := info.Types[kv.Key]
			vtv, ok2 := info.Types[kv.Value]
			if !ok1 || !ok2 || ktv.Value == nil || vtv.Value == nil || vtv.Value.Kind() != constant.Int {
				return nil
			}
			v, _ := constant.Int64Val(vtv.Value)
			switch ktv.Value.Kind() {
			case constant.Int:
				k, _ := constant.Int64Val(ktv.Value)
				gf.mapK = append(gf.mapK, k)
			case constant.String:
				gf.mapS = append(gf.mapS, constant.StringVal(ktv.Value))
			default:
				return nil
			}
			gf.mapV = append(gf.mapV, v)
		}
		if len(gf.mapK) != 0 && len(gf.mapS) != 0 {
			return nil
		}
		return gf
	}
	switch under(tv.Type).(type) {
	case *types.Slice, *types.Array:
	default:
		return nil
	}
	// [][]byte{[]byte("..."), ...}
	if sl, ok := under(tv.Type).(*types.Slice); ok {
		if inner, ok := under(sl.Elem()).(*types.Slice); ok && typeKey(inner.Elem()) == "uint8" {
			gf := &globalFacts{n: int64(len(cl.Elts))}
			for _, el := range cl.Elts {
				sub := literalFacts(info, el)
				if sub == nil || sub.elems == nil {
					return &globalFacts{n: int64(len(cl.Elts))}
				}
				gf.nested = append(gf.nested, sub.elems)
			}
			return gf
		}
	}
	gf := &globalFacts{}
	// handle positional and keyed elements
	idx := int64(0)
	max := int64(0)
	vals := map[int64]int64{}
	allConst := true
	for _, el := range cl.Elts {
		val := el
		if kv, ok := el.(*ast.KeyValueExpr); ok {
			ktv, ok := info.Types[kv.Key]
			if !ok || ktv.Value == nil {
				return nil
			}
			k, _ := constant.Int64Val(constant.ToInt(ktv.Value))
			idx = k
			val = kv.Value
		}
		if vtv, ok := info.Types[val]; ok && vtv.Value != nil {
			switch vtv.Value.Kind() {
			case constant.Int:
				x, _ := constant.Int64Val(vtv.Value)
				vals[idx] = x
			case constant.Bool:
				if constant.BoolVal(vtv.Value) {
					vals[idx] = 1
				} else {
					vals[idx] = 0
				}
			default:
				allConst = false
			}
		} else {
			allConst = false
		}
		idx++
		if idx > max {
			max = idx
		}
	}
	gf.n = max
	if a, ok := under(tv.Type).(*types.Array); ok {
		gf.n = a.Len()
	}
	if allConst && gf.n <= 4096 {
		gf.elems = make([]int64, gf.n)
		for k, v := range vals {
			if k < gf.n {
				gf.elems[k] = v
			}
		}
	}
	return gf
}

// ---------------------------------------------------------------- per-run context

// fx is the context of one function under verification (shared by inlined frames).
type fx struct {
	E         *Engine
	enc       *Enc
	root      string
	entryHeap map[string]Term
	strs      map[string]Value
	floats    map[string]Term
	globalVal map[*ssa.Global]Value
	brk0      Term
	smem      Term
	nq        int
	unsupported []string
	facetOK   func(facet string) bool
	tables     map[Term]*tableInfo
	candActive map[CandKey]bool
	candFail   map[CandKey]bool
	commaOk    map[Term]Term // pointer results of comma-ok type assertions -> their ok flag
	strFrom    map[Term]strOrigin // strings produced by string(bytes): the byte memory and address they were copied from
	// opaque specification functions: applications already instantiated, lemmas used, nesting flag, reveal-all (lemma proofs)
	sfSeen      map[string]bool
	sfUsed      map[string]*SpecLemma
	sfInLemma   int
	sfRevealAll bool
}

type strOrigin struct {
	arr, ptr Term
}

func (fx *fx) heapSort(key string) string {
	if strings.HasSuffix(key, "?b") {
		return "(Array Int Bool)"
	}
	return "(Array Int Int)"
}

// heapOf returns the current term of a heap array in a state (entry array if untouched).
func (fx *fx) heapOf(st *State, key string) Term {
	if st != nil {
		if t, ok := st.Heap[key]; ok {
			return t
		}
	}
	if t, ok := fx.entryHeap[key]; ok {
		return t
	}
	// declared in the preamble region: entry arrays must be visible to every obligation, so declare eagerly at first use.
	t := fx.enc.Decl(key, fx.heapSort(key))
	fx.entryHeap[key] = t
	return t
}

func (fx *fx) brkOf(st *State) Term {
	if st != nil && st.Brk != "" {
		return st.Brk
	}
	return fx.brk0
}

func (fx *fx) strMem() Term {
	if fx.smem == "" {
		fx.smem = fx.enc.Decl("MS", "(Array Int Int)")
	}
	return fx.smem
}

func (fx *fx) funcID(name string) Term {
	if id, ok := fx.E.funcIDs[name]; ok {
		return Num(int64(id))
	}
	id := len(fx.E.funcIDs) + 1000
	fx.E.funcIDs[name] = id
	return Num(int64(id))
}

func (fx *fx) floatConst(s string) Term {
	if t, ok := fx.floats[s]; ok {
		return t
	}
	t := fx.enc.Decl("fconst", "Int")
	fx.floats[s] = t
	return t
}

// stringConst interns a string literal: a fixed address with known content in string memory.
func (fx *fx) stringConst(s string) Value {
	if v, ok := fx.strs[s]; ok {
		return v
	}
	p := fx.enc.Decl("str", "Int")
	fx.enc.Assume(Gt(p, "0"))
	if len(s) <= 64 {
		for i := 0; i < len(s); i++ {
			fx.enc.Assume(Eq(Select(fx.strMem(), Add(p, Num(int64(i)))), Num(int64(s[i]))))
		}
	}
	v := Value{Kind: KString, T: p, Len: Num(int64(len(s))), Typ: types.Typ[types.String]}
	fx.strs[s] = v
	return v
}

// zero value of a type.
func (fx *fx) zero(T types.Type) Value {
	switch u := under(T).(type) {
	case *types.Basic:
		switch {
		case u.Info()&types.IsBoolean != 0:
			return Value{Kind: KBool, T: False, Typ: T}
		case u.Info()&types.IsString != 0:
			return Value{Kind: KString, T: "0", Len: "0", Typ: T}
		case u.Info()&(types.IsFloat|types.IsComplex) != 0:
			return IntV(fx.floatConst("0"), T)
		}
		return IntV("0", T)
	case *types.Slice:
		return Value{Kind: KSlice, T: "0", Len: "0", Cap: "0", Typ: T}
	case *types.Interface:
		return Value{Kind: KIface, Tag: "0", T: "0", Typ: T}
	case *types.Struct:
		v := Value{Kind: KStruct, Typ: T}
		for i := 0; i < u.NumFields(); i++ {
			v.Elems = append(v.Elems, fx.zero(u.Field(i).Type()))
		}
		return v
	case *types.Tuple:
		v := Value{Kind: KTuple, Typ: T}
		for i := 0; i < u.Len(); i++ {
			v.Elems = append(v.Elems, fx.zero(u.At(i).Type()))
		}
		return v
	case *types.Array:
		return Value{Kind: KArray, T: "0", Typ: T}
	}
	return IntV("0", T)
}

// sym makes a fresh unconstrained value of a type, with its range facts assumed.
func (fx *fx) sym(name string, T types.Type) Value {
	e := fx.enc
	switch u := under(T).(type) {
	case *types.Basic:
		switch {
		case u.Info()&types.IsBoolean != 0:
			return Value{Kind: KBool, T: e.Decl(name, "Bool"), Typ: T}
		case u.Info()&types.IsString != 0:
			v := Value{Kind: KString, T: e.Decl(name+".ptr", "Int"), Len: e.Decl(name+".len", "Int"), Typ: T}
			fx.assumeRange(v)
			return v
		}
		v := IntV(e.Decl(name, "Int"), T)
		fx.assumeRange(v)
		return v
	case *types.Slice:
		v := Value{Kind: KSlice, T: e.Decl(name+".ptr", "Int"), Len: e.Decl(name+".len", "Int"), Cap: e.Decl(name+".cap", "Int"), Typ: T}
		fx.assumeRange(v)
		return v
	case *types.Interface:
		v := Value{Kind: KIface, Tag: e.Decl(name+".tag", "Int"), T: e.Decl(name+".val", "Int"), Typ: T}
		fx.assumeRange(v)
		return v
	case *types.Struct:
		v := Value{Kind: KStruct, Typ: T}
		for i := 0; i < u.NumFields(); i++ {
			v.Elems = append(v.Elems, fx.sym(name+"."+u.Field(i).Name(), u.Field(i).Type()))
		}
		return v
	case *types.Tuple:
		v := Value{Kind: KTuple, Typ: T}
		for i := 0; i < u.Len(); i++ {
			v.Elems = append(v.Elems, fx.sym(fmt.Sprintf("%s.%d", name, i), u.At(i).Type()))
		}
		return v
	case *types.Array:
		v := Value{Kind: KArray, T: e.Decl(name+".arr", "Int"), Typ: T}
		return v
	}
	v := IntV(e.Decl(name, "Int"), T)
	fx.assumeRange(v)
	return v
}

const maxLenBits = 56

// assumeRange adds the type invariant of a freshly introduced or loaded value.
func (fx *fx) assumeRange(v Value) {
	e := fx.enc
	switch v.Kind {
	case KInt:
		if lo, hi, _, _, ok := intRange(v.Typ); ok {
			if !strings.ContainsAny(v.T, " (") || strings.HasPrefix(v.T, "(select ") {
				e.Assume(And(Le(lo, v.T), Le(v.T, hi)))
			}
		} else if v.Typ != nil {
			switch under(v.Typ).(type) {
			case *types.Pointer, *types.Signature, *types.Map, *types.Chan:
				e.Assume(Ge(v.T, "0"))
			}
		}
	case KSlice:
		e.Assume(And(Le("0", v.Len), Le(v.Len, v.Cap), Le(v.Cap, Pow2(maxLenBits)), Ge(v.T, "0"), Implies(Eq(v.T, "0"), Eq(v.Cap, "0"))))
	case KString:
		e.Assume(And(Le("0", v.Len), Le(v.Len, Pow2(maxLenBits)), Ge(v.T, "0")))
	case KIface:
		e.Assume(And(Ge(v.Tag, "0"), Implies(Eq(v.Tag, "0"), Eq(v.T, "0"))))
	case KStruct, KTuple:
		for _, el := range v.Elems {
			fx.assumeRange(el)
		}
	}
}

// loadAt reads a value of type T located at addr; key names the array for non-struct locations.
func (fx *fx) loadAt(st *State, addr Term, T types.Type, key string) Value {
	e := fx.enc
	switch u := under(T).(type) {
	case *types.Struct:
		v := Value{Kind: KStruct, Typ: T}
		sk := structKey(T)
		off := int64(0)
		for i := 0; i < u.NumFields(); i++ {
			f := u.Field(i)
			v.Elems = append(v.Elems, fx.loadAt(st, Add(addr, Num(off)), f.Type(), "H."+sk+"."+f.Name()))
			off += size(f.Type())
		}
		return v
	case *types.Array:
		return Value{Kind: KArray, T: addr, Typ: T}
	case *types.Slice:
		v := Value{Kind: KSlice, Typ: T,
			T:   e.Def("ld.ptr", "Int", Select(fx.heapOf(st, key+".ptr"), addr)),
			Len: e.Def("ld.len", "Int", Select(fx.heapOf(st, key+".len"), addr)),
			Cap: e.Def("ld.cap", "Int", Select(fx.heapOf(st, key+".cap"), addr))}
		fx.assumeRange(v)
		fx.assumeBelowBrk(v, st)
		return v
	case *types.Interface:
		v := Value{Kind: KIface, Typ: T,
			Tag: e.Def("ld.tag", "Int", Select(fx.heapOf(st, key+".tag"), addr)),
			T:   e.Def("ld.val", "Int", Select(fx.heapOf(st, key+".val"), addr))}
		fx.assumeRange(v)
		return v
	case *types.Basic:
		switch {
		case u.Info()&types.IsBoolean != 0:
			return Value{Kind: KBool, T: Select(fx.heapOf(st, key+"?b"), addr), Typ: T}
		case u.Info()&types.IsString != 0:
			v := Value{Kind: KString, Typ: T,
				T:   e.Def("ld.sptr", "Int", Select(fx.heapOf(st, key+".ptr"), addr)),
				Len: e.Def("ld.slen", "Int", Select(fx.heapOf(st, key+".len"), addr))}
			fx.assumeRange(v)
			return v
		}
	}
	v := IntV(Select(fx.heapOf(st, key), addr), T)
	fx.assumeRange(v)
	fx.assumeBelowBrk(v, st)
	return v
}

// assumeBelowBrk: every existing object was allocated before now, so it lies below the allocation frontier.
func (fx *fx) assumeBelowBrk(v Value, st *State) {
	if v.Typ == nil {
		return
	}
	brk := fx.brkOf(st)
	switch v.Kind {
	case KSlice:
		if sl, ok := under(v.Typ).(*types.Slice); ok {
			fx.enc.Assume(Le(Add(v.T, Mul(v.Cap, Num(size(sl.Elem())))), brk))
		}
	case KInt:
		if pt, ok := under(v.Typ).(*types.Pointer); ok {
			fx.enc.Assume(Le(Add(v.T, Num(size(pt.Elem()))), brk))
		}
	case KStruct, KTuple:
		for _, el := range v.Elems {
			fx.assumeBelowBrk(el, st)
		}
	}
}

// storeAt writes a value of type T at addr.
func (fx *fx) storeAt(st *State, addr Term, T types.Type, key string, v Value) {
	e := fx.enc
	set := func(k string, val Term) {
		st.Heap[k] = e.Def(k, fx.heapSort(k), Store(fx.heapOf(st, k), addr, val))
	}
	switch u := under(T).(type) {
	case *types.Struct:
		sk := structKey(T)
		off := int64(0)
		for i := 0; i < u.NumFields(); i++ {
			f := u.Field(i)
			var fv Value
			if v.Kind == KStruct && i < len(v.Elems) {
				fv = v.Elems[i]
			} else {
				fv = fx.zero(f.Type())
			}
			fx.storeAt(st, Add(addr, Num(off)), f.Type(), "H."+sk+"."+f.Name(), fv)
			off += size(f.Type())
		}
		return
	case *types.Array:
		// array copy: element-wise for small arrays, otherwise havoc the destination range
		n := u.Len()
		el := u.Elem()
		if n <= 16 && v.Kind == KArray {
			for i := int64(0); i < n; i++ {
				src := fx.loadAt(st, Add(v.T, Num(i*size(el))), el, "M."+typeKey(el))
				if v.T == "0" {
					src = fx.zero(el)
				}
				fx.storeAt(st, Add(addr, Num(i*size(el))), el, "M."+typeKey(el), src)
			}
			return
		}
		fx.note("array assignment of %d elements abstracted (destination havocked)", n)
		fx.havocKeys(st, fx.leafKeys(el, "M."+typeKey(el)))
		return
	case *types.Slice:
		set(key+".ptr", v.T)
		set(key+".len", v.Len)
		set(key+".cap", v.Cap)
		return
	case *types.Interface:
		set(key+".tag", v.Tag)
		set(key+".val", v.T)
		return
	case *types.Basic:
		switch {
		case u.Info()&types.IsBoolean != 0:
			set(key+"?b", v.T)
			return
		case u.Info()&types.IsString != 0:
			set(key+".ptr", v.T)
			set(key+".len", v.Len)
			return
		}
	}
	set(key, v.T)
}

// leafKeys lists the heap arrays touched by a location of type T with base key.
func (fx *fx) leafKeys(T types.Type, key string) []string {
	return leafKeysOf(T, key, map[string]bool{})
}

func leafKeysOf(T types.Type, key string, seen map[string]bool) []string {
	switch u := under(T).(type) {
	case *types.Struct:
		sk := structKey(T)
		if seen[sk] {
			return nil
		}
		seen[sk] = true
		var out []string
		for i := 0; i < u.NumFields(); i++ {
			f := u.Field(i)
			out = append(out, leafKeysOf(f.Type(), "H."+sk+"."+f.Name(), seen)...)
		}
		return out
	case *types.Array:
		return leafKeysOf(u.Elem(), "M."+typeKey(u.Elem()), seen)
	case *types.Slice:
		return []string{key + ".ptr", key + ".len", key + ".cap"}
	case *types.Interface:
		return []string{key + ".tag", key + ".val"}
	case *types.Basic:
		switch {
		case u.Info()&types.IsBoolean != 0:
			return []string{key + "?b"}
		case u.Info()&types.IsString != 0:
			return []string{key + ".ptr", key + ".len"}
		}
	}
	return []string{key}
}

func (fx *fx) havocKeys(st *State, keys []string) {
	sort.Strings(keys)
	for _, k := range keys {
		st.Heap[k] = fx.enc.Decl(k, fx.heapSort(k))
	}
}

func (fx *fx) note(format string, a ...interface{}) {
	fx.enc.Notes[fmt.Sprintf(format, a...)] = true
}

// valEq is Go's == on two symbolic values (nil literal allowed on either side).
func (fx *fx) valEq(a, b Value) Term {
	isNil := func(v Value) bool {
		if v.Typ == nil {
			return false
		}
		bt, ok := v.Typ.(*types.Basic)
		return ok && bt.Kind() == types.UntypedNil
	}
	if isNil(a) {
		a, b = b, a
	}
	if isNil(b) {
		switch a.Kind {
		case KSlice:
			return Eq(a.T, "0")
		case KIface:
			return Eq(a.Tag, "0")
		default:
			return Eq(a.T, "0")
		}
	}
	// comparing an interface with a concrete value converts the value to the interface type first
	if a.Kind != KIface && b.Kind == KIface {
		a, b = b, a
	}
	if a.Kind == KIface && b.Kind != KIface && b.Typ != nil {
		payload := Term("0")
		switch b.Kind {
		case KInt:
			payload = b.T
		case KBool:
			payload = BoolToInt(b.T)
		case KStruct:
			if len(b.Elems) > 0 {
				return fx.enc.Decl("ifacecmp", "Bool")
			}
		default:
			return fx.enc.Decl("ifacecmp", "Bool")
		}
		return And(Eq(a.Tag, Num(int64(fx.E.typeID(b.Typ)))), Eq(a.T, payload))
	}
	switch a.Kind {
	case KBool:
		return Eq(a.T, b.T)
	case KInt:
		if isFloatType(a.Typ) {
			return app("fcmp", "0", a.T, b.T)
		}
		return Eq(a.T, b.T)
	case KString:
		if b.Kind != KString {
			break
		}
		return fx.strEq(a, b)
	case KIface:
		if b.Kind == KIface {
			return And(Eq(a.Tag, b.Tag), Eq(a.T, b.T))
		}
	case KStruct, KTuple:
		var cs []Term
		for i := range a.Elems {
			cs = append(cs, fx.valEq(a.Elems[i], b.Elems[i]))
		}
		return And(cs...)
	case KSlice:
		return And(Eq(a.T, b.T), Eq(a.Len, b.Len), Eq(a.Cap, b.Cap))
	case KArray:
		return Eq(a.T, b.T)
	}
	return Eq(a.T, b.T)
}

func (fx *fx) strEq(a, b Value) Term {
	// with a literal side of known small length: compare byte by byte
	lit := func(v Value) (int64, bool) { return isNumLit(v.Len) }
	if n, ok := lit(b); ok && n <= 16 {
		cs := []Term{Eq(a.Len, b.Len)}
		for i := int64(0); i < n; i++ {
			cs = append(cs, Eq(Select(fx.strMem(), Add(a.T, Num(i))), Select(fx.strMem(), Add(b.T, Num(i)))))
		}
		return And(cs...)
	}
	if n, ok := lit(a); ok && n <= 16 {
		return fx.strEq(b, a)
	}
	return And(Eq(a.Len, b.Len), Or(Eq(a.T, b.T), app("streq", a.T, a.Len, b.T, b.Len)))
}

// loadGlobal reads a package-level variable.
func (fx *fx) loadGlobal(st *State, g *ssa.Global) Value {
	T := g.Type().(*types.Pointer).Elem()
	if fx.E.immGlobal[g] {
		if v, ok := fx.globalVal[g]; ok {
			return v
		}
		name := "G." + shortPkg(g.Pkg.Pkg.Path()) + "." + g.Name()
		var v Value
		if _, isArr := under(T).(*types.Array); isArr {
			v = Value{Kind: KArray, T: fx.enc.Decl(name, "Int"), Typ: T}
			fx.enc.Assume(Gt(v.T, "0"))
		} else {
			v = fx.sym(name, T)
		}
		fx.globalVal[g] = v
		// facts from the literal initialiser (ground facts: asserted even when the first use of the table is inside a
		// quantifier body, where assumptions are otherwise suppressed)
		savedQuiet := fx.enc.quiet
		fx.enc.quiet = 0
		defer func() { fx.enc.quiet = savedQuiet }()
		if gf := fx.E.globalLit[g]; gf != nil {
			switch v.Kind {
			case KSlice:
				fx.enc.Assume(And(Eq(v.Len, Num(gf.n)), Eq(v.Cap, Num(gf.n)), Gt(v.T, "0"), Le(Add(v.T, v.Cap), fx.brk0)))
				if gf.elems != nil && gf.n <= 512 {
					el := under(T).(*types.Slice).Elem()
					fx.globalElems(v.T, el, gf.elems)
				}
				if gf.nested != nil && len(gf.nested) <= 128 {
					// slice of byte-slice literals: headers and contents of every element (entry memory)
					fx.note("contents of immutable package-level tables are taken from their literals (no writes to them: frame property C20)")
					el := under(T).(*types.Slice).Elem()
					key := "M." + typeKey(el)
					for i, bs := range gf.nested {
						a := Add(v.T, Num(int64(i)))
						ip := fx.enc.Decl(name+".e", "Int")
						fx.enc.Assume(And(Gt(ip, "0"), Le(Add(ip, Num(int64(len(bs)))), fx.brk0),
							Eq(Select(fx.heapOf(nil, key+".ptr"), a), ip),
							Eq(Select(fx.heapOf(nil, key+".len"), a), Num(int64(len(bs)))),
							Eq(Select(fx.heapOf(nil, key+".cap"), a), Num(int64(len(bs))))))
						for j, b := range bs {
							fx.enc.Assume(Eq(Select(fx.heapOf(nil, "M.uint8"), Add(ip, Num(int64(j)))), Num(b)))
						}
					}
				}
			case KArray:
				if gf.elems != nil && gf.n <= 512 {
					fx.globalElems(v.T, under(T).(*types.Array).Elem(), gf.elems)
				}
			case KInt:
				if gf.isInt {
					if bt, ok := under(T).(*types.Basic); ok && bt.Info()&types.IsInteger != 0 {
						fx.enc.Assume(Eq(v.T, Num(gf.intVal)))
					}
				}
			case KString:
				if gf.isStr {
					sc := fx.stringConst(gf.str)
					fx.enc.Assume(And(Eq(v.T, sc.T), Eq(v.Len, sc.Len)))
				}
			}
		}
		if v.Kind == KIface {
			// distinct immutable interface globals (error values) are distinct non-nil objects
			fx.enc.Assume(Gt(v.Tag, "0"))
			fx.enc.Assume(Eq(v.T, fx.funcID("global:"+name)))
		}
		return v
	}
	addr := fx.globalAddr(g)
	return fx.loadAt(st, addr, T, "M."+typeKey(T))
}

func (fx *fx) globalAddr(g *ssa.Global) Term {
	return fx.funcID("addr:" + g.Pkg.Pkg.Path() + "." + g.Name())
}

// globalElems states the entry-memory contents of an immutable global table (assumption: never written, see C20).
func (fx *fx) globalElems(ptr Term, el types.Type, elems []int64) {
	fx.note("contents of immutable package-level tables are taken from their literals (no writes to them: frame property C20)")
	if isBoolType(el) {
		arr := fx.heapOf(nil, "M."+typeKey(el)+"?b")
		for i, x := range elems {
			t := Select(arr, Add(ptr, Num(int64(i))))
			if x != 0 {
				fx.enc.Assume(t)
			} else {
				fx.enc.Assume(Not(t))
			}
		}
		return
	}
	if _, _, _, _, ok := intRange(el); !ok {
		return
	}
	arr := fx.heapOf(nil, "M."+typeKey(el))
	for i, x := range elems {
		fx.enc.Assume(Eq(Select(arr, Add(ptr, Num(int64(i)))), Num(x)))
	}
}

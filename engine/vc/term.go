package vc

import (
	"fmt"
	"math/big"
	"strings"
)

// Term is SMT-LIB 2 text. Sorts used: Int, Bool, (Array Int Int), (Array Int Bool).
type Term = string

const (
	True  Term = "true"
	False Term = "false"
)

func Num(n int64) Term {
	if n < 0 {
		if n == -9223372036854775808 {
			return "(- 9223372036854775808)"
		}
		return fmt.Sprintf("(- %d)", -n)
	}
	return fmt.Sprintf("%d", n)
}

func NumBig(n *big.Int) Term {
	if n.Sign() < 0 {
		return "(- " + new(big.Int).Neg(n).String() + ")"
	}
	return n.String()
}

func isNumLit(t Term) (int64, bool) {
	if len(t) == 0 || len(t) > 18 {
		return 0, false
	}
	var n int64
	for _, c := range t {
		if c < '0' || c > '9' {
			return 0, false
		}
		n = n*10 + int64(c-'0')
	}
	return n, true
}

func app(op string, args ...Term) Term {
	return "(" + op + " " + strings.Join(args, " ") + ")"
}

func And(ts ...Term) Term {
	var out []Term
	for _, t := range ts {
		if t == True || t == "" {
			continue
		}
		if t == False {
			return False
		}
		out = append(out, t)
	}
	switch len(out) {
	case 0:
		return True
	case 1:
		return out[0]
	}
	return app("and", out...)
}

func Or(ts ...Term) Term {
	var out []Term
	for _, t := range ts {
		if t == False || t == "" {
			continue
		}
		if t == True {
			return True
		}
		out = append(out, t)
	}
	switch len(out) {
	case 0:
		return False
	case 1:
		return out[0]
	}
	return app("or", out...)
}

func Not(t Term) Term {
	switch t {
	case True:
		return False
	case False:
		return True
	}
	if strings.HasPrefix(t, "(not ") {
		return t[5 : len(t)-1]
	}
	return app("not", t)
}

func Implies(a, b Term) Term {
	if a == True {
		return b
	}
	if a == False || b == True {
		return True
	}
	return app("=>", a, b)
}

func Eq(a, b Term) Term {
	if a == b {
		return True
	}
	return app("=", a, b)
}
func Ne(a, b Term) Term { return Not(Eq(a, b)) }
func Lt(a, b Term) Term { return app("<", a, b) }
func Le(a, b Term) Term { return app("<=", a, b) }
func Gt(a, b Term) Term { return app(">", a, b) }
func Ge(a, b Term) Term { return app(">=", a, b) }

func Add(a, b Term) Term {
	if a == "0" {
		return b
	}
	if b == "0" {
		return a
	}
	if x, ok := isNumLit(a); ok {
		if y, ok := isNumLit(b); ok && x < 1<<40 && y < 1<<40 {
			return Num(x + y)
		}
	}
	return app("+", a, b)
}
func Sub(a, b Term) Term {
	if b == "0" {
		return a
	}
	if x, ok := isNumLit(a); ok {
		if y, ok := isNumLit(b); ok && x >= y {
			return Num(x - y)
		}
	}
	return app("-", a, b)
}
func Mul(a, b Term) Term {
	if a == "1" {
		return b
	}
	if b == "1" {
		return a
	}
	if a == "0" || b == "0" {
		return "0"
	}
	return app("*", a, b)
}
func Neg(a Term) Term { return app("-", a) }
func Ite(c, a, b Term) Term {
	if c == True {
		return a
	}
	if c == False {
		return b
	}
	if a == b {
		return a
	}
	return app("ite", c, a, b)
}
func Select(arr, i Term) Term    { return app("select", arr, i) }
func Store(arr, i, v Term) Term  { return app("store", arr, i, v) }
func Div(a, b Term) Term         { return app("div", a, b) }
func Mod(a, b Term) Term         { return app("mod", a, b) }
func BoolToInt(b Term) Term      { return Ite(b, "1", "0") }
func Forall(v string, body Term) Term {
	return "(forall ((" + v + " Int)) " + body + ")"
}
func Exists(v string, body Term) Term {
	return "(exists ((" + v + " Int)) " + body + ")"
}

var pow2 [80]*big.Int

func init() {
	for i := range pow2 {
		pow2[i] = new(big.Int).Lsh(big.NewInt(1), uint(i))
	}
}

func Pow2(k int) Term { return pow2[k].String() }

// sanitize makes an SMT symbol from an arbitrary string.
func sanitize(s string) string {
	var b strings.Builder
	for _, c := range s {
		switch {
		case c >= 'a' && c <= 'z', c >= 'A' && c <= 'Z', c >= '0' && c <= '9', c == '_', c == '.', c == '$', c == '!':
			b.WriteRune(c)
		case c == '*':
			b.WriteString("p!")
		case c == '[':
			b.WriteString("s!")
		case c == ']':
		case c == '/':
			b.WriteString("_")
		default:
			b.WriteString("_")
		}
	}
	return b.String()
}

type bigInt = big.Int

var bigOne = big.NewInt(1)

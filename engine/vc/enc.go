package vc

import (
	"fmt"
	"go/token"
	"sort"
	"strings"
)

// Enc accumulates the SMT encoding of one function under verification.
type Enc struct {
	lines []string
	n     int
	Obls  []*Obligation
	// occurrence counters for obligation names
	occ map[string]int
	// assumptions recorded for the evidence (trusted callee contracts used, abstractions hit)
	Notes map[string]bool
	// quiet > 0 while evaluating under a quantifier: no definitions or assumptions may mention bound variables
	quiet int
	usesRunEnd bool
	usesCnt    bool
	usesDv     bool
	ghosts     map[string]int
	cntSeen    map[string]bool
	foldDefs   []string        // SMT definitions of user fold functions used (step function + declaration), in first-use order
	foldSeen   map[string]bool
	orbitLemmas map[string]string // lemma name -> SMT script that must be unsat
}

// Probe is a labelled term whose model value is wanted for replay.
type Probe struct {
	Label string
	T     Term
}

// Obligation is one proof goal: the lines before At are the hypotheses.
type Obligation struct {
	Func   string // function under verification
	Name   string // full stable name
	Kind   string // bounds, nil, pre, post, inv-entry, inv-step, variant, assert, panic, typeassert, div, frame, cover
	Goal   Term   // must be valid under lines[:At]
	At     int
	Pos    token.Position
	Facet  string
	Tags   []string // property tags of the clause
	Expect string   // "unsat" for proof goals, "sat" for cover/vacuity goals
	Probes []Probe
	Cand   *CandKey // set for candidate-invariant checks (Houdini)
	enc    *Enc
}

// CandKey identifies a candidate invariant at one loop.
type CandKey struct {
	C    *Clause
	Loop int
}

func NewEnc() *Enc {
	return &Enc{occ: map[string]int{}, Notes: map[string]bool{}}
}

func (e *Enc) fresh(base string) string {
	e.n++
	return fmt.Sprintf("%s!%d", sanitize(base), e.n)
}

func (e *Enc) Decl(base, sort string) Term {
	n := e.fresh(base)
	e.lines = append(e.lines, fmt.Sprintf("(declare-const %s %s)", n, sort))
	return n
}

func (e *Enc) Def(base, sort string, t Term) Term {
	// do not rename atoms
	if !strings.ContainsAny(t, " (") || e.quiet > 0 {
		return t
	}
	n := e.fresh(base)
	e.lines = append(e.lines, fmt.Sprintf("(define-fun %s () %s %s)", n, sort, t))
	return n
}

func (e *Enc) Assume(t Term) {
	if t == True || e.quiet > 0 {
		return
	}
	e.lines = append(e.lines, "(assert "+t+")")
}

func (e *Enc) Comment(s string) {
	e.lines = append(e.lines, "; "+strings.ReplaceAll(s, "\n", " "))
}

// Oblige records a proof goal. name is the part after "<func>/".
func (e *Enc) Oblige(fn, kind, what string, goal Term, pos token.Position) *Obligation {
	base := fn + "/" + kind + ":" + what
	e.occ[base]++
	name := base
	if k := e.occ[base]; k > 1 {
		name = fmt.Sprintf("%s#%d", base, k)
	}
	o := &Obligation{Func: fn, Name: name, Kind: kind, Goal: goal, At: len(e.lines), Pos: pos, Expect: "unsat", enc: e}
	e.Obls = append(e.Obls, o)
	return o
}

// SlicedQuery renders the query without the quantified memory frames of heap arrays outside the goal's
// definitional cone (path conditions are treated as opaque). Dropping hypotheses is sound: unsat still means valid.
// ok=false if nothing could be dropped.
func (o *Obligation) SlicedQuery(prelude string) (string, bool) {
	lines := o.enc.lines[:o.At]
	defs := map[string]string{}
	for _, l := range lines {
		if strings.HasPrefix(l, "(define-fun ") {
			f := strings.SplitN(l, " ", 3)
			if len(f) == 3 {
				defs[f[1]] = f[2]
			}
		}
	}
	keys := map[string]bool{}
	seen := map[string]bool{}
	var walk func(text string)
	walk = func(text string) {
		for _, sym := range symbolsOf(text) {
			if seen[sym] {
				continue
			}
			seen[sym] = true
			base := sym
			if k := strings.LastIndex(sym, "!"); k > 0 {
				base = sym[:k]
			}
			if strings.HasPrefix(base, "M.") || strings.HasPrefix(base, "H.") || base == "MS" {
				keys[base] = true
			}
			if strings.HasPrefix(base, "reach") || strings.HasPrefix(base, "cond") || strings.HasPrefix(base, "exit") {
				continue
			}
			if d, ok := defs[sym]; ok {
				walk(d)
			}
		}
	}
	walk(o.Goal)
	dropped := 0
	var b strings.Builder
	b.WriteString(prelude)
	b.WriteString(o.preambleExtras())
	for _, l := range lines {
		if strings.HasPrefix(l, "(assert (forall ") {
			rel := false
			for _, sym := range symbolsOf(l) {
				base := sym
				if k := strings.LastIndex(sym, "!"); k > 0 {
					base = sym[:k]
				}
				if keys[base] {
					rel = true
					break
				}
			}
			if !rel {
				dropped++
				continue
			}
		}
		b.WriteString(l)
		b.WriteByte('\n')
	}
	if dropped == 0 {
		return "", false
	}
	b.WriteString("(assert (not " + o.Goal + "))\n(check-sat)\n")
	return b.String(), true
}

// AbstractQuery is a coarser weakening of the query for goals that concern a few heap arrays only (e.g. a nesting
// counter across a function with a hundred calls): assertions that mention none of the heap arrays in the goal's cone are
// dropped, and Boolean definitions (branch conditions) that mention none of them become unconstrained constants, so the
// control-flow skeleton (reach definitions) is kept while the data conditions are forgotten. Every step only removes
// hypotheses, so `unsat` is conclusive; anything else means "try the full query".
func (o *Obligation) AbstractQuery(prelude string) (string, bool) {
	lines := o.enc.lines[:o.At]
	defs := map[string]string{}
	for _, l := range lines {
		if strings.HasPrefix(l, "(define-fun ") {
			f := strings.SplitN(l, " ", 3)
			if len(f) == 3 {
				defs[f[1]] = f[2]
			}
		}
	}
	baseOf := func(sym string) string {
		if k := strings.LastIndex(sym, "!"); k > 0 {
			return sym[:k]
		}
		return sym
	}
	keys := map[string]bool{}
	seen := map[string]bool{}
	var walk func(text string)
	walk = func(text string) {
		for _, sym := range symbolsOf(text) {
			if seen[sym] {
				continue
			}
			seen[sym] = true
			base := baseOf(sym)
			if strings.HasPrefix(base, "M.") || strings.HasPrefix(base, "H.") || strings.HasPrefix(base, "G.") || base == "MS" {
				keys[base] = true
			}
			if strings.HasPrefix(base, "reach") || strings.HasPrefix(base, "cond") || strings.HasPrefix(base, "exit") {
				continue
			}
			if d, ok := defs[sym]; ok {
				walk(d)
			}
		}
	}
	walk(o.Goal)
	if len(keys) == 0 || len(keys) > 12 {
		return "", false
	}
	// dep[sym]: the defined symbol depends, directly or through other definitions, on one of the goal's heap arrays
	dep := map[string]bool{}
	mentions := func(text string) bool {
		for _, sym := range symbolsOf(text) {
			if keys[baseOf(sym)] || dep[sym] {
				return true
			}
		}
		return false
	}
	for _, l := range lines { // definitions precede their uses
		if strings.HasPrefix(l, "(define-fun ") {
			f := strings.SplitN(l, " ", 3)
			if len(f) == 3 && mentions(f[2]) {
				dep[f[1]] = true
			}
		}
	}
	var b strings.Builder
	b.WriteString(prelude)
	b.WriteString(o.preambleExtras())
	changed := 0
	for _, l := range lines {
		switch {
		case strings.HasPrefix(l, "(assert "):
			if !mentions(l) {
				changed++
				continue
			}
		case strings.HasPrefix(l, "(define-fun "):
			f := strings.SplitN(l, " ", 3)
			if len(f) == 3 && strings.HasPrefix(f[2], "() Bool ") {
				base := baseOf(f[1])
				if !strings.HasPrefix(base, "reach") && !strings.HasPrefix(base, "exit") && !mentions(f[2]) {
					b.WriteString("(declare-const " + f[1] + " Bool)\n")
					changed++
					continue
				}
			}
		}
		b.WriteString(l)
		b.WriteByte('\n')
	}
	if changed == 0 {
		return "", false
	}
	b.WriteString("(assert (not " + o.Goal + "))\n(check-sat)\n")
	return b.String(), true
}

// symbolsOf lists the generated symbols (name!N) of a piece of SMT text.
func symbolsOf(text string) []string {
	var out []string
	i := 0
	for i < len(text) {
		c := text[i]
		if c == '(' || c == ')' || c == ' ' || c == '\n' {
			i++
			continue
		}
		j := i
		for j < len(text) && text[j] != '(' && text[j] != ')' && text[j] != ' ' && text[j] != '\n' {
			j++
		}
		tok := text[i:j]
		if strings.Contains(tok, "!") {
			out = append(out, tok)
		}
		i = j
	}
	return out
}

func (o *Obligation) preambleExtras() string {
	var b strings.Builder
	if len(o.enc.ghosts) > 0 {
		var names []string
		for n := range o.enc.ghosts {
			names = append(names, n)
		}
		sort.Strings(names)
		for _, n := range names {
			b.WriteString("(declare-fun g!" + n + " (" + strings.TrimSpace(strings.Repeat("Int ", o.enc.ghosts[n])) + ") Int)\n")
		}
	}
	if o.enc.usesRunEnd {
		b.WriteString(RunEndAxioms)
	}
	if o.enc.usesCnt {
		b.WriteString(CntAxioms)
	}
	if o.enc.usesDv {
		b.WriteString(DvAxioms)
	}
	for _, d := range o.enc.foldDefs {
		b.WriteString(d)
	}
	return b.String()
}

// Query renders the SMT-LIB script for one obligation.
func (o *Obligation) Query(prelude string) string {
	var b strings.Builder
	b.WriteString(prelude)
	if len(o.enc.ghosts) > 0 {
		var names []string
		for n := range o.enc.ghosts {
			names = append(names, n)
		}
		sort.Strings(names)
		for _, n := range names {
			b.WriteString("(declare-fun g!" + n + " (" + strings.TrimSpace(strings.Repeat("Int ", o.enc.ghosts[n])) + ") Int)\n")
		}
	}
	if o.enc.usesRunEnd {
		b.WriteString(RunEndAxioms)
	}
	if o.enc.usesCnt {
		b.WriteString(CntAxioms)
	}
	if o.enc.usesDv {
		b.WriteString(DvAxioms)
	}
	for _, d := range o.enc.foldDefs {
		b.WriteString(d)
	}
	for _, l := range o.enc.lines[:o.At] {
		b.WriteString(l)
		b.WriteByte('\n')
	}
	if o.Expect == "sat" {
		b.WriteString("(assert " + o.Goal + ")\n")
	} else {
		b.WriteString("(assert (not " + o.Goal + "))\n")
	}
	b.WriteString("(check-sat)\n")
	if len(o.Probes) > 0 {
		b.WriteString("(get-value (")
		for _, p := range o.Probes {
			b.WriteString(p.T)
			b.WriteByte(' ')
		}
		b.WriteString("))\n")
	}
	return b.String()
}

// Prelude declares the uninterpreted operations and helpers shared by all queries.
const Prelude = `(set-option :produce-models true)
(set-logic ALL)
(declare-fun band (Int Int) Int)
(declare-fun bor (Int Int) Int)
(declare-fun bxor (Int Int) Int)
(declare-fun bandnot (Int Int) Int)
(declare-fun shl (Int Int) Int)
(declare-fun shr (Int Int) Int)
(declare-fun fop (Int Int Int) Int)
(declare-fun fcmp (Int Int Int) Bool)
(declare-fun i2f (Int) Int)
(declare-fun f2i (Int) Int)
(declare-fun opaque (Int Int) Int)
(declare-fun implements (Int Int) Bool)
(declare-fun streq (Int Int Int Int) Bool)
(declare-fun strlt (Int Int Int Int) Bool)
(define-fun wrapu ((x Int) (m Int)) Int (ite (and (<= 0 x) (< x m)) x (mod x m)))
(define-fun wraps ((x Int) (h Int)) Int (ite (and (<= (- h) x) (< x h)) x (- (mod (+ x h) (* 2 h)) h)))
(define-fun imin ((a Int) (b Int)) Int (ite (<= a b) a b))
(define-fun imax ((a Int) (b Int)) Int (ite (<= a b) b a))
`

// RunEndAxioms axiomatise runEnd(cls, m, a, h): the first address in [a,h) whose byte is not in the character
// class, or h if there is none. Total and consistent for every array (guarded by a <= h).
const RunEndAxioms = `(define-fun inCls ((k Int) (c Int)) Bool
  (ite (= k 1) (and (<= 48 c) (<= c 57))
  (ite (= k 2) (or (and (<= 97 c) (<= c 122)) (and (<= 65 c) (<= c 90)))
  (ite (= k 3) (or (and (<= 48 c) (<= c 57)) (and (<= 97 c) (<= c 102)) (and (<= 65 c) (<= c 70)))
  (ite (= k 4) (or (= c 32) (= c 9) (= c 10) (= c 13) (= c 12))
  false)))))
(declare-fun runEnd (Int (Array Int Int) Int Int) Int)
(assert (forall ((c Int) (m (Array Int Int)) (a Int) (h Int)) (! (=> (<= a h) (and (<= a (runEnd c m a h)) (<= (runEnd c m a h) h) (=> (< (runEnd c m a h) h) (not (inCls c (select m (runEnd c m a h))))))) :pattern ((runEnd c m a h)))))
(assert (forall ((c Int) (m (Array Int Int)) (a Int) (h Int) (k Int)) (! (=> (and (<= a k) (< k (runEnd c m a h))) (inCls c (select m k))) :pattern ((runEnd c m a h) (select m k)))))
`

// CntAxioms: cntA(m, c, a, h) is the number of addresses k in [a,h) with m[k] == c (defined by recursion on h).
// The engine asserts the one-step unfolding for every cnt term a contract mentions; the monotonicity lemma
// below follows by induction on h (its induction step is discharged as a lemma obligation in every check that uses cnt).
const CntAxioms = `(declare-fun cntA ((Array Int Int) Int Int Int) Int)
(assert (forall ((m (Array Int Int)) (c Int) (a Int) (k Int) (h Int)) (! (=> (<= k h) (<= (cntA m c a k) (cntA m c a h))) :pattern ((cntA m c a k) (cntA m c a h)))))
(assert (forall ((m (Array Int Int)) (c Int) (a Int) (h Int)) (! (and (<= 0 (cntA m c a h)) (=> (<= h a) (= (cntA m c a h) 0)) (=> (<= a h) (<= (cntA m c a h) (- h a)))) :pattern ((cntA m c a h)))))
(assert (forall ((m (Array Int Int)) (c Int) (a Int) (h Int) (k Int)) (! (=> (and (<= a k) (< k h) (= (cntA m c a h) 0)) (not (= (select m k) c))) :pattern ((cntA m c a h) (select m k)))))
`

// CntLemmaProofs are the induction proofs of the three lemmas in CntAxioms from the recursive definition of cntA
// (each script must be unsat). They are discharged as obligations of every check that relies on cnt.
var CntLemmaProofs = map[string]string{
	"lemma:cnt-monotone/step": `(declare-fun cntA ((Array Int Int) Int Int Int) Int)
(assert (forall ((m (Array Int Int)) (c Int) (a Int) (h Int)) (! (= (cntA m c a h) (ite (<= h a) 0 (+ (cntA m c a (- h 1)) (ite (= (select m (- h 1)) c) 1 0)))) :pattern ((cntA m c a h)))))
(declare-const m (Array Int Int)) (declare-const c Int) (declare-const a Int) (declare-const h Int) (declare-const k Int)
(assert (forall ((j Int)) (=> (<= j h) (<= (cntA m c a j) (cntA m c a h)))))
(assert (<= k (+ h 1)))
(assert (not (<= (cntA m c a k) (cntA m c a (+ h 1)))))
(check-sat)
`,
	"lemma:cnt-monotone/base": `(declare-fun cntA ((Array Int Int) Int Int Int) Int)
(assert (forall ((m (Array Int Int)) (c Int) (a Int) (h Int)) (! (= (cntA m c a h) (ite (<= h a) 0 (+ (cntA m c a (- h 1)) (ite (= (select m (- h 1)) c) 1 0)))) :pattern ((cntA m c a h)))))
(declare-const m (Array Int Int)) (declare-const c Int) (declare-const a Int) (declare-const h Int) (declare-const k Int)
(assert (<= h a))
(assert (<= k h))
(assert (not (<= (cntA m c a k) (cntA m c a h))))
(check-sat)
`,
	"lemma:cnt-bounds/step": `(declare-fun cntA ((Array Int Int) Int Int Int) Int)
(assert (forall ((m (Array Int Int)) (c Int) (a Int) (h Int)) (! (= (cntA m c a h) (ite (<= h a) 0 (+ (cntA m c a (- h 1)) (ite (= (select m (- h 1)) c) 1 0)))) :pattern ((cntA m c a h)))))
(declare-const m (Array Int Int)) (declare-const c Int) (declare-const a Int) (declare-const h Int)
(assert (<= a h))
(assert (and (<= 0 (cntA m c a h)) (<= (cntA m c a h) (- h a))))
(assert (not (and (<= 0 (cntA m c a (+ h 1))) (<= (cntA m c a (+ h 1)) (- (+ h 1) a)))))
(check-sat)
`,
	"lemma:cnt-zero/step": `(declare-fun cntA ((Array Int Int) Int Int Int) Int)
(assert (forall ((m (Array Int Int)) (c Int) (a Int) (h Int)) (! (= (cntA m c a h) (ite (<= h a) 0 (+ (cntA m c a (- h 1)) (ite (= (select m (- h 1)) c) 1 0)))) :pattern ((cntA m c a h)))))
(declare-const m (Array Int Int)) (declare-const c Int) (declare-const a Int) (declare-const h Int) (declare-const k Int)
(assert (<= a h))
(assert (<= 0 (cntA m c a h)))
(assert (=> (= (cntA m c a h) 0) (forall ((j Int)) (=> (and (<= a j) (< j h)) (not (= (select m j) c))))))
(assert (= (cntA m c a (+ h 1)) 0))
(assert (and (<= a k) (< k (+ h 1))))
(assert (= (select m k) c))
(check-sat)
`,
}


// DvAxioms: dvA(m, a, h) is the decimal value of the bytes m[a..h) (non-digits count as 0), by recursion on h:
// dvA(m,a,h) = 0 if h <= a, else 10*dvA(m,a,h-1) + digit(m[h-1]). The engine asserts the one-step unfolding for
// every term used; non-negativity and monotonicity are lemmas (proved by induction in every check that uses dv).
const DvAxioms = `(define-fun dclamp ((c Int)) Int (ite (and (<= 48 c) (<= c 57)) (- c 48) 0))
(declare-fun dvA ((Array Int Int) Int Int) Int)
(assert (forall ((m (Array Int Int)) (a Int) (h Int)) (! (and (<= 0 (dvA m a h)) (=> (<= h a) (= (dvA m a h) 0))) :pattern ((dvA m a h)))))
(assert (forall ((m (Array Int Int)) (a Int) (k Int) (h Int)) (! (=> (<= k h) (<= (dvA m a k) (dvA m a h))) :pattern ((dvA m a k) (dvA m a h)))))
`

var DvLemmaProofs = map[string]string{
	"lemma:dv-nonneg/step": `(define-fun dclamp ((c Int)) Int (ite (and (<= 48 c) (<= c 57)) (- c 48) 0))
(declare-fun dvA ((Array Int Int) Int Int) Int)
(assert (forall ((m (Array Int Int)) (a Int) (h Int)) (! (= (dvA m a h) (ite (<= h a) 0 (+ (* 10 (dvA m a (- h 1))) (dclamp (select m (- h 1)))))) :pattern ((dvA m a h)))))
(declare-const m (Array Int Int)) (declare-const a Int) (declare-const h Int)
(assert (<= 0 (dvA m a h)))
(assert (not (<= 0 (dvA m a (+ h 1)))))
(check-sat)
`,
	"lemma:dv-monotone/step": `(define-fun dclamp ((c Int)) Int (ite (and (<= 48 c) (<= c 57)) (- c 48) 0))
(declare-fun dvA ((Array Int Int) Int Int) Int)
(assert (forall ((m (Array Int Int)) (a Int) (h Int)) (! (= (dvA m a h) (ite (<= h a) 0 (+ (* 10 (dvA m a (- h 1))) (dclamp (select m (- h 1)))))) :pattern ((dvA m a h)))))
(declare-const m (Array Int Int)) (declare-const a Int) (declare-const h Int) (declare-const k Int)
(assert (forall ((j Int)) (<= 0 (dvA m a j))))
(assert (forall ((j Int)) (=> (<= j h) (<= (dvA m a j) (dvA m a h)))))
(assert (<= k (+ h 1)))
(assert (not (<= (dvA m a k) (dvA m a (+ h 1)))))
(check-sat)
`,
	"lemma:dv-monotone/base": `(define-fun dclamp ((c Int)) Int (ite (and (<= 48 c) (<= c 57)) (- c 48) 0))
(declare-fun dvA ((Array Int Int) Int Int) Int)
(assert (forall ((m (Array Int Int)) (a Int) (h Int)) (! (= (dvA m a h) (ite (<= h a) 0 (+ (* 10 (dvA m a (- h 1))) (dclamp (select m (- h 1)))))) :pattern ((dvA m a h)))))
(declare-const m (Array Int Int)) (declare-const a Int) (declare-const h Int) (declare-const k Int)
(assert (<= h a))
(assert (<= k h))
(assert (not (<= (dvA m a k) (dvA m a h))))
(check-sat)
`,
}

package vc

import (
	"fmt"
	"os"
	"os/exec"
	"path/filepath"
	"sort"
	"strings"
)

// writeReplay writes the replay file of a failed obligation and tries to reproduce a counterexample on the real code.
// It returns the path and the trailing note of the VIOLATION line ("" when a failing input was reproduced).
func writeReplay(E *Engine, dir, prop string, r *Result) (string, string) {
	os.MkdirAll(filepath.Join(dir, prop), 0o755)
	base := filepath.Join(dir, prop, sanitize(r.O.Name))
	var b strings.Builder
	fmt.Fprintf(&b, "obligation: %s\nproperty: %s\nkind: %s\nat: %s\nfunction: %s\n", r.O.Name, prop, r.O.Kind, shortFile(r.O.Pos), r.O.Func)
	fmt.Fprintf(&b, "verifier: %s answered %q after %.2fs (status %s)\n", r.Solver, r.Answer, r.Seconds, r.Status)
	fmt.Fprintf(&b, "goal (must be valid under the function's hypotheses):\n  %s\n", truncate(r.O.Goal, 2000))
	if len(r.Model) > 0 {
		b.WriteString("counterexample (model values):\n")
		var ks []string
		for k := range r.Model {
			ks = append(ks, k)
		}
		sort.Strings(ks)
		for _, k := range ks {
			fmt.Fprintf(&b, "  %s = %s\n", k, r.Model[k])
		}
	}
	note := "no-failing-input-found"
	if r.Status == "failed" && len(r.Model) > 0 {
		if rep := tryReplay(E, r, base); rep != nil {
			b.WriteString("\nreplay on the real code:\n" + rep.Log)
			if rep.Reproduced {
				note = ""
				b.WriteString("\nRESULT: reproduced on the real code\n")
			} else {
				b.WriteString("\nRESULT: the model state did not reproduce a failure on the real code\n")
			}
			if rep.TestFile != "" {
				b.WriteString("replay test: " + rep.TestFile + "\nrun: " + rep.Cmd + "\n")
			}
		}
	}
	b.WriteString("\nsolver output (first answer):\n" + truncate(r.Output, 1500) + "\n")
	os.WriteFile(base+".txt", []byte(b.String()), 0o644)
	os.WriteFile(base+".smt2", []byte(r.O.Query(Prelude)), 0o644)
	return base + ".txt", note
}

type replayResult struct {
	Reproduced bool
	Log        string
	TestFile   string
	Cmd        string
}

// tryReplay is filled in by replaygen.go.
var tryReplay = func(E *Engine, r *Result, base string) *replayResult { return nil }

// replayRun re-executes the replay test recorded in a replay file, if any.
func replayRun(path string) int {
	data, err := os.ReadFile(path)
	if err != nil {
		return 2
	}
	for _, l := range strings.Split(string(data), "\n") {
		if strings.HasPrefix(l, "run: ") {
			cmd := exec.Command("bash", "-c", strings.TrimPrefix(l, "run: "))
			out, _ := cmd.CombinedOutput()
			fmt.Println("---- re-running the replay test on the current tree ----")
			fmt.Print(string(out))
			if strings.Contains(string(out), "REPLAY-PANIC") || strings.Contains(string(out), "REPLAY-CLAUSE-FALSE") || strings.Contains(string(out), "fatal error") {
				fmt.Println("REPLAY: failure reproduced")
				return 1
			}
			fmt.Println("REPLAY: no failure on the current tree")
			return 0
		}
	}
	fmt.Println("REPLAY: this replay file carries no executable test (no failing input was found); see the obligation and solver output above")
	return 0
}

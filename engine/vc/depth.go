package vc

import (
	"fmt"
	"path"
	"sort"
	"strings"

	"golang.org/x/tools/go/ssa"
)

// Recursion-depth argument (property C01, "no fatal stack exhaustion however deeply the input nests").
//
// Some functions are declared depth guards in the contract file (`depthguard COUNTER LIMIT`): they increment a nesting
// counter on entry, refuse to go on when it exceeds a limit, and make their recursive calls only while the increment is
// in force. The argument has three parts, each of which is an obligation:
//
//  1. (cycle) Every cycle of the call graph passes through a guard: the graph without the edges INTO guard functions is
//     acyclic. Checked on the SSA call graph (static calls, closures, interface dispatch resolved by class hierarchy).
//  2. (atcall, VC) In a guard, at every call that can lead back to the guard, COUNTER >= old(COUNTER)+1 and
//     COUNTER <= LIMIT (clauses `atcalls` of the guard's contract, discharged by the SMT solvers like any obligation).
//  3. (levels, VC) No function of a recursive component ever returns with a counter below its value at entry
//     (`ensures[F,depth]` clauses on every function of the component), so between two guard activations on the stack the
//     measure LIMIT-COUNTER has dropped by at least one.
//
// Together: the number of guard activations on the stack is at most the sum of the limits plus the number of guards, and
// between two of them at most |component| other frames, so the stack depth is bounded independently of the input.

// callGraph returns the static call graph over repository functions (memoised).
func (E *Engine) callGraph() map[*ssa.Function][]*ssa.Function {
	if E.cg != nil {
		return E.cg
	}
	E.cg = map[*ssa.Function][]*ssa.Function{}
	for _, f := range E.P.Funcs {
		seen := map[*ssa.Function]bool{}
		var addFn func(fn *ssa.Function)
		addFn = func(fn *ssa.Function) {
			for _, b := range fn.Blocks {
				for _, ins := range b.Instrs {
					if ci, ok := ins.(ssa.CallInstruction); ok {
						targets, _, _ := E.callTargets(ci.Common())
						for _, t := range targets {
							if !seen[t] {
								seen[t] = true
								E.cg[f] = append(E.cg[f], t)
							}
						}
					}
				}
			}
			// anonymous functions defined inside run on behalf of f
			for _, an := range fn.AnonFuncs {
				addFn(an)
			}
		}
		addFn(f)
	}
	return E.cg
}

// sccs computes the strongly connected components of a graph restricted to the given nodes, skipping edges for which
// skip(from, to) holds.
func sccsOf(nodes []*ssa.Function, succ func(*ssa.Function) []*ssa.Function, skip func(a, b *ssa.Function) bool) [][]*ssa.Function {
	index := map[*ssa.Function]int{}
	low := map[*ssa.Function]int{}
	on := map[*ssa.Function]bool{}
	var stack []*ssa.Function
	var out [][]*ssa.Function
	n := 0
	var visit func(v *ssa.Function)
	visit = func(v *ssa.Function) {
		n++
		index[v], low[v] = n, n
		stack = append(stack, v)
		on[v] = true
		for _, w := range succ(v) {
			if skip != nil && skip(v, w) {
				continue
			}
			if index[w] == 0 {
				visit(w)
				if low[w] < low[v] {
					low[v] = low[w]
				}
			} else if on[w] && index[w] < low[v] {
				low[v] = index[w]
			}
		}
		if low[v] == index[v] {
			var comp []*ssa.Function
			for {
				w := stack[len(stack)-1]
				stack = stack[:len(stack)-1]
				on[w] = false
				comp = append(comp, w)
				if w == v {
					break
				}
			}
			out = append(out, comp)
		}
	}
	for _, v := range nodes {
		if index[v] == 0 {
			visit(v)
		}
	}
	return out
}

// recursiveComponent returns the set of functions in the same strongly connected component of the full call graph as fn
// (empty if fn is not recursive).
func (E *Engine) recursiveComponent(fn *ssa.Function) map[*ssa.Function]bool {
	if E.sccOf == nil {
		E.sccOf = map[*ssa.Function]map[*ssa.Function]bool{}
		cg := E.callGraph()
		var nodes []*ssa.Function
		for _, n := range E.P.SortedFuncNames() {
			nodes = append(nodes, E.P.Funcs[n])
		}
		for _, comp := range sccsOf(nodes, func(f *ssa.Function) []*ssa.Function { return cg[f] }, nil) {
			set := map[*ssa.Function]bool{}
			if len(comp) == 1 {
				self := false
				for _, t := range cg[comp[0]] {
					if t == comp[0] {
						self = true
					}
				}
				if !self {
					continue
				}
			}
			for _, f := range comp {
				set[f] = true
			}
			for _, f := range comp {
				E.sccOf[f] = set
			}
		}
	}
	return E.sccOf[fn]
}

func init() {
	Analyses["depth"] = depthAnalysis
}

// depthAnalysis: part 1 of the argument (the cycle check) for the packages the property selects with "depth:<pkg>".
func depthAnalysis(E *Engine, ps *PropSpec) []*ExtraResult {
	var out []*ExtraResult
	cg := E.callGraph()
	guards := map[*ssa.Function]bool{}
	var guardNames []string
	for name, ct := range E.S.Contracts {
		if ct.DepthGuard != "" {
			if f := E.P.Funcs[name]; f != nil {
				guards[f] = true
				guardNames = append(guardNames, name)
			}
		}
	}
	sort.Strings(guardNames)
	var nodes []*ssa.Function
	for _, n := range E.P.SortedFuncNames() {
		nodes = append(nodes, E.P.Funcs[n])
	}
	comps := sccsOf(nodes, func(f *ssa.Function) []*ssa.Function { return cg[f] }, func(a, b *ssa.Function) bool { return guards[b] })
	bad := 0
	for _, comp := range comps {
		cyclic := len(comp) > 1
		if !cyclic {
			for _, t := range cg[comp[0]] {
				if t == comp[0] && !guards[t] {
					cyclic = true
				}
			}
		}
		if !cyclic {
			continue
		}
		var names []string
		for _, f := range comp {
			names = append(names, E.P.Names[f])
		}
		sort.Strings(names)
		if ps.DepthScope != "" {
			in := false
			for _, n := range names {
				if strings.HasPrefix(n, ps.DepthScope) {
					in = true
				}
			}
			if !in {
				continue
			}
		}
		if allowedRecursion(E, comp) {
			continue
		}
		bad++
		out = append(out, &ExtraResult{Name: "depth:cycle:" + names[0] + fmt.Sprintf("+%d", len(names)-1), Kind: "depth", OK: false, By: "call-graph analysis",
			Detail: "recursion cycle that passes through no depth guard: " + strings.Join(names, ", "), Note: "no-failing-input-found"})
	}
	if bad == 0 {
		out = append(out, &ExtraResult{Name: "depth:cycles", Kind: "depth", OK: true, By: "call-graph analysis",
			Detail: fmt.Sprintf("every cycle of the call graph (%d functions) passes through a depth guard (%s) or is structurally bounded (declared `recursion structural` with the reason)", len(nodes), strings.Join(guardNames, ", "))})
	}
	return out
}

// allowedRecursion: every function of the component is declared `recursion structural` (recursion over an already built,
// finite data structure such as the AST, whose depth the parser's limits bound).
func allowedRecursion(E *Engine, comp []*ssa.Function) bool {
	for _, f := range comp {
		ct := E.S.Contracts[E.P.Names[f]]
		if ct == nil || !ct.StructuralRec {
			// also accept a package-wide declaration: "recursion structural pkg.Type.*" patterns
			ok := false
			for _, pat := range E.S.StructuralRecPatterns {
				if matchName(pat, E.P.Names[f]) {
					ok = true
				}
			}
			if !ok {
				return false
			}
		}
	}
	return true
}

func matchName(pat, name string) bool {
	ok, _ := path.Match(pat, name)
	return ok
}

package vc

import (
	"fmt"
	"go/constant"
	"go/types"
	"strings"

	"golang.org/x/tools/go/ssa"
)

// specErr is raised (as panic) when a contract expression cannot be evaluated.
type specErr string

// Env evaluates contract expressions to symbolic values.
type Env struct {
	fr    *frame
	vars  map[string]Value
	cur   *State
	old   *State
	pkg   *types.Package
	local func(name string) (Value, bool)
	nq    *int
	// preferLocals: inside loop clauses a name denotes the current value of the local variable (parameters are
	// mutable in Go); old(param) denotes the entry value.
	preferLocals bool
	selfT        Term
	bound        map[string]bool
	prevSt       *State // loop-head state of the current iteration (transition clauses)
	prevLoop     *loop
}

func (ev *Env) with(cur *State) *Env {
	n := *ev
	n.cur = cur
	return &n
}

func (ev *Env) bind(name string, v Value) *Env {
	n := *ev
	n.vars = make(map[string]Value, len(ev.vars)+1)
	for k, x := range ev.vars {
		n.vars[k] = x
	}
	n.vars[name] = v
	n.bound = make(map[string]bool, len(ev.bound)+1)
	for k := range ev.bound {
		n.bound[k] = true
	}
	n.bound[name] = true
	return &n
}

func (ev *Env) errf(format string, a ...interface{}) {
	panic(specErr(fmt.Sprintf(format, a...)))
}

var tInt = types.Typ[types.Int]

// EvalBool evaluates a clause to a Bool term; errors are returned.
func (ev *Env) EvalBool(e Expr) (t Term, err error) {
	defer func() {
		if r := recover(); r != nil {
			if se, ok := r.(specErr); ok {
				err = fmt.Errorf("%s", string(se))
				return
			}
			panic(r)
		}
	}()
	v := ev.eval(e)
	if v.Kind != KBool {
		return "", fmt.Errorf("clause is not boolean")
	}
	return v.T, nil
}

func (ev *Env) EvalInt(e Expr) (t Term, err error) {
	defer func() {
		if r := recover(); r != nil {
			if se, ok := r.(specErr); ok {
				err = fmt.Errorf("%s", string(se))
				return
			}
			panic(r)
		}
	}()
	v := ev.eval(e)
	if v.Kind != KInt {
		return "", fmt.Errorf("expression is not an integer")
	}
	return v.T, nil
}

func (ev *Env) eval(e Expr) Value {
	fx := ev.fr.fx
	switch e := e.(type) {
	case *ENum:
		return IntV(NumBig(e.Val), tInt)
	case *EBool:
		if e.Val {
			return BoolV(True)
		}
		return BoolV(False)
	case *EStr:
		return fx.stringConst(e.Val)
	case *EIdent:
		if ev.preferLocals && ev.local != nil {
			if _, bound := ev.bound[e.Name]; !bound {
				if v, ok := ev.local(e.Name); ok {
					return v
				}
			}
		}
		if v, ok := ev.vars[e.Name]; ok {
			return v
		}
		if ev.local != nil {
			if v, ok := ev.local(e.Name); ok {
				return v
			}
		}
		if e.Name == "nil" {
			return Value{Kind: KInt, T: "0", Typ: types.Typ[types.UntypedNil]}
		}
		if ev.pkg != nil {
			if obj := ev.pkg.Scope().Lookup(e.Name); obj != nil {
				return ev.objValue(obj)
			}
		}
		ev.errf("unknown identifier %q", e.Name)
	case *EUnary:
		x := ev.eval(e.X)
		switch e.Op {
		case "!":
			ev.want(x, KBool, "!")
			return BoolV(Not(x.T))
		case "-":
			ev.want(x, KInt, "-")
			return IntV(Neg(x.T), tInt)
		}
		ev.errf("unsupported unary %s", e.Op)
	case *EBinary:
		return ev.binary(e)
	case *ESel:
		// package-qualified name?
		if id, ok := e.X.(*EIdent); ok {
			if _, isVar := ev.vars[id.Name]; !isVar {
				if p := ev.importedPkg(id.Name); p != nil {
					obj := p.Scope().Lookup(e.Name)
					if obj == nil {
						ev.errf("no %s in package %s", e.Name, id.Name)
					}
					return ev.objValue(obj)
				}
			}
		}
		x := ev.eval(e.X)
		return ev.field(x, e.Name)
	case *EIndex:
		x := ev.eval(e.X)
		i := ev.eval(e.I)
		ev.want(i, KInt, "index")
		return ev.index(x, i.T)
	case *ESlice:
		x := ev.eval(e.X)
		if x.Kind != KSlice && x.Kind != KString {
			ev.errf("slicing a non-slice")
		}
		lo, hi := Term("0"), x.Len
		if e.Lo != nil {
			lo = ev.eval(e.Lo).T
		}
		if e.Hi != nil {
			hi = ev.eval(e.Hi).T
		}
		r := x
		esz := int64(1)
		if x.Kind == KSlice {
			esz = size(under(x.Typ).(*types.Slice).Elem())
			if e.Max != nil {
				r.Cap = Sub(ev.eval(e.Max).T, lo)
			} else {
				r.Cap = Sub(x.Cap, lo)
			}
		}
		r.T = Add(x.T, Mul(lo, Num(esz)))
		r.Len = Sub(hi, lo)
		return r
	case *ECall:
		return ev.call(e)
	}
	ev.errf("unsupported expression %T", e)
	return Value{}
}

// findIndexBase finds an expression x such that x[name] occurs in e (x not mentioning name).
func findIndexBase(e Expr, name string) Expr {
	return findIndexBaseP(e, name, nil, 0)
}

// findIndexBaseP also looks through predicate applications p(.., x, .., name, ..) whose body indexes a parameter by the
// parameter that name is passed for.
func findIndexBaseP(e Expr, name string, preds map[string]*Pred, depth int) Expr {
	var found Expr
	var walk func(e Expr)
	mentions := func(e Expr) bool {
		m := false
		var w func(e Expr)
		w = func(e Expr) {
			switch x := e.(type) {
			case *EIdent:
				if x.Name == name {
					m = true
				}
			case *EUnary:
				w(x.X)
			case *EBinary:
				w(x.X)
				w(x.Y)
			case *ECall:
				for _, a := range x.Args {
					w(a)
				}
			case *ESel:
				w(x.X)
			case *EIndex:
				w(x.X)
				w(x.I)
			case *ESlice:
				w(x.X)
				if x.Lo != nil {
					w(x.Lo)
				}
				if x.Hi != nil {
					w(x.Hi)
				}
			}
		}
		w(e)
		return m
	}
	walk = func(e Expr) {
		if found != nil {
			return
		}
		switch x := e.(type) {
		case *EUnary:
			walk(x.X)
		case *EBinary:
			walk(x.X)
			walk(x.Y)
		case *ECall:
			if x.Fun == "old" || x.Fun == "ite" || x.Fun == "min" || x.Fun == "max" {
				if x.Fun == "old" {
					return // the base would have to be evaluated in the old state; keep index form
				}
			}
			if x.Fun == "forall" || x.Fun == "exists" {
				return
			}
			if p, ok := preds[x.Fun]; ok && depth < 4 && len(p.Params) == len(x.Args) {
				for i, a := range x.Args {
					if id, ok := a.(*EIdent); ok && id.Name == name {
						if b := findIndexBaseP(p.Body, p.Params[i], preds, depth+1); b != nil {
							if bid, ok := b.(*EIdent); ok {
								for j, q := range p.Params {
									if q == bid.Name && j != i && !mentions(x.Args[j]) {
										found = x.Args[j]
										return
									}
								}
							}
						}
					}
				}
			}
			for _, a := range x.Args {
				walk(a)
			}
		case *ESel:
			walk(x.X)
		case *EIndex:
			if id, ok := x.I.(*EIdent); ok && id.Name == name && !mentions(x.X) {
				found = x.X
				return
			}
			walk(x.X)
			walk(x.I)
		}
	}
	walk(e)
	return found
}

func elemSize(v Value) int64 {
	if v.Kind == KString {
		return 1
	}
	if sl, ok := under(v.Typ).(*types.Slice); ok {
		return size(sl.Elem())
	}
	return 0
}

// tryEval evaluates without failing the whole clause.
func (ev *Env) tryEval(e Expr) (v Value, ok bool) {
	defer func() {
		if r := recover(); r != nil {
			if _, is := r.(specErr); is {
				ok = false
				return
			}
			panic(r)
		}
	}()
	return ev.eval(e), true
}

func (ev *Env) want(v Value, k Kind, what string) {
	if v.Kind != k {
		ev.errf("operand of %s has wrong kind (%v, type %v)", what, v.Kind, v.Typ)
	}
}

func (ev *Env) importedPkg(name string) *types.Package {
	if ev.pkg == nil {
		return nil
	}
	for _, p := range ev.pkg.Imports() {
		if p.Name() == name {
			return p
		}
	}
	// also allow repo packages by short name even when not imported
	for _, sp := range ev.fr.fx.E.P.SPkgs {
		if sp != nil && sp.Pkg.Name() == name && strings.HasPrefix(sp.Pkg.Path(), ModPath) {
			return sp.Pkg
		}
	}
	return nil
}

func (ev *Env) objValue(obj types.Object) Value {
	fx := ev.fr.fx
	switch o := obj.(type) {
	case *types.Const:
		return fx.constValue(o.Val(), o.Type())
	case *types.Var:
		g := fx.E.globalOf(o)
		if g == nil {
			ev.errf("no SSA global for %s", o.Name())
		}
		return fx.loadGlobal(ev.cur, g)
	case *types.Func:
		return IntV(fx.funcID(o.FullName()), o.Type())
	}
	ev.errf("unsupported object %v", obj)
	return Value{}
}

func (ev *Env) field(x Value, name string) Value {
	fx := ev.fr.fx
	T := x.Typ
	if T == nil {
		ev.errf("selecting .%s on untyped value", name)
	}
	obj, path, _ := types.LookupFieldOrMethod(T, true, nil, name)
	if obj == nil && ev.pkg != nil {
		obj, path, _ = types.LookupFieldOrMethod(T, true, ev.pkg, name)
	}
	if obj == nil {
		// try every repo package (unexported fields of other packages)
		for _, sp := range fx.E.P.SPkgs {
			if sp == nil {
				continue
			}
			obj, path, _ = types.LookupFieldOrMethod(T, true, sp.Pkg, name)
			if obj != nil {
				break
			}
		}
	}
	fv, ok := obj.(*types.Var)
	if !ok || fv == nil {
		ev.errf("no field %s in %v", name, T)
	}
	cur := x
	for _, idx := range path {
		ct := cur.Typ
		if p, ok := under(ct).(*types.Pointer); ok {
			st := under(p.Elem()).(*types.Struct)
			addr := Add(cur.T, Num(fieldOffset(st, idx)))
			cur = fx.loadAt(ev.cur, addr, st.Field(idx).Type(), "H."+structKey(p.Elem())+"."+st.Field(idx).Name())
		} else if st, ok := under(ct).(*types.Struct); ok {
			if cur.Kind != KStruct {
				ev.errf("struct value expected for .%s", name)
			}
			cur = cur.Elems[idx]
			_ = st
		} else {
			ev.errf("cannot select .%s on %v", name, ct)
		}
	}
	return cur
}

// addrOf computes base + i, cancelling i of the form (- k base).
func addrOf(base, i Term) Term {
	pre := "(- "
	if strings.HasPrefix(i, pre) && strings.HasSuffix(i, " "+base+")") {
		k := i[len(pre) : len(i)-len(base)-2]
		if !strings.ContainsAny(k, " ()") {
			return k
		}
	}
	return Add(base, i)
}

func (ev *Env) index(x Value, i Term) Value {
	fx := ev.fr.fx
	switch x.Kind {
	case KSlice:
		el := under(x.Typ).(*types.Slice).Elem()
		if size(el) == 1 {
			return fx.loadAt(ev.cur, addrOf(x.T, i), el, "M."+typeKey(el))
		}
		return fx.loadAt(ev.cur, Add(x.T, Mul(i, Num(size(el)))), el, "M."+typeKey(el))
	case KString:
		return IntV(Select(fx.strMem(), addrOf(x.T, i)), types.Typ[types.Uint8])
	case KArray:
		el := under(x.Typ).(*types.Array).Elem()
		return fx.loadAt(ev.cur, Add(x.T, Mul(i, Num(size(el)))), el, "M."+typeKey(el))
	case KInt:
		if p, ok := under(x.Typ).(*types.Pointer); ok {
			if a, ok := under(p.Elem()).(*types.Array); ok {
				el := a.Elem()
				return fx.loadAt(ev.cur, Add(x.T, Mul(i, Num(size(el)))), el, "M."+typeKey(el))
			}
		}
	}
	ev.errf("indexing unsupported value of type %v", x.Typ)
	return Value{}
}

func (ev *Env) binary(e *EBinary) Value {
	switch e.Op {
	case "&&":
		return BoolV(And(ev.evalB(e.X), ev.evalB(e.Y)))
	case "||":
		return BoolV(Or(ev.evalB(e.X), ev.evalB(e.Y)))
	case "==>":
		return BoolV(Implies(ev.evalB(e.X), ev.evalB(e.Y)))
	case "<==>":
		return BoolV(Eq(ev.evalB(e.X), ev.evalB(e.Y)))
	}
	x, y := ev.eval(e.X), ev.eval(e.Y)
	switch e.Op {
	case "==":
		return BoolV(ev.fr.fx.valEq(x, y))
	case "!=":
		return BoolV(Not(ev.fr.fx.valEq(x, y)))
	}
	if x.Kind != KInt || y.Kind != KInt {
		ev.errf("operator %s on non-integers (%v, %v)", e.Op, x.Typ, y.Typ)
	}
	switch e.Op {
	case "<":
		return BoolV(Lt(x.T, y.T))
	case "<=":
		return BoolV(Le(x.T, y.T))
	case ">":
		return BoolV(Gt(x.T, y.T))
	case ">=":
		return BoolV(Ge(x.T, y.T))
	case "+":
		return IntV(Add(x.T, y.T), tInt)
	case "-":
		return IntV(Sub(x.T, y.T), tInt)
	case "*":
		return IntV(Mul(x.T, y.T), tInt)
	case "/":
		return IntV(Div(x.T, y.T), tInt)
	case "%":
		return IntV(Mod(x.T, y.T), tInt)
	case "<<":
		if k, ok := isNumLit(y.T); ok && k < 70 {
			return IntV(Mul(x.T, Pow2(int(k))), tInt)
		}
	case ">>":
		if k, ok := isNumLit(y.T); ok && k < 70 {
			return IntV(Div(x.T, Pow2(int(k))), tInt)
		}
	case "&":
		if k, ok := isNumLit(y.T); ok {
			if b := maskBits(k); b >= 0 {
				return IntV(Mod(x.T, Pow2(b)), tInt)
			}
		}
		return IntV(app("band", x.T, y.T), tInt)
	case "|":
		return IntV(app("bor", x.T, y.T), tInt)
	case "^":
		return IntV(app("bxor", x.T, y.T), tInt)
	}
	ev.errf("unsupported operator %s", e.Op)
	return Value{}
}

func maskBits(k int64) int {
	for b := 0; b < 63; b++ {
		if k == (int64(1)<<uint(b))-1 {
			return b
		}
	}
	return -1
}

func (ev *Env) evalB(e Expr) Term {
	v := ev.eval(e)
	if v.Kind != KBool {
		ev.errf("boolean expected")
	}
	return v.T
}

func (ev *Env) evalI(e Expr) Term {
	v := ev.eval(e)
	if v.Kind != KInt {
		ev.errf("integer expected, got kind %v type %v", v.Kind, v.Typ)
	}
	return v.T
}

func (ev *Env) call(e *ECall) Value {
	fx := ev.fr.fx
	argn := func(n int) {
		if len(e.Args) != n {
			ev.errf("%s expects %d arguments", e.Fun, n)
		}
	}
	switch e.Fun {
	case "old":
		argn(1)
		if ev.old == nil {
			ev.errf("old() not available here")
		}
		if id, ok := e.Args[0].(*EIdent); ok && !ev.bound[id.Name] {
			if v, ok := ev.vars[id.Name]; ok {
				return v // entry value of a parameter
			}
		}
		o := ev.with(ev.old)
		o.preferLocals = false
		return o.eval(e.Args[0])
	case "prev":
		argn(1)
		if ev.prevSt == nil {
			ev.errf("prev() is only available in loop transition clauses")
		}
		pe := ev.fr.env(ev.prevSt, ev.old, ev.prevLoop)
		for k, v := range ev.vars {
			if ev.bound[k] {
				pe.vars[k] = v
				if pe.bound == nil {
					pe.bound = map[string]bool{}
				}
				pe.bound[k] = true
			}
		}
		return pe.eval(e.Args[0])
	case "len":
		argn(1)
		x := ev.eval(e.Args[0])
		switch x.Kind {
		case KSlice, KString:
			return IntV(x.Len, tInt)
		case KArray:
			return IntV(Num(under(x.Typ).(*types.Array).Len()), tInt)
		}
		ev.errf("len of %v", x.Typ)
	case "cap":
		argn(1)
		x := ev.eval(e.Args[0])
		if x.Kind == KSlice {
			return IntV(x.Cap, tInt)
		}
		ev.errf("cap of %v", x.Typ)
	case "ptr":
		argn(1)
		x := ev.eval(e.Args[0])
		return IntV(x.T, tInt)
	case "forall", "exists":
		// forall(i, lo, hi, P): for all lo <= i < hi
		argn(4)
		id, ok := e.Args[0].(*EIdent)
		if !ok {
			ev.errf("%s: first argument must be a variable", e.Fun)
		}
		lo, hi := ev.evalI(e.Args[1]), ev.evalI(e.Args[2])
		*ev.nq++
		qv := fmt.Sprintf("%s?%d", id.Name, *ev.nq)
		// quantify over the element address when the body indexes a one-slot slice by the bound variable:
		// the solver then sees (select M k) with a clean trigger instead of (select M (+ ptr i)).
		iv := Term(qv)
		if base := findIndexBaseP(e.Args[3], id.Name, fx.E.S.Preds, 0); base != nil {
			fx.enc.quiet++
			bv, ok := ev.tryEval(base)
			fx.enc.quiet--
			if ok && (bv.Kind == KSlice || bv.Kind == KString) && elemSize(bv) == 1 {
				iv = Sub(qv, bv.T)
			}
		}
		fx.enc.quiet++
		body := func() Term {
			defer func() { fx.enc.quiet-- }()
			return ev.bind(id.Name, IntV(iv, tInt)).evalB(e.Args[3])
		}()
		rng := And(Le(lo, iv), Lt(iv, hi))
		if e.Fun == "forall" {
			return BoolV(Forall(qv, Implies(rng, body)))
		}
		return BoolV(Exists(qv, And(rng, body)))
	case "ite":
		argn(3)
		c := ev.evalB(e.Args[0])
		a, b := ev.eval(e.Args[1]), ev.eval(e.Args[2])
		if a.Kind == KBool {
			return BoolV(Ite(c, a.T, b.T))
		}
		return IntV(Ite(c, a.T, b.T), tInt)
	case "min":
		argn(2)
		return IntV(app("imin", ev.evalI(e.Args[0]), ev.evalI(e.Args[1])), tInt)
	case "max":
		argn(2)
		return IntV(app("imax", ev.evalI(e.Args[0]), ev.evalI(e.Args[1])), tInt)
	case "sameSlice":
		argn(2)
		a, b := ev.eval(e.Args[0]), ev.eval(e.Args[1])
		return BoolV(And(Eq(a.T, b.T), Eq(a.Len, b.Len), Eq(a.Cap, b.Cap)))
	case "sameMem":
		argn(2)
		a, b := ev.eval(e.Args[0]), ev.eval(e.Args[1])
		return BoolV(And(Eq(a.T, b.T), Eq(a.Len, b.Len)))
	case "within":
		// within(a, b): the elements of a lie inside b
		argn(2)
		a, b := ev.eval(e.Args[0]), ev.eval(e.Args[1])
		return BoolV(And(Le(b.T, a.T), Le(Add(a.T, a.Len), Add(b.T, b.Len))))
	case "sameBytes":
		// the byte memory is unchanged since the old state
		argn(0)
		return BoolV(Eq(fx.heapOf(ev.cur, "M.uint8"), fx.heapOf(ev.old, "M.uint8")))
	case "sameBytesExcept":
		// byte memory that existed at the old state is unchanged outside addresses [lo,hi)
		argn(2)
		lo, hi := ev.evalI(e.Args[0]), ev.evalI(e.Args[1])
		*ev.nq++
		qv := fmt.Sprintf("k?%d", *ev.nq)
		return BoolV(Forall(qv, Implies(And(Lt(qv, fx.brkOf(ev.old)), Or(Lt(qv, lo), Ge(qv, hi))),
			Eq(Select(fx.heapOf(ev.cur, "M.uint8"), qv), Select(fx.heapOf(ev.old, "M.uint8"), qv)))))
	case "mem":
		argn(1)
		return IntV(Select(fx.heapOf(ev.cur, "M.uint8"), ev.evalI(e.Args[0])), types.Typ[types.Uint8])
	case "fresh":
		// the slice's memory was allocated after function entry
		argn(1)
		a := ev.eval(e.Args[0])
		if ev.old == nil {
			ev.errf("fresh() needs an old state")
		}
		return BoolV(Ge(a.T, fx.brkOf(ev.old)))
	case "isType":
		// isType(x, "pkg.T") / "*pkg.T": dynamic type test on an interface value
		argn(2)
		x := ev.eval(e.Args[0])
		s, ok := e.Args[1].(*EStr)
		if !ok || x.Kind != KIface {
			ev.errf("isType(iface, \"type\")")
		}
		return BoolV(Eq(x.Tag, Num(int64(fx.E.typeIDByName(s.Val)))))
	case "self":
		// self(): the identity of the function this contract is applied to (the dynamic callee at dyncall sites)
		argn(0)
		if ev.selfT != "" {
			return IntV(ev.selfT, tInt)
		}
		return IntV(fx.funcID(ev.fr.name), tInt)
	case "fn":
		// fn("pkg.Recv.Method"): the identity of a repository function (for function values kept in data structures)
		argn(1)
		sv, ok := e.Args[0].(*EStr)
		if !ok {
			ev.errf("fn(\"name\")")
		}
		if fx.E.P.Funcs[sv.Val] == nil {
			ev.errf("fn: no function %q", sv.Val)
		}
		return IntV(fx.funcID(sv.Val), tInt)
	case "deref":
		argn(1)
		p := ev.eval(e.Args[0])
		pt, ok := under(p.Typ).(*types.Pointer)
		if !ok {
			ev.errf("deref of non-pointer")
		}
		return fx.loadAt(ev.cur, p.T, pt.Elem(), "M."+typeKey(pt.Elem()))
	case "disjoint":
		// disjoint(a, b): the capacity ranges of two byte slices do not overlap
		argn(2)
		a, b := ev.eval(e.Args[0]), ev.eval(e.Args[1])
		return BoolV(Or(Le(Add(a.T, a.Cap), b.T), Le(Add(b.T, b.Cap), a.T)))
	case "unchanged":
		argn(1)
		a := ev.eval(e.Args[0])
		b := ev.with(ev.old).eval(e.Args[0])
		return BoolV(fx.valEq(a, b))
	}
	if p, ok := fx.E.S.Preds[e.Fun]; ok {
		if len(p.Params) != len(e.Args) {
			ev.errf("pred %s expects %d arguments", e.Fun, len(p.Params))
		}
		n := *ev
		n.vars = make(map[string]Value, len(ev.vars)+len(p.Params))
		for k, v := range ev.vars {
			n.vars[k] = v
		}
		n.bound = map[string]bool{}
		for k := range ev.bound {
			n.bound[k] = true
		}
		for i, name := range p.Params {
			n.vars[name] = ev.eval(e.Args[i])
			n.bound[name] = true
		}
		n.local = nil
		return n.eval(p.Body)
	}
	if sf, ok := fx.E.specFuncs[e.Fun]; ok {
		return sf(ev, e)
	}
	if fd, ok := fx.E.S.Folds[e.Fun]; ok {
		return ev.evalFold(fd, e)
	}
	if od, ok := fx.E.S.Orbits[e.Fun]; ok {
		return ev.evalOrbit(od, e)
	}
	if fx.E.S.GhostFields[e.Fun] {
		if len(e.Args) != 1 {
			ev.errf("ghost field %s expects one argument (the object)", e.Fun)
		}
		v := ev.eval(e.Args[0])
		if v.Kind != KInt && v.Kind != KIface {
			ev.errf("ghost field %s: pointer or interface argument only", e.Fun)
		}
		return IntV(Select(fx.heapOf(ev.cur, "G."+e.Fun), v.T), tInt)
	}
	if ar, ok := fx.E.S.Ghosts[e.Fun]; ok {
		if len(e.Args) != ar {
			ev.errf("ghost %s expects %d arguments", e.Fun, ar)
		}
		var ts []Term
		for _, a := range e.Args {
			v := ev.eval(a)
			switch v.Kind {
			case KInt:
				ts = append(ts, v.T)
			case KIface:
				ts = append(ts, v.T)
			default:
				ev.errf("ghost %s: scalar or pointer arguments only", e.Fun)
			}
		}
		if fx.enc.ghosts == nil {
			fx.enc.ghosts = map[string]int{}
		}
		fx.enc.ghosts[e.Fun] = ar
		gt := app("g!"+e.Fun, ts...)
		if fx.E.S.GhostByte[e.Fun] && fx.enc.quiet == 0 {
			fx.enc.Assume(And(Le("0", gt), Le(gt, "255")))
		}
		if sf := fx.E.S.SpecFuncs[e.Fun]; sf != nil && fx.enc.quiet == 0 {
			ev.specFuncApp(sf, gt, ts)
		}
		return IntV(gt, tInt)
	}
	ev.errf("unknown function %q in contract", e.Fun)
	return Value{}
}

// constValue converts a Go constant.
func (fx *fx) constValue(c constant.Value, T types.Type) Value {
	if c == nil {
		return fx.zero(T)
	}
	switch c.Kind() {
	case constant.Bool:
		if constant.BoolVal(c) {
			return BoolV(True)
		}
		return BoolV(False)
	case constant.Int:
		if isFloatType(T) {
			return IntV(fx.floatConst(c.ExactString()), T)
		}
		if i, ok := constant.Int64Val(c); ok {
			return IntV(Num(i), T)
		}
		bi, _ := new(bigInt).SetString(c.ExactString(), 10)
		return IntV(NumBig(bi), T)
	case constant.String:
		v := fx.stringConst(constant.StringVal(c))
		v.Typ = T
		return v
	case constant.Float:
		return IntV(fx.floatConst(c.ExactString()), T)
	}
	return IntV(fx.enc.Decl("const", "Int"), T)
}

var _ = ssa.NaiveForm

// foldDepth: how many one-step unfoldings are asserted for every fold term a clause mentions (a cursor that advances
// by up to four bytes per iteration needs four).
const foldDepth = 4

// evalFold evaluates name(s, lo, hi) for a user-defined fold: an uninterpreted function of (byte memory, first address,
// end address) whose recursive definition is asserted, unfolded foldDepth times, at every term used.
func (ev *Env) evalFold(fd *Fold, e *ECall) Value {
	if len(e.Args) != 3 {
		ev.errf("%s(slice, lo, hi)", fd.Name)
	}
	fx := ev.fr.fx
	s := ev.eval(e.Args[0])
	lo := ev.evalI(e.Args[1])
	hi := ev.evalI(e.Args[2])
	if s.Kind != KSlice || elemSize(s) != 1 {
		ev.errf("%s: byte slice expected", fd.Name)
	}
	el := under(s.Typ).(*types.Slice).Elem()
	fn := "fold!" + fd.Name
	if fx.enc.foldSeen == nil {
		fx.enc.foldSeen = map[string]bool{}
	}
	if !fx.enc.foldSeen["def:"+fd.Name] {
		fx.enc.foldSeen["def:"+fd.Name] = true
		// the step function, as an SMT term over (m, j, acc): evaluate the step expression with s bound to a slice at
		// address 0 of an array variable and k to the address j
		st := &State{Cells: map[interface{}]Value{}, Heap: map[string]Term{"M." + typeKey(el): "m"}, Brk: "0"}
		sub := &Env{fr: ev.fr, vars: map[string]Value{}, cur: st, old: st, nq: ev.nq, pkg: ev.pkg, bound: map[string]bool{}}
		sub.vars[fd.S] = Value{Kind: KSlice, T: "0", Len: "0", Cap: "0", Typ: s.Typ}
		sub.vars[fd.K] = IntV("j", tInt)
		sub.vars[fd.Acc] = IntV("acc", tInt)
		sub.bound[fd.S], sub.bound[fd.K], sub.bound[fd.Acc] = true, true, true
		fx.enc.quiet++
		stepV := sub.eval(fd.Step)
		initV := sub.eval(fd.Init)
		fx.enc.quiet--
		stepT, initT := stepV.T, initV.T
		if stepV.Kind == KBool {
			stepT = Ite(stepV.T, "1", "0")
		}
		fx.enc.foldDefs = append(fx.enc.foldDefs,
			fmt.Sprintf("(define-fun %s!step ((m (Array Int Int)) (j Int) (acc Int)) Int %s)\n(define-fun %s!init () Int %s)\n(declare-fun %s ((Array Int Int) Int Int) Int)\n", fn, stepT, fn, initT, fn))
	}
	arr := fx.heapOf(ev.cur, "M."+typeKey(el))
	a, h := Add(s.T, lo), Add(s.T, hi)
	t := app(fn, arr, a, h)
	if fx.enc.quiet == 0 {
		cur := h
		for d := 0; d < foldDepth; d++ {
			ct := app(fn, arr, a, cur)
			if fx.enc.foldSeen[ct] {
				break
			}
			fx.enc.foldSeen[ct] = true
			prev := Sub(cur, "1")
			fx.enc.Assume(Eq(ct, Ite(Le(cur, a), fn+"!init", app(fn+"!step", arr, prev, app(fn, arr, a, prev)))))
			cur = prev
		}
	}
	return IntV(t, tInt)
}

// evalOrbit evaluates name(s, p) for a user-defined orbit function: an uninterpreted function of (byte memory, slice
// address, slice length, position) whose defining equation is asserted, unfolded twice, at every term used.
func (ev *Env) evalOrbit(od *Orbit, e *ECall) Value {
	if len(e.Args) != 2 {
		ev.errf("%s(slice, position)", od.Name)
	}
	fx := ev.fr.fx
	s := ev.eval(e.Args[0])
	pos := ev.evalI(e.Args[1])
	if s.Kind != KSlice || elemSize(s) != 1 {
		ev.errf("%s: byte slice expected", od.Name)
	}
	el := under(s.Typ).(*types.Slice).Elem()
	fn := "orbit!" + od.Name
	if fx.enc.foldSeen == nil {
		fx.enc.foldSeen = map[string]bool{}
	}
	if !fx.enc.foldSeen["def:"+fn] {
		fx.enc.foldSeen["def:"+fn] = true
		st := &State{Cells: map[interface{}]Value{}, Heap: map[string]Term{"M." + typeKey(el): "m"}, Brk: "0"}
		sub := &Env{fr: ev.fr, vars: map[string]Value{}, cur: st, old: st, nq: ev.nq, pkg: ev.pkg, bound: map[string]bool{}}
		sub.vars[od.S] = Value{Kind: KSlice, T: "sp", Len: "sl", Cap: "sl", Typ: s.Typ}
		sub.vars[od.P] = IntV("p", tInt)
		sub.bound[od.S], sub.bound[od.P] = true, true
		fx.enc.quiet++
		stopT := sub.evalB(od.Stop)
		nextT := sub.evalI(od.Next)
		fx.enc.quiet--
		sig := "((m (Array Int Int)) (sp Int) (sl Int) (p Int))"
		fx.enc.foldDefs = append(fx.enc.foldDefs,
			fmt.Sprintf("(define-fun %s!stop %s Bool %s)\n(define-fun %s!next %s Int %s)\n(declare-fun %s ((Array Int Int) Int Int Int) Int)\n", fn, sig, stopT, fn, sig, nextT, fn))
		if fx.enc.orbitLemmas == nil {
			fx.enc.orbitLemmas = map[string]string{}
		}
		// lemma: some position satisfies the stop predicate, whatever the memory and the slice (so that "the value of the
		// orbit function is a stopping position" is consistent even for orbits that never stop)
		fx.enc.orbitLemmas["lemma:orbit-"+od.Name+"/stop-satisfiable"] = fmt.Sprintf("(define-fun %s!stop %s Bool %s)\n(declare-const m (Array Int Int)) (declare-const sp Int) (declare-const sl Int)\n(assert (forall ((p Int)) (not (%s!stop m sp sl p))))\n(check-sat)\n", fn, sig, stopT, fn)
	}
	arr := fx.heapOf(ev.cur, "M."+typeKey(el))
	t := app(fn, arr, s.T, s.Len, pos)
	if fx.enc.quiet == 0 {
		cur := pos
		for d := 0; d < 2; d++ {
			ct := app(fn, arr, s.T, s.Len, cur)
			if fx.enc.foldSeen[ct] {
				break
			}
			fx.enc.foldSeen[ct] = true
			nx := app(fn+"!next", arr, s.T, s.Len, cur)
			fx.enc.Assume(Eq(ct, Ite(app(fn+"!stop", arr, s.T, s.Len, cur), cur, app(fn, arr, s.T, s.Len, nx))))
			// the value is a stopping position (the stop predicate is satisfiable: checked once per orbit as a lemma obligation)
			fx.enc.Assume(app(fn+"!stop", arr, s.T, s.Len, ct))
			cur = nx
		}
	}
	return IntV(t, tInt)
}

// specFuncApp is called for every application f(t...) of an opaque specification function outside quantifiers. In a
// function that reveals f the definition is instantiated at the application; elsewhere the lemmas of f are (one level:
// applications that appear inside a lemma instance are not instantiated again), and each lemma used is recorded so that
// it becomes an obligation of the function under verification.
func (ev *Env) specFuncApp(sf *Pred, gt Term, args []Term) {
	fx := ev.fr.fx
	if fx.sfSeen == nil {
		fx.sfSeen = map[string]bool{}
		fx.sfUsed = map[string]*SpecLemma{}
	}
	key := string(gt)
	if fx.sfSeen[key] {
		return
	}
	bindAll := func(params []string) *Env {
		n := *ev
		n.vars = make(map[string]Value, len(ev.vars)+len(params))
		for k, v := range ev.vars {
			n.vars[k] = v
		}
		n.bound = map[string]bool{}
		for k := range ev.bound {
			n.bound[k] = true
		}
		for i, name := range params {
			n.vars[name] = IntV(args[i], tInt)
			n.bound[name] = true
		}
		n.local = nil
		return &n
	}
	revealed := fx.sfRevealAll
	if ct := fx.E.S.Contracts[fx.root]; ct != nil && ct.Reveal[sf.Name] {
		revealed = true
	}
	if revealed {
		fx.sfSeen[key] = true
		v := bindAll(sf.Params).eval(sf.Body)
		if v.Kind != KInt {
			ev.errf("specfunc %s: integer-valued body expected", sf.Name)
		}
		fx.enc.Assume(Eq(gt, v.T))
		return
	}
	if fx.sfInLemma > 0 {
		return
	}
	fx.sfSeen[key] = true
	fx.sfInLemma++
	defer func() { fx.sfInLemma-- }()
	for _, lm := range fx.E.S.SpecFuncLemmas[sf.Name] {
		t, err := bindAll(lm.Params).EvalBool(lm.C.E)
		if err != nil {
			ev.errf("lemma %s.%s: %v", sf.Name, lm.C.Label, err)
		}
		fx.enc.Assume(t)
		fx.sfUsed[sf.Name+"."+lm.C.Label] = lm
	}
}

package vc

import (
	"regexp"
	"fmt"
	"math/big"
	"os"
	"path/filepath"
	"strconv"
	"strings"
)

// ---------------------------------------------------------------- expression AST

type Expr interface{}

type (
	EIdent  struct{ Name string }
	ENum    struct{ Val *big.Int }
	EStr    struct{ Val string }
	EBool   struct{ Val bool }
	EUnary  struct {
		Op string
		X  Expr
	}
	EBinary struct {
		Op   string
		X, Y Expr
	}
	ECall struct {
		Fun  string
		Args []Expr
	}
	ESel struct {
		X    Expr
		Name string
	}
	EIndex struct{ X, I Expr }
	ESlice struct{ X, Lo, Hi, Max Expr }
)

// ---------------------------------------------------------------- contracts

type Clause struct {
	Kind   string // requires, ensures, preserves, invariant, decreases
	Facet  string // S, T, F (default S)
	Tags   []string
	Label  string // optional @label
	E      Expr
	Src    string
	Loop   int // for invariant/decreases: loop ordinal (1-based), 0 = all loops
	File   string
	Line   int
	Ord    int // ordinal among clauses of the same kind in the function
}

type Contract struct {
	Func      string // canonical name
	Requires  []*Clause
	Ensures   []*Clause
	Preserves []*Clause
	LoopInv   []*Clause
	LoopDec   []*Clause
	FuncParams map[string]FuncParam // function-typed parameters with a behavioural contract
	MapSpecs  map[string]*Clause // assumed property of lookups in a map-typed parameter (key, value, ok)
	LoopCand  []*Clause // candidate invariants: kept per loop only if inductive (Houdini)
	Inline    bool
	DynCall   *FuncParam
	ReadonlyArgs []int
	ReadonlyActuals []int // positions in the call's actual list (receiver first) that are never written
	AssumeFacets string // facets whose clauses are assumed, not verified, for this function
	Extern    bool // assumed contract of an external (standard library) function
	Trusted   bool   // contract assumed, body not verified
	DepthGuard string    // "COUNTER LIMIT": this function is a recursion-depth guard (see depth.go)
	AtCalls    []*Clause // obligations at every call that may lead back to this function
	CallSites  []*CallSite // obligations at every call of a named function inside this function (arg0, arg1, ... = the actuals)
	StructuralRec bool   // recursion over a finite, already built data structure (declared with a reason)
	VerifyBody string // with Trusted: facet levels at which the body is nevertheless verified against the clauses of that level (the trusted part is then only the frame and the lower-level clauses)
	Opaque    bool   // never inline; without ensures the result is havocked
	Reveal    map[string]bool // opaque specification functions whose definition this function's obligations may use
	Snapshots []Snapshot      // ghost names for the value a local variable receives at one of its assignments
	NoVerify  bool   // body not verified and not claimed (documentation only)
	Modifies  []string
	Observer  bool // writes no memory that existed at entry (frame obligation decided by the provenance analysis)
	Pure      bool
	ArithWrap bool
	ArithMath bool // integer +,-,* of this function are treated as mathematical (no wrap-around): an assumption, listed in the evidence
	File      string
	Line      int
}

// FuncParam: calls through the parameter behave like method Like applied to receiver parameter Recv.
type FuncParam struct {
	Like string
	Recv string
}

// Fold is a user-defined recursive specification function over a byte slice:
//   name(s, lo, hi) = init                                   if hi <= lo
//                   = step[acc := name(s, lo, hi-1), k := hi-1]  otherwise
// The step expression may read s[k+c] for constants c (look-behind/look-ahead) and acc.
type Fold struct {
	Name         string
	S, K, Acc    string
	Init, Step   Expr
	Src          string
}

// Orbit is a user-defined forward-recursive specification function over a byte slice: the first position reached
// from p by repeatedly applying next at which stop holds:
//   name(s, p) = p                      if stop(s, p)
//              = name(s, next(s, p))    otherwise
// (scanner loops that advance by variable-length units: "the first unescaped quote", "the end of the identifier").
type Orbit struct {
	Name        string
	S, P        string
	Stop, Next  Expr
	Src         string
}

// SharedConst whitelists stores of pointers into package-level memory into heap objects (frame analysis, C20).
type SharedConst struct {
	Global, Func, Reason string
}

// Snapshot names the value stored by the K-th assignment (in source order, 1-based) to local variable Var: a ghost constant
// usable in the clauses of the function ("snapshot num0 = num#1"). The assignment must not be inside a loop; on paths
// that do not execute it the name is unconstrained.
type Snapshot struct {
	Name, Var string
	K         int
}

// CallSite is an assertion this function makes about the arguments it passes to a callee ("callsite css.ToHash[F] @l: expr"):
// a precondition the caller imposes on itself, checked at each of its calls of that function.
type CallSite struct {
	Callee string
	C      *Clause
}

// SpecLemma is a lemma about an opaque specification function, instantiated at every application of the function.
type SpecLemma struct {
	Fun    string
	Params []string
	C      *Clause
}

type Pred struct {
	Name   string
	Params []string
	Body   Expr
	Src    string
}

// Specs is the set of all parsed contract files.
type Specs struct {
	Contracts map[string]*Contract
	Preds     map[string]*Pred
	Axioms    []*Clause // global axioms (assumptions), listed in evidence
	Files     []string
	// Tables: property -> list of function names (from "property" lines)
	PropFuncs map[string][]string
	WalkDirectives []string
	Ghosts    map[string]int // ghost (uninterpreted) spec functions: name -> arity
	// SpecFuncs: opaque specification functions ("specfunc f(x) := body"). In a verification condition f is an
	// uninterpreted function; its definition is instantiated at the applications that occur only in functions that say
	// "reveal f". Elsewhere only the lemmas of f ("lemma f(x) @name: formula") are instantiated at each application, and
	// every lemma used is itself an obligation of the using function, proved from the definition.
	SpecFuncs      map[string]*Pred
	SpecFuncLemmas map[string][]*SpecLemma
	GhostByte map[string]bool // ghost functions declared "ghost f(..) byte": values are bytes (0..255)
	Folds     map[string]*Fold
	Orbits    map[string]*Orbit
	SharedConsts []SharedConst // "sharedconst GLOBAL [in FUNC] -- reason": package-level memory that may be referenced from heap objects because it is never written
	StructuralRecPatterns []string // "recursion structural PATTERN -- reason"
	StructuralRecReasons  []string
	GhostFields map[string]bool // mutable ghost state per object: heap array G.<name>, read as name(obj)
}

func NewSpecs() *Specs {
	return &Specs{Contracts: map[string]*Contract{}, Preds: map[string]*Pred{}, PropFuncs: map[string][]string{}}
}

var clauseKeywords = map[string]bool{
	"specfunc": true, "lemma": true, "reveal": true, "snapshot": true, "callsite": true,
	"pred": true, "func": true, "extern": true, "ghost": true, "ghostfield": true, "fold": true, "orbit": true, "iface": true, "walk": true, "requires": true, "ensures": true, "preserves": true, "loop": true,
	"funcparam": true, "mapspec": true, "assumefacet": true, "readonly": true, "dyncall": true, "inline": true, "trusted": true, "verifybody": true, "depthguard": true, "atcalls": true, "recursion": true, "sharedconst": true, "opaque": true, "noverify": true, "modifies": true, "observer": true, "pure": true, "arith": true, "axiom": true,
}

// LoadSpecs reads every contracts_verif.go under repo (falling back to mirror for packages lacking one).
func LoadSpecs(repo, mirror string) (*Specs, error) {
	S := NewSpecs()
	seen := map[string]bool{}
	var files []string
	filepath.Walk(repo, func(p string, info os.FileInfo, err error) error {
		if err != nil {
			return nil
		}
		if info.IsDir() && (info.Name() == ".git" || info.Name() == "vendor") {
			return filepath.SkipDir
		}
		if !info.IsDir() && info.Name() == "contracts_verif.go" {
			rel, _ := filepath.Rel(repo, p)
			seen[rel] = true
			files = append(files, p)
		}
		return nil
	})
	if mirror != "" {
		filepath.Walk(mirror, func(p string, info os.FileInfo, err error) error {
			if err != nil {
				return nil
			}
			if !info.IsDir() && info.Name() == "contracts_verif.go" {
				rel, _ := filepath.Rel(mirror, p)
				if !seen[rel] {
					files = append(files, p)
				}
			}
			return nil
		})
	}
	for _, f := range files {
		if err := S.parseFile(f); err != nil {
			return nil, err
		}
		S.Files = append(S.Files, f)
	}
	// a clause that mentions a snapshot (a ghost constant of its own function's body) cannot be stated at call sites:
	// it is proved in the function and not exported
	for _, ct := range S.Contracts {
		for _, sn := range ct.Snapshots {
			re := regexp.MustCompile(`\b` + regexp.QuoteMeta(sn.Name) + `\b`)
			for _, g := range [][]*Clause{ct.Ensures, ct.Preserves} {
				for _, c := range g {
					if re.MatchString(c.Src) && !hasTag(c, "local") {
						c.Tags = append(c.Tags, "local")
					}
				}
			}
		}
	}
	return S, nil
}

func (S *Specs) parseFile(path string) error {
	data, err := os.ReadFile(path)
	if err != nil {
		return err
	}
	pkg := ""
	type rawClause struct {
		text string
		line int
	}
	var raws []rawClause
	for i, line := range strings.Split(string(data), "\n") {
		t := strings.TrimSpace(line)
		if strings.HasPrefix(t, "package ") && pkg == "" {
			pkg = strings.TrimSpace(strings.TrimPrefix(t, "package "))
			continue
		}
		var body string
		switch {
		case strings.HasPrefix(t, "//@"):
			body = t[3:]
		case strings.HasPrefix(t, "// @"):
			body = t[4:]
		default:
			continue
		}
		if k := strings.Index(body, " //"); k >= 0 && !strings.Contains(body[:k], "\"") {
			body = body[:k] // trailing comment
		}
		b := strings.TrimSpace(body)
		if b == "" {
			continue
		}
		first := b
		if k := strings.IndexAny(b, " \t[("); k >= 0 {
			first = b[:k]
		}
		if clauseKeywords[first] {
			raws = append(raws, rawClause{b, i + 1})
		} else if len(raws) > 0 {
			raws[len(raws)-1].text += " " + b
		} else {
			return fmt.Errorf("%s:%d: continuation without clause", path, i+1)
		}
	}
	if pkg == "" {
		return fmt.Errorf("%s: no package clause", path)
	}
	// the package's short name for canonical function names: directory relative to module root
	short := pkg
	if pkg == "parse" {
		short = "parse"
	}
	var cur *Contract
	for _, rc := range raws {
		kw, rest := splitKw(rc.text)
		fail := func(err error) error { return fmt.Errorf("%s:%d: %v (in %q)", path, rc.line, err, rc.text) }
		switch kw {
		case "pred":
			// pred name(a, b) := expr
			k := strings.Index(rest, ":=")
			if k < 0 {
				return fail(fmt.Errorf("pred without :="))
			}
			head, body := strings.TrimSpace(rest[:k]), rest[k+2:]
			op := strings.Index(head, "(")
			if op < 0 || !strings.HasSuffix(head, ")") {
				return fail(fmt.Errorf("bad pred head"))
			}
			name := strings.TrimSpace(head[:op])
			var params []string
			for _, p := range strings.Split(head[op+1:len(head)-1], ",") {
				p = strings.TrimSpace(p)
				if p == "" {
					continue
				}
				params = append(params, strings.Fields(p)[0])
			}
			e, err := ParseExpr(body)
			if err != nil {
				return fail(err)
			}
			S.Preds[name] = &Pred{Name: name, Params: params, Body: e, Src: body}
			cur = nil
		case "specfunc":
			// specfunc name(a, b) := expr   (integer arguments and result)
			k := strings.Index(rest, ":=")
			if k < 0 {
				return fail(fmt.Errorf("specfunc without :="))
			}
			head, body := strings.TrimSpace(rest[:k]), rest[k+2:]
			op := strings.Index(head, "(")
			if op < 0 || !strings.HasSuffix(head, ")") {
				return fail(fmt.Errorf("bad specfunc head"))
			}
			name := strings.TrimSpace(head[:op])
			var params []string
			for _, p := range strings.Split(head[op+1:len(head)-1], ",") {
				if p = strings.TrimSpace(p); p != "" {
					params = append(params, p)
				}
			}
			e, err := ParseExpr(body)
			if err != nil {
				return fail(err)
			}
			if S.SpecFuncs == nil {
				S.SpecFuncs = map[string]*Pred{}
				S.SpecFuncLemmas = map[string][]*SpecLemma{}
			}
			if S.Ghosts == nil {
				S.Ghosts = map[string]int{}
			}
			S.SpecFuncs[name] = &Pred{Name: name, Params: params, Body: e, Src: body}
			S.Ghosts[name] = len(params)
			cur = nil
		case "lemma":
			// lemma name(a, b) @label: formula   -- instantiated at every application name(t1, t2)
			cl := strings.Index(rest, ")")
			op := strings.Index(rest, "(")
			if op < 0 || cl < op {
				return fail(fmt.Errorf("lemma f(params) @label: formula"))
			}
			name := strings.TrimSpace(rest[:op])
			if S.SpecFuncs[name] == nil {
				return fail(fmt.Errorf("lemma about %q, which is not a specfunc declared earlier", name))
			}
			var params []string
			for _, p := range strings.Split(rest[op+1:cl], ",") {
				if p = strings.TrimSpace(p); p != "" {
					params = append(params, p)
				}
			}
			if len(params) != len(S.SpecFuncs[name].Params) {
				return fail(fmt.Errorf("lemma %s: %d parameters expected", name, len(S.SpecFuncs[name].Params)))
			}
			_, tags, label, body := splitAnnot(rest[cl+1:])
			if label == "" {
				return fail(fmt.Errorf("lemma needs a @label"))
			}
			e, err := ParseExpr(body)
			if err != nil {
				return fail(err)
			}
			S.SpecFuncLemmas[name] = append(S.SpecFuncLemmas[name], &SpecLemma{Fun: name, Params: params,
				C: &Clause{Kind: "lemma", Facet: "S", Tags: tags, Label: label, E: e, Src: strings.TrimSpace(body), File: path, Line: rc.line}})
			cur = nil
		case "axiom":
			facet, tags, label, body := splitAnnot(rest)
			e, err := ParseExpr(body)
			if err != nil {
				return fail(err)
			}
			S.Axioms = append(S.Axioms, &Clause{Kind: "axiom", Facet: facet, Tags: tags, Label: label, E: e, Src: body, File: path, Line: rc.line})
			cur = nil
		case "walk":
			// directives for the C18 child relation: "walk exclude T..." and "walk union T: A | B | C"
			S.WalkDirectives = append(S.WalkDirectives, strings.TrimSpace(rest))
			cur = nil
		case "ghost":
			// ghost name(a, b): uninterpreted specification function over integers/pointers
			head := strings.TrimSpace(rest)
			isByte := false
			if strings.HasSuffix(head, " byte") {
				isByte = true
				head = strings.TrimSpace(strings.TrimSuffix(head, " byte"))
			}
			op := strings.Index(head, "(")
			if op < 0 || !strings.HasSuffix(head, ")") {
				return fail(fmt.Errorf("ghost name(params) [byte]"))
			}
			if isByte {
				if S.GhostByte == nil {
					S.GhostByte = map[string]bool{}
				}
				S.GhostByte[strings.TrimSpace(head[:op])] = true
			}
			n := 0
			for _, p := range strings.Split(head[op+1:len(head)-1], ",") {
				if strings.TrimSpace(p) != "" {
					n++
				}
			}
			if S.Ghosts == nil {
				S.Ghosts = map[string]int{}
			}
			S.Ghosts[strings.TrimSpace(head[:op])] = n
			cur = nil
		case "fold":
			// fold name(s, k, acc) init E0 := STEP
			head, body := rest, ""
			if k := strings.Index(rest, ":="); k >= 0 {
				head, body = strings.TrimSpace(rest[:k]), strings.TrimSpace(rest[k+2:])
			}
			op, cl := strings.Index(head, "("), strings.Index(head, ")")
			ii := strings.Index(head, " init ")
			if op < 0 || cl < op || ii < cl || body == "" {
				return fail(fmt.Errorf("fold name(s, k, acc) init E0 := STEP"))
			}
			ps := strings.Split(head[op+1:cl], ",")
			if len(ps) != 3 {
				return fail(fmt.Errorf("fold takes three parameters (slice, index, accumulator)"))
			}
			ie, err := ParseExpr(strings.TrimSpace(head[ii+6:]))
			if err != nil {
				return fail(err)
			}
			se, err := ParseExpr(body)
			if err != nil {
				return fail(err)
			}
			if S.Folds == nil {
				S.Folds = map[string]*Fold{}
			}
			fname := strings.TrimSpace(head[:op])
			S.Folds[fname] = &Fold{Name: fname, S: strings.TrimSpace(ps[0]), K: strings.TrimSpace(ps[1]), Acc: strings.TrimSpace(ps[2]), Init: ie, Step: se, Src: rest}
			cur = nil
		case "orbit":
			// orbit name(s, p) stop STOP next NEXT
			op, cl := strings.Index(rest, "("), strings.Index(rest, ")")
			si := strings.Index(rest, " stop ")
			ni := strings.LastIndex(rest, " next ")
			if op < 0 || cl < op || si < cl || ni < si {
				return fail(fmt.Errorf("orbit name(s, p) stop STOP next NEXT"))
			}
			ps := strings.Split(rest[op+1:cl], ",")
			if len(ps) != 2 {
				return fail(fmt.Errorf("orbit takes two parameters (slice, position)"))
			}
			se, err := ParseExpr(strings.TrimSpace(rest[si+6 : ni]))
			if err != nil {
				return fail(err)
			}
			ne, err := ParseExpr(strings.TrimSpace(rest[ni+6:]))
			if err != nil {
				return fail(err)
			}
			if S.Orbits == nil {
				S.Orbits = map[string]*Orbit{}
			}
			oname := strings.TrimSpace(rest[:op])
			S.Orbits[oname] = &Orbit{Name: oname, S: strings.TrimSpace(ps[0]), P: strings.TrimSpace(ps[1]), Stop: se, Next: ne, Src: rest}
			cur = nil
		case "sharedconst":
			head, reason := rest, ""
			if k := strings.Index(rest, "--"); k >= 0 {
				head, reason = strings.TrimSpace(rest[:k]), strings.TrimSpace(rest[k+2:])
			}
			f := strings.Fields(head)
			sc := SharedConst{Reason: reason, Func: "*"}
			if len(f) >= 1 {
				sc.Global = f[0]
			}
			if len(f) >= 3 && f[1] == "in" {
				sc.Func = f[2]
			}
			if sc.Global == "" || reason == "" {
				return fail(fmt.Errorf("sharedconst GLOBAL [in FUNC] -- reason"))
			}
			S.SharedConsts = append(S.SharedConsts, sc)
			cur = nil
		case "recursion":
			// recursion structural PATTERN -- reason: recursion of these functions follows a finite data structure
			f := strings.Fields(rest)
			if len(f) < 2 || f[0] != "structural" {
				return fail(fmt.Errorf("recursion structural PATTERN -- reason"))
			}
			S.StructuralRecPatterns = append(S.StructuralRecPatterns, f[1])
			S.StructuralRecReasons = append(S.StructuralRecReasons, strings.TrimSpace(strings.TrimPrefix(rest, "structural")))
			cur = nil
		case "ghostfield":
			// ghostfield name: mutable ghost state attached to objects (heap array G.name indexed by the object's address);
			// read in contracts as name(obj); changed only by calls whose contract lists "modifies G.name"
			if S.GhostFields == nil {
				S.GhostFields = map[string]bool{}
			}
			S.GhostFields[strings.TrimSpace(rest)] = true
			cur = nil
		case "iface":
			// behavioural contract of an interface method of another package, keyed pkg.Iface.Method (e.g. io.Reader.Read);
			// assumed for external implementations, verified for the repository's own implementations
			name := strings.TrimSpace(rest)
			cur = &Contract{Func: name, File: path, Line: rc.line}
			S.Contracts[name] = cur
		case "extern":
			// assumed contract of a function outside the repository, keyed by its full name
			name := strings.TrimSpace(rest)
			cur = &Contract{Func: name, File: path, Line: rc.line, Trusted: true, Extern: true}
			S.Contracts["extern:"+name] = cur
		case "func":
			name := strings.TrimSpace(rest)
			if k := strings.IndexAny(name, " ("); k >= 0 {
				name = name[:k]
			}
			full := short + "." + name
			if _, dup := S.Contracts[full]; dup {
				return fail(fmt.Errorf("duplicate contract for %s", full))
			}
			cur = &Contract{Func: full, File: path, Line: rc.line}
			S.Contracts[full] = cur
		default:
			if cur == nil {
				return fail(fmt.Errorf("clause outside func"))
			}
			switch kw {
			case "funcparam":
				// funcparam f like Lexer.consumeDigit on l
				f := strings.Fields(rest)
				if len(f) != 5 || f[1] != "like" || f[3] != "on" {
					return fail(fmt.Errorf("funcparam NAME like METHOD on RECV"))
				}
				if cur.FuncParams == nil {
					cur.FuncParams = map[string]FuncParam{}
				}
				cur.FuncParams[f[0]] = FuncParam{Like: short + "." + f[2], Recv: f[4]}
			case "readonly":
				// readonly arg0 arg1: implementations never write memory reachable from these arguments (assumed for
				// external implementations: e.g. io.Writer.Write must not modify the slice, even temporarily)
				for _, a := range strings.Fields(rest) {
					var k int
					if _, err := fmt.Sscanf(a, "arg%d", &k); err == nil {
						cur.ReadonlyArgs = append(cur.ReadonlyArgs, k)
					} else if _, err := fmt.Sscanf(a, "#%d", &k); err == nil {
						cur.ReadonlyActuals = append(cur.ReadonlyActuals, k)
					}
				}
			case "dyncall":
				// dyncall like Parser.parseStylesheet on p : calls through function values in this function behave like
				// the named method applied to receiver parameter p; the called value must be one of the functions whose
				// contract reads the same (obligation)
				f := strings.Fields(rest)
				if len(f) != 4 || f[0] != "like" || f[2] != "on" {
					return fail(fmt.Errorf("dyncall like METHOD on RECV"))
				}
				cur.DynCall = &FuncParam{Like: short + "." + f[1], Recv: f[3]}
			case "assumefacet":
				// assumefacet F: clauses of that facet are assumed for this function (not verified); listed in the evidence
				cur.AssumeFacets += strings.TrimSpace(rest)
			case "mapspec":
				// mapspec PARAM: expr over key, value, ok (and locals at the lookup)
				k := strings.Index(rest, ":")
				if k < 0 {
					return fail(fmt.Errorf("mapspec PARAM: expr"))
				}
				e, err := ParseExpr(rest[k+1:])
				if err != nil {
					return fail(err)
				}
				if cur.MapSpecs == nil {
					cur.MapSpecs = map[string]*Clause{}
				}
				cur.MapSpecs[strings.TrimSpace(rest[:k])] = &Clause{Kind: "mapspec", Facet: "S", E: e, Src: strings.TrimSpace(rest[k+1:]), File: path, Line: rc.line}
			case "inline":
				cur.Inline = true
			case "trusted":
				cur.Trusted = true
			case "verifybody":
				cur.VerifyBody = strings.TrimSpace(rest)
			case "depthguard":
				cur.DepthGuard = strings.TrimSpace(rest)
			case "atcalls":
				facet, tags, label, body := splitAnnot(rest)
				e, err := ParseExpr(body)
				if err != nil {
					return fail(err)
				}
				cur.AtCalls = append(cur.AtCalls, &Clause{Kind: "atcalls", Facet: facet, Tags: tags, Label: label, E: e, Src: strings.TrimSpace(body), File: path, Line: rc.line, Ord: len(cur.AtCalls) + 1})
			case "callsite":
				// callsite pkg.Func[F,tags] @label: expr
				r := strings.TrimSpace(rest)
				k := strings.IndexAny(r, " \t[")
				if k <= 0 {
					return fail(fmt.Errorf("callsite CALLEE[facet] @label: expr"))
				}
				callee := r[:k]
				facet, tags, label, body := splitAnnot(r[k:])
				e, err := ParseExpr(body)
				if err != nil {
					return fail(err)
				}
				cur.CallSites = append(cur.CallSites, &CallSite{Callee: callee, C: &Clause{Kind: "callsite", Facet: facet, Tags: tags, Label: label, E: e, Src: strings.TrimSpace(body), File: path, Line: rc.line, Ord: len(cur.CallSites) + 1}})
			case "opaque":
				cur.Opaque = true
			case "noverify":
				cur.NoVerify = true
			case "snapshot":
				// snapshot NAME = VAR#K
				var sn Snapshot
				f := strings.Fields(strings.ReplaceAll(rest, "=", " = "))
				if len(f) != 3 || f[1] != "=" || !strings.Contains(f[2], "#") {
					return fail(fmt.Errorf("snapshot NAME = VAR#K"))
				}
				sn.Name = f[0]
				k := strings.Index(f[2], "#")
				sn.Var = f[2][:k]
				if _, err := fmt.Sscanf(f[2][k+1:], "%d", &sn.K); err != nil || sn.K < 1 {
					return fail(fmt.Errorf("snapshot NAME = VAR#K with K >= 1"))
				}
				cur.Snapshots = append(cur.Snapshots, sn)
			case "reveal":
				if cur.Reveal == nil {
					cur.Reveal = map[string]bool{}
				}
				for _, n := range strings.Fields(rest) {
					cur.Reveal[n] = true
				}
			case "pure":
				cur.Pure = true
			case "observer":
				cur.Observer = true
			case "arith":
				cur.ArithWrap = strings.TrimSpace(rest) == "wrap"
				cur.ArithMath = strings.TrimSpace(rest) == "math"
			case "modifies":
				for _, m := range strings.FieldsFunc(rest, func(r rune) bool { return r == ',' || r == ' ' || r == '\t' }) {
					if m != "nothing" && !strings.HasPrefix(m, "M.") && !strings.HasPrefix(m, "H.") && !strings.HasPrefix(m, "G.") {
						return fail(fmt.Errorf("modifies: %q is not a heap key (M.<type>, H.<pkg.Type>.<field>, G.<ghostfield>) or 'nothing'", m))
					}
					if m = strings.TrimSpace(m); m != "" {
						cur.Modifies = append(cur.Modifies, m)
					}
				}
			case "requires", "ensures", "preserves":
				facet, tags, label, body := splitAnnot(rest)
				e, err := ParseExpr(body)
				if err != nil {
					return fail(err)
				}
				c := &Clause{Kind: kw, Facet: facet, Tags: tags, Label: label, E: e, Src: strings.TrimSpace(body), File: path, Line: rc.line}
				switch kw {
				case "requires":
					c.Ord = len(cur.Requires) + 1
					cur.Requires = append(cur.Requires, c)
				case "ensures":
					c.Ord = len(cur.Ensures) + 1
					cur.Ensures = append(cur.Ensures, c)
				case "preserves":
					c.Ord = len(cur.Preserves) + 1
					cur.Preserves = append(cur.Preserves, c)
				}
			case "loop":
				// loop N invariant[..] expr | loop N decreases expr ; N may be *
				f := strings.Fields(rest)
				if len(f) < 3 {
					return fail(fmt.Errorf("bad loop clause"))
				}
				n := 0
				if f[0] != "*" {
					var err error
					n, err = strconv.Atoi(f[0])
					if err != nil {
						return fail(err)
					}
				}
				r2 := strings.TrimSpace(strings.TrimPrefix(strings.TrimSpace(rest), f[0]))
				kw2, rest2 := splitKw(r2)
				facet, tags, label, body := splitAnnot(rest2)
				e, err := ParseExpr(body)
				if err != nil {
					return fail(err)
				}
				c := &Clause{Kind: kw2, Facet: facet, Tags: tags, Label: label, E: e, Src: strings.TrimSpace(body), Loop: n, File: path, Line: rc.line}
				switch kw2 {
				case "invariant":
					c.Ord = len(cur.LoopInv) + 1
					cur.LoopInv = append(cur.LoopInv, c)
				case "decreases":
					c.Ord = len(cur.LoopDec) + 1
					cur.LoopDec = append(cur.LoopDec, c)
				case "candidate":
					c.Ord = len(cur.LoopCand) + 1
					cur.LoopCand = append(cur.LoopCand, c)
				case "transition":
					// a two-state fact about one iteration: prev(e) is e at the loop head; checked at every back edge, never
					// assumed ("once set, the flag stays set")
					c.Ord = len(cur.LoopInv) + 1
					cur.LoopInv = append(cur.LoopInv, c)
				case "derived":
					// a consequence of the invariants listed before it: proved once at the loop head (from those invariants,
					// for the arbitrary iteration state) and then available like them; not re-proved around the loop
					c.Ord = len(cur.LoopInv) + 1
					cur.LoopInv = append(cur.LoopInv, c)
				case "assume":
					// assumed at the loop head without proof; always listed among the assumptions of the evidence
					c.Ord = len(cur.LoopInv) + 1
					cur.LoopInv = append(cur.LoopInv, c)
				default:
					return fail(fmt.Errorf("unknown loop clause %q", kw2))
				}
			default:
				return fail(fmt.Errorf("unknown clause %q", kw))
			}
		}
	}
	return nil
}

func splitKw(s string) (string, string) {
	s = strings.TrimSpace(s)
	k := strings.IndexAny(s, " \t[(")
	if k < 0 {
		return s, ""
	}
	if s[k] == '[' || s[k] == '(' {
		return s[:k], s[k:]
	}
	return s[:k], strings.TrimSpace(s[k:])
}

// splitAnnot parses "[S,C12] @label: expr".
func splitAnnot(s string) (facet string, tags []string, label, body string) {
	s = strings.TrimSpace(s)
	facet = "S"
	if strings.HasPrefix(s, "[") {
		k := strings.Index(s, "]")
		for _, a := range strings.Split(s[1:k], ",") {
			a = strings.TrimSpace(a)
			switch a {
			case "S", "T", "F":
				facet = a
			case "":
			default:
				tags = append(tags, a)
			}
		}
		s = strings.TrimSpace(s[k+1:])
	}
	if strings.HasPrefix(s, "@") {
		k := strings.Index(s, ":")
		label = strings.TrimSpace(s[1:k])
		s = s[k+1:]
	}
	return facet, tags, label, s
}

// ---------------------------------------------------------------- expression parser

type tok struct {
	kind string // id, num, str, op, eof
	s    string
	n    *big.Int
}

func lexExpr(s string) ([]tok, error) {
	var ts []tok
	i := 0
	for i < len(s) {
		c := s[i]
		switch {
		case c == ' ' || c == '\t' || c == '\n':
			i++
		case c >= '0' && c <= '9':
			j := i
			for j < len(s) && (s[j] >= '0' && s[j] <= '9' || s[j] >= 'a' && s[j] <= 'f' || s[j] >= 'A' && s[j] <= 'F' || s[j] == 'x' || s[j] == 'X' || s[j] == '_') {
				j++
			}
			n, ok := new(big.Int).SetString(strings.ReplaceAll(s[i:j], "_", ""), 0)
			if !ok {
				return nil, fmt.Errorf("bad number %q", s[i:j])
			}
			ts = append(ts, tok{kind: "num", n: n, s: s[i:j]})
			i = j
		case c == '_' || c >= 'a' && c <= 'z' || c >= 'A' && c <= 'Z':
			j := i
			for j < len(s) && (s[j] == '_' || s[j] == '$' || s[j] == '#' || s[j] >= 'a' && s[j] <= 'z' || s[j] >= 'A' && s[j] <= 'Z' || s[j] >= '0' && s[j] <= '9') {
				j++
			}
			ts = append(ts, tok{kind: "id", s: s[i:j]})
			i = j
		case c == '\'':
			j := i + 1
			for j < len(s) && s[j] != '\'' {
				if s[j] == '\\' {
					j++
				}
				j++
			}
			if j >= len(s) {
				return nil, fmt.Errorf("unterminated char literal")
			}
			r, _, _, err := strconv.UnquoteChar(s[i+1:j], '\'')
			if err != nil {
				return nil, fmt.Errorf("bad char literal %q", s[i:j+1])
			}
			ts = append(ts, tok{kind: "num", n: big.NewInt(int64(r)), s: s[i : j+1]})
			i = j + 1
		case c == '"':
			j := i + 1
			for j < len(s) && s[j] != '"' {
				if s[j] == '\\' {
					j++
				}
				j++
			}
			if j >= len(s) {
				return nil, fmt.Errorf("unterminated string literal")
			}
			v, err := strconv.Unquote(s[i : j+1])
			if err != nil {
				return nil, err
			}
			ts = append(ts, tok{kind: "str", s: v})
			i = j + 1
		default:
			ops := []string{"<==>", "==>", "&&", "||", "==", "!=", "<=", ">=", "<<", ">>", "&^", "<", ">", "+", "-", "*", "/", "%", "!", "(", ")", "[", "]", ",", ".", ":", "&", "|", "^"}
			found := false
			for _, op := range ops {
				if strings.HasPrefix(s[i:], op) {
					ts = append(ts, tok{kind: "op", s: op})
					i += len(op)
					found = true
					break
				}
			}
			if !found {
				return nil, fmt.Errorf("unexpected character %q", c)
			}
		}
	}
	ts = append(ts, tok{kind: "eof"})
	return ts, nil
}

type eparser struct {
	ts []tok
	i  int
}

func ParseExpr(s string) (e Expr, err error) {
	ts, err := lexExpr(s)
	if err != nil {
		return nil, err
	}
	p := &eparser{ts: ts}
	defer func() {
		if r := recover(); r != nil {
			if pe, ok := r.(parseErr); ok {
				err = fmt.Errorf("%s", string(pe))
				return
			}
			panic(r)
		}
	}()
	e = p.parse(0)
	if p.peek().kind != "eof" {
		return nil, fmt.Errorf("trailing tokens at %q", p.peek().s)
	}
	return e, nil
}

type parseErr string

func (p *eparser) peek() tok { return p.ts[p.i] }
func (p *eparser) next() tok { t := p.ts[p.i]; p.i++; return t }
func (p *eparser) isOp(s string) bool {
	t := p.peek()
	return t.kind == "op" && t.s == s
}
func (p *eparser) expect(s string) {
	if !p.isOp(s) {
		panic(parseErr(fmt.Sprintf("expected %q, found %q", s, p.peek().s)))
	}
	p.i++
}

var binPrec = map[string]int{
	"<==>": 1, "==>": 2, "||": 3, "&&": 4,
	"==": 5, "!=": 5, "<": 5, "<=": 5, ">": 5, ">=": 5,
	"+": 6, "-": 6, "|": 6, "^": 6,
	"*": 7, "/": 7, "%": 7, "&": 7, "<<": 7, ">>": 7, "&^": 7,
}

func (p *eparser) parse(minPrec int) Expr {
	x := p.unary()
	for {
		t := p.peek()
		if t.kind != "op" {
			return x
		}
		pr, ok := binPrec[t.s]
		if !ok || pr < minPrec {
			return x
		}
		p.i++
		if t.s == "==>" {
			y := p.parse(pr) // right associative
			x = &EBinary{Op: "==>", X: x, Y: y}
			continue
		}
		y := p.parse(pr + 1)
		if pr == 5 {
			// chained comparison a <= b < c
			cmp := Expr(&EBinary{Op: t.s, X: x, Y: y})
			for {
				t2 := p.peek()
				if t2.kind == "op" && binPrec[t2.s] == 5 {
					p.i++
					z := p.parse(6)
					cmp = &EBinary{Op: "&&", X: cmp, Y: &EBinary{Op: t2.s, X: y, Y: z}}
					y = z
					continue
				}
				break
			}
			x = cmp
			continue
		}
		x = &EBinary{Op: t.s, X: x, Y: y}
	}
}

func (p *eparser) unary() Expr {
	t := p.peek()
	if t.kind == "op" && (t.s == "!" || t.s == "-" || t.s == "^") {
		p.i++
		return &EUnary{Op: t.s, X: p.unary()}
	}
	return p.postfix(p.primary())
}

func (p *eparser) primary() Expr {
	t := p.next()
	switch t.kind {
	case "num":
		return &ENum{Val: t.n}
	case "str":
		return &EStr{Val: t.s}
	case "id":
		switch t.s {
		case "true":
			return &EBool{true}
		case "false":
			return &EBool{false}
		}
		return &EIdent{Name: t.s}
	case "op":
		if t.s == "(" {
			e := p.parse(0)
			p.expect(")")
			return e
		}
	}
	panic(parseErr(fmt.Sprintf("unexpected token %q", t.s)))
}

func (p *eparser) postfix(x Expr) Expr {
	for {
		switch {
		case p.isOp("."):
			p.i++
			t := p.next()
			if t.kind != "id" {
				panic(parseErr("expected field name after '.'"))
			}
			x = &ESel{X: x, Name: t.s}
		case p.isOp("("):
			p.i++
			var args []Expr
			for !p.isOp(")") {
				args = append(args, p.parse(0))
				if p.isOp(",") {
					p.i++
				}
			}
			p.expect(")")
			name := ""
			switch f := x.(type) {
			case *EIdent:
				name = f.Name
			case *ESel:
				if id, ok := f.X.(*EIdent); ok {
					name = id.Name + "." + f.Name
				}
			}
			if name == "" {
				panic(parseErr("call of non-identifier"))
			}
			x = &ECall{Fun: name, Args: args}
		case p.isOp("["):
			p.i++
			var lo, hi, max Expr
			if !p.isOp(":") {
				lo = p.parse(0)
			}
			if p.isOp("]") {
				p.i++
				x = &EIndex{X: x, I: lo}
				continue
			}
			p.expect(":")
			if !p.isOp("]") && !p.isOp(":") {
				hi = p.parse(0)
			}
			if p.isOp(":") {
				p.i++
				max = p.parse(0)
			}
			p.expect("]")
			x = &ESlice{X: x, Lo: lo, Hi: hi, Max: max}
		default:
			return x
		}
	}
}

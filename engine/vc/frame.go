package vc

import (
	"fmt"
	"go/types"
	"sort"
	"strings"

	"golang.org/x/tools/go/ssa"
)

// Frame analysis for C20: a frame obligation on every function of the repository — every store, map update, in-place
// append/copy and every call argument that a callee writes through targets memory reachable from the function's
// arguments/receiver or freshly allocated memory, never memory reachable from a package-level variable
// (package initialisers excepted). With no shared mutable state and no goroutines in the library, private instances
// cannot race and results cannot depend on earlier calls.
func init() {
	Analyses["frame"] = frameAnalysis
}

func frameAnalysis(E *Engine, ps *PropSpec) []*ExtraResult {
	pa := E.provenance()
	var out []*ExtraResult
	var names []string
	for n := range E.P.Funcs {
		names = append(names, n)
	}
	sort.Strings(names)
	for _, n := range names {
		fn := E.P.Funcs[n]
		if len(fn.Blocks) == 0 {
			continue
		}
		if fn.Name() == "init" || strings.HasPrefix(fn.Name(), "init#") {
			continue
		}
		s := pa.sums[fn]
		// obligation 1: no write reaches package-level memory
		ok := len(s.GW) == 0
		detail := "no store, map update, append/copy destination or callee write summary reaches memory rooted in a package-level variable"
		replay := ""
		if !ok {
			var ws []string
			for _, g := range s.GW {
				ws = append(ws, fmt.Sprintf("%s: %s writes %v", shortFile(g.Pos), g.Via, g.Keys))
			}
			sort.Strings(ws)
			detail = "write(s) that may reach package-level memory:\n  " + strings.Join(ws, "\n  ")
			replay = "call " + n + " from two goroutines on private arguments: both write the same package-level memory listed above"
		}
		out = append(out, &ExtraResult{Name: n + "/frame:no-global-write", Kind: "frame", OK: ok, By: "provenance", Detail: detail, Note: "no-failing-input-found", Replay: replay})
		// obligation 2: no goroutines, channels or unsafe in library code
		bad := ""
		for _, b := range fn.Blocks {
			for _, ins := range b.Instrs {
				switch x := ins.(type) {
				case *ssa.Go:
					bad = "go statement"
				case *ssa.Select, *ssa.Send, *ssa.MakeChan:
					bad = fmt.Sprintf("%T", ins)
				case *ssa.Convert:
					if b, ok := under(x.Type()).(*types.Basic); ok && b.Kind() == types.UnsafePointer {
						bad = "unsafe.Pointer conversion"
					}
				}
			}
		}
		if bad != "" {
			out = append(out, &ExtraResult{Name: n + "/frame:sequential", Kind: "frame", OK: false, By: "provenance", Detail: "library code uses " + bad, Note: "no-failing-input-found"})
		}
	}
	// obligation 3: package-level variables that are written anywhere outside initialisers
	var mut []string
	for g, imm := range E.immGlobal {
		if !imm && g.Pkg != nil && strings.HasPrefix(g.Pkg.Pkg.Path(), ModPath) {
			mut = append(mut, shortPkg(g.Pkg.Pkg.Path())+"."+g.Name())
		}
	}
	sort.Strings(mut)
	out = append(out, &ExtraResult{Name: "repo/frame:no-mutable-package-state", Kind: "frame", OK: len(mut) == 0, By: "provenance",
		Detail: "package-level variables stored to (or whose address escapes) outside package initialisers: " + fmt.Sprint(mut), Note: "no-failing-input-found"})
	return out
}

package vc

import (
	"path"
	"fmt"
	"go/types"
	"sort"
	"strings"

	"golang.org/x/tools/go/ssa"
)

// Frame analysis for C20: a frame obligation on every function of the repository — every store, map update, in-place
// append/copy and every call argument that a callee writes through targets memory reachable from the function's
// arguments/receiver or freshly allocated memory, never memory reachable from a package-level variable
// (package initialisers excepted). With no shared mutable state and no goroutines in the library, private instances
// cannot race and results cannot depend on earlier calls.
func init() {
	Analyses["frame"] = frameAnalysis
}

func frameAnalysis(E *Engine, ps *PropSpec) []*ExtraResult {
	pa := E.provenance()
	var out []*ExtraResult
	var names []string
	for n := range E.P.Funcs {
		names = append(names, n)
	}
	sort.Strings(names)
	for _, n := range names {
		fn := E.P.Funcs[n]
		if len(fn.Blocks) == 0 {
			continue
		}
		if fn.Name() == "init" || strings.HasPrefix(fn.Name(), "init#") {
			continue
		}
		s := pa.sums[fn]
		// obligation 1: no write reaches package-level memory
		ok := len(s.GW) == 0
		detail := "no store, map update, append/copy destination or callee write summary reaches memory rooted in a package-level variable"
		replay := ""
		if !ok {
			var ws []string
			for _, g := range s.GW {
				ws = append(ws, fmt.Sprintf("%s: %s writes %v", shortFile(g.Pos), g.Via, g.Keys))
			}
			sort.Strings(ws)
			detail = "write(s) that may reach package-level memory:\n  " + strings.Join(ws, "\n  ")
			replay = "call " + n + " from two goroutines on private arguments: both write the same package-level memory listed above"
		}
		out = append(out, &ExtraResult{Name: n + "/frame:no-global-write", Kind: "frame", OK: ok, By: "provenance", Detail: detail, Note: "no-failing-input-found", Replay: replay})
		// obligation 1b: no pointer into package-level memory is stored into a heap object, except memory declared
		// `sharedconst` (never written; the declarations are listed as assumptions). Without this, memory loaded from a
		// parameter could be package-level memory and the classification above would be wrong.
		for _, ge := range s.GE {
			okAll := true
			for _, g := range ge.Globals {
				allowed := false
				for _, sc := range E.S.SharedConsts {
					mg, _ := path.Match(sc.Global, g)
					mf, _ := path.Match(sc.Func, n)
					if mg && mf {
						allowed = true
					}
				}
				if !allowed {
					okAll = false
				}
			}
			if !okAll {
				out = append(out, &ExtraResult{Name: n + "/frame:global-escape:" + strings.Join(ge.Globals, "+"), Kind: "frame", OK: false, By: "provenance",
					Detail: fmt.Sprintf("%s: %s stores a pointer into package-level memory (%s) into a heap object; a later write through that object would be a write to shared memory", shortFile(ge.Pos), ge.Via, strings.Join(ge.Globals, ", ")),
					Note: "no-failing-input-found", Replay: "two instances built by " + n + " share the package-level memory " + strings.Join(ge.Globals, ", ") + "; a write through one is visible to the other"})
			}
		}
		// obligation 2: no goroutines, channels or unsafe in library code
		bad := ""
		for _, b := range fn.Blocks {
			for _, ins := range b.Instrs {
				switch x := ins.(type) {
				case *ssa.Go:
					bad = "go statement"
				case *ssa.Select, *ssa.Send, *ssa.MakeChan:
					bad = fmt.Sprintf("%T", ins)
				case *ssa.Convert:
					if b, ok := under(x.Type()).(*types.Basic); ok && b.Kind() == types.UnsafePointer {
						bad = "unsafe.Pointer conversion"
					}
				}
			}
		}
		if bad != "" {
			out = append(out, &ExtraResult{Name: n + "/frame:sequential", Kind: "frame", OK: false, By: "provenance", Detail: "library code uses " + bad, Note: "no-failing-input-found"})
		}
	}
	// summary obligation for 1b
	nEsc, nBad := 0, 0
	for _, n := range names {
		if s := pa.sums[E.P.Funcs[n]]; s != nil {
			nEsc += len(s.GE)
		}
	}
	for _, x := range out {
		if strings.Contains(x.Name, "/frame:global-escape:") {
			nBad++
		}
	}
	if nBad == 0 {
		out = append(out, &ExtraResult{Name: "frame:global-escapes", Kind: "frame", OK: true, By: "provenance",
			Detail: fmt.Sprintf("%d stores of a pointer into package-level memory into heap objects, every one of memory declared sharedconst (never written; listed under assumptions)", nEsc)})
	}
	// obligation 3: package-level variables that are written anywhere outside initialisers
	var mut []string
	for g, imm := range E.immGlobal {
		if !imm && g.Pkg != nil && strings.HasPrefix(g.Pkg.Pkg.Path(), ModPath) {
			mut = append(mut, shortPkg(g.Pkg.Pkg.Path())+"."+g.Name())
		}
	}
	sort.Strings(mut)
	out = append(out, &ExtraResult{Name: "repo/frame:no-mutable-package-state", Kind: "frame", OK: len(mut) == 0, By: "provenance",
		Detail: "package-level variables stored to (or whose address escapes) outside package initialisers: " + fmt.Sprint(mut), Note: "no-failing-input-found"})
	return out
}

package vc

import (
	"go/types"
	"strings"

	"golang.org/x/tools/go/ssa"
)

// inRepo reports whether a function belongs to the verified module.
func (E *Engine) inRepo(fn *ssa.Function) bool {
	if fn == nil {
		return false
	}
	for fn.Parent() != nil {
		fn = fn.Parent()
	}
	if fn.Pkg != nil {
		return strings.HasPrefix(fn.Pkg.Pkg.Path(), ModPath)
	}
	if o := fn.Object(); o != nil && o.Pkg() != nil {
		return strings.HasPrefix(o.Pkg().Path(), ModPath)
	}
	return false
}

// implementers lists repo methods that an interface method call may dispatch to.
func (E *Engine) implementers(recv types.Type, method *types.Func) []*ssa.Function {
	key := typeKey(recv) + "." + method.Name()
	if E.implCache == nil {
		E.implCache = map[string][]*ssa.Function{}
	}
	if r, ok := E.implCache[key]; ok {
		return r
	}
	iface, _ := under(recv).(*types.Interface)
	var out []*ssa.Function
	if iface != nil {
		for _, sp := range E.P.SPkgs {
			if sp == nil || !strings.HasPrefix(sp.Pkg.Path(), ModPath) {
				continue
			}
			for _, m := range sp.Members {
				t, ok := m.(*ssa.Type)
				if !ok {
					continue
				}
				for _, T := range []types.Type{t.Type(), types.NewPointer(t.Type())} {
					if types.IsInterface(T) || !types.Implements(T, iface) {
						continue
					}
					sel := E.P.SSA.MethodSets.MethodSet(T).Lookup(method.Pkg(), method.Name())
					if sel == nil {
						continue
					}
					if f := E.P.SSA.MethodValue(sel); f != nil {
						out = append(out, f)
					}
				}
			}
		}
	}
	E.implCache[key] = out
	return out
}

// closuresOfSig lists repo function literals / functions whose address is taken with a given signature.
func (E *Engine) funcValuesOfSig(sig *types.Signature) []*ssa.Function {
	var out []*ssa.Function
	for _, f := range E.P.Funcs {
		if f.Parent() != nil && types.Identical(stripRecv(f.Signature), stripRecv(sig)) {
			out = append(out, f)
		}
	}
	for f := range E.addrTaken() {
		if types.Identical(stripRecv(f.Signature), stripRecv(sig)) {
			out = append(out, f)
		}
	}
	return out
}

func stripRecv(s *types.Signature) *types.Signature {
	return types.NewSignatureType(nil, nil, nil, s.Params(), s.Results(), s.Variadic())
}

var addrTakenCache map[*ssa.Function]bool

func (E *Engine) addrTaken() map[*ssa.Function]bool {
	if addrTakenCache != nil {
		return addrTakenCache
	}
	addrTakenCache = map[*ssa.Function]bool{}
	for _, f := range E.P.Funcs {
		for _, b := range f.Blocks {
			for _, ins := range b.Instrs {
				for _, op := range ins.Operands(nil) {
					if op == nil || *op == nil {
						continue
					}
					if g, ok := (*op).(*ssa.Function); ok {
						if c, isCall := ins.(ssa.CallInstruction); isCall && c.Common().Value == g {
							// direct call; but g may also appear among args
							isArg := false
							for _, a := range c.Common().Args {
								if a == g {
									isArg = true
								}
							}
							if !isArg {
								continue
							}
						}
						if E.inRepo(g) {
							addrTakenCache[g] = true
						}
					}
				}
			}
		}
	}
	return addrTakenCache
}

// candidateTypes lists the repo types a dynamic interface value may have, refined along its def-use chain
// (type assertions narrow the set; loads from local cells follow their stores).
func (E *Engine) candidateTypes(v ssa.Value, depth int) []types.Type {
	all := func(T types.Type) []types.Type {
		iface, _ := under(T).(*types.Interface)
		if iface == nil {
			return []types.Type{T}
		}
		var out []types.Type
		for _, sp := range E.P.SPkgs {
			if sp == nil || !strings.HasPrefix(sp.Pkg.Path(), ModPath) {
				continue
			}
			for _, m := range sp.Members {
				t, ok := m.(*ssa.Type)
				if !ok {
					continue
				}
				for _, C := range []types.Type{t.Type(), types.NewPointer(t.Type())} {
					if !types.IsInterface(C) && types.Implements(C, iface) {
						out = append(out, C)
					}
				}
			}
		}
		return out
	}
	if depth > 6 {
		return all(v.Type())
	}
	filter := func(cs []types.Type, T types.Type) []types.Type {
		iface, _ := under(T).(*types.Interface)
		if iface == nil {
			return cs
		}
		var out []types.Type
		for _, c := range cs {
			if types.Implements(c, iface) {
				out = append(out, c)
			}
		}
		return out
	}
	switch x := v.(type) {
	case *ssa.MakeInterface:
		return []types.Type{x.X.Type()}
	case *ssa.ChangeInterface:
		return filter(E.candidateTypes(x.X, depth+1), x.Type())
	case *ssa.TypeAssert:
		return filter(E.candidateTypes(x.X, depth+1), x.AssertedType)
	case *ssa.Extract:
		if ta, ok := x.Tuple.(*ssa.TypeAssert); ok && x.Index == 0 {
			return E.candidateTypes(ta, depth+1)
		}
	case *ssa.UnOp:
		if a, ok := x.X.(*ssa.Alloc); ok && isCell(a) {
			var out []types.Type
			seen := map[string]bool{}
			n := 0
			for _, r := range *a.Referrers() {
				if st, ok := r.(*ssa.Store); ok && st.Addr == a {
					n++
					for _, c := range E.candidateTypes(st.Val, depth+1) {
						if k := typeKey(c); !seen[k] {
							seen[k] = true
							out = append(out, c)
						}
					}
				}
			}
			if n > 0 {
				return filter(out, v.Type())
			}
		}
	}
	return all(v.Type())
}

// callTargets resolves a call to the repo functions it may reach; external=true if it may leave the repo.
func (E *Engine) callTargets(c *ssa.CallCommon) (targets []*ssa.Function, external *ssa.Function, dynamic bool) {
	if c.IsInvoke() {
		var out []*ssa.Function
		for _, T := range E.candidateTypes(c.Value, 0) {
			sel := E.P.SSA.MethodSets.MethodSet(T).Lookup(c.Method.Pkg(), c.Method.Name())
			if sel == nil {
				continue
			}
			if f := E.P.SSA.MethodValue(sel); f != nil {
				out = append(out, f)
			}
		}
		return out, nil, true
	}
	switch v := c.Value.(type) {
	case *ssa.Function:
		if E.inRepo(v) {
			return []*ssa.Function{v}, nil, false
		}
		return nil, v, false
	case *ssa.MakeClosure:
		return []*ssa.Function{v.Fn.(*ssa.Function)}, nil, false
	case *ssa.Builtin:
		return nil, nil, false
	}
	sig, _ := under(c.Value.Type()).(*types.Signature)
	if sig == nil {
		return nil, nil, true
	}
	return E.funcValuesOfSig(sig), nil, true
}

func (E *Engine) computeModsets() {
	E.modsetsM = map[*ssa.Function]*ModSet{}
	E.modsets[nil] = nil // mark computed
	type callRec struct {
		targets []*ssa.Function
	}
	calls := map[*ssa.Function][]callRec{}
	for _, f := range E.P.Funcs {
		m := &ModSet{Keys: map[string]bool{}}
		E.modsetsM[f] = m
		for _, b := range f.Blocks {
			for _, ins := range b.Instrs {
				switch x := ins.(type) {
				case *ssa.Store:
					m.add(storeKeys(x.Addr)...)
				case *ssa.MapUpdate:
					m.add("MAP." + typeKey(x.Map.Type()))
				case ssa.CallInstruction:
					c := x.Common()
					if bi, ok := c.Value.(*ssa.Builtin); ok {
						switch bi.Name() {
						case "append", "copy":
							if sl, ok := under(c.Args[0].Type()).(*types.Slice); ok {
								m.add(leafKeysOf(sl.Elem(), "M."+typeKey(sl.Elem()), map[string]bool{})...)
							}
						case "delete", "clear":
							m.add("MAP." + typeKey(c.Args[0].Type()))
						}
						continue
					}
					targets, ext, dyn := E.callTargets(c)
					if ext != nil {
						args := c.Args
						m.union(E.externalModset(ext, args))
					}
					if dyn && !c.IsInvoke() && len(targets) == 0 {
						// unknown function value: external callback; assume it writes what its arguments reach
						m.union(E.externalModset(nil, c.Args))
					}
					if c.IsInvoke() {
						// external implementations may write what the arguments reach
						m.union(E.externalModset(nil, c.Args))
					}
					if len(targets) > 0 {
						calls[f] = append(calls[f], callRec{targets})
					}
				}
			}
		}
	}
	for changed := true; changed; {
		changed = false
		for f, crs := range calls {
			m := E.modsetsM[f]
			for _, cr := range crs {
				for _, t := range cr.targets {
					if tm := E.modsetsM[t]; tm != nil {
						if m.union(tm) {
							changed = true
						}
					}
				}
			}
		}
	}
}

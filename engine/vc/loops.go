package vc

import (
	"go/types"
	"sort"

	"golang.org/x/tools/go/ssa"
)

type loop struct {
	header  *ssa.BasicBlock
	ord     int // 1-based, in block (source) order
	body    map[*ssa.BasicBlock]bool
	latches []*ssa.BasicBlock
}

type loopInfo struct {
	byHeader map[*ssa.BasicBlock]*loop
	loops    []*loop
	back     map[[2]int]bool // (from,to) block indices
	order    []*ssa.BasicBlock
	irreducible bool
}

// loops finds natural loops of a function and a reverse post-order of the back-edge-free CFG.
func (E *Engine) loops(fn *ssa.Function) *loopInfo {
	if li, ok := E.loopsOf[fn]; ok {
		return li
	}
	li := &loopInfo{byHeader: map[*ssa.BasicBlock]*loop{}, back: map[[2]int]bool{}}
	E.loopsOf[fn] = li
	if len(fn.Blocks) == 0 {
		return li
	}
	// back edges: p -> h where h dominates p
	for _, b := range fn.Blocks {
		for _, s := range b.Succs {
			if s.Dominates(b) {
				li.back[[2]int{b.Index, s.Index}] = true
				l := li.byHeader[s]
				if l == nil {
					l = &loop{header: s, body: map[*ssa.BasicBlock]bool{s: true}}
					li.byHeader[s] = l
				}
				l.latches = append(l.latches, b)
			}
		}
	}
	for _, l := range li.byHeader {
		// body: nodes reaching a latch without passing the header
		var stack []*ssa.BasicBlock
		for _, p := range l.latches {
			if !l.body[p] {
				l.body[p] = true
				stack = append(stack, p)
			}
		}
		for len(stack) > 0 {
			n := stack[len(stack)-1]
			stack = stack[:len(stack)-1]
			for _, p := range n.Preds {
				if !l.body[p] {
					l.body[p] = true
					stack = append(stack, p)
				}
			}
		}
		li.loops = append(li.loops, l)
	}
	sort.Slice(li.loops, func(i, j int) bool { return li.loops[i].header.Index < li.loops[j].header.Index })
	for i, l := range li.loops {
		l.ord = i + 1
	}
	// reverse post-order without back edges
	visited := map[*ssa.BasicBlock]bool{}
	var post []*ssa.BasicBlock
	var dfs func(b *ssa.BasicBlock)
	dfs = func(b *ssa.BasicBlock) {
		visited[b] = true
		for _, s := range b.Succs {
			if li.back[[2]int{b.Index, s.Index}] || visited[s] {
				continue
			}
			dfs(s)
		}
		post = append(post, b)
	}
	dfs(fn.Blocks[0])
	for i := len(post) - 1; i >= 0; i-- {
		li.order = append(li.order, post[i])
	}
	// irreducibility check: any edge to an already-"later" block that is not a back edge would show as a cycle;
	// detect cycles remaining after removing back edges.
	pos := map[*ssa.BasicBlock]int{}
	for i, b := range li.order {
		pos[b] = i
	}
	for _, b := range li.order {
		for _, s := range b.Succs {
			if li.back[[2]int{b.Index, s.Index}] {
				continue
			}
			if ps, ok := pos[s]; ok && ps <= pos[b] {
				li.irreducible = true
			}
		}
	}
	return li
}

// ModSet is the set of heap arrays a function may write (field granularity).
type ModSet struct {
	All  bool
	Keys map[string]bool
}

func (m *ModSet) add(keys ...string) bool {
	ch := false
	for _, k := range keys {
		if !m.Keys[k] {
			m.Keys[k] = true
			ch = true
		}
	}
	return ch
}

func (m *ModSet) union(o *ModSet) bool {
	ch := false
	if o.All && !m.All {
		m.All = true
		ch = true
	}
	for k := range o.Keys {
		if !m.Keys[k] {
			m.Keys[k] = true
			ch = true
		}
	}
	return ch
}

// storeKeys gives the heap arrays written by a store through addr (nil for local cells).
func storeKeys(addr ssa.Value) []string {
	pt, ok := under(addr.Type()).(*types.Pointer)
	if !ok {
		return nil
	}
	T := pt.Elem()
	switch a := addr.(type) {
	case *ssa.Alloc:
		if isCell(a) {
			return nil
		}
	case *ssa.FieldAddr:
		st := under(a.X.Type().(*types.Pointer).Elem()).(*types.Struct)
		sT := a.X.Type().(*types.Pointer).Elem()
		return leafKeysOf(T, "H."+structKey(sT)+"."+st.Field(a.Field).Name(), map[string]bool{})
	}
	return leafKeysOf(T, "M."+typeKey(T), map[string]bool{})
}

// isCell reports whether a local is only ever loaded and stored directly.
func isCell(a *ssa.Alloc) bool {
	if a.Heap {
		return false
	}
	refs := a.Referrers()
	if refs == nil {
		return false
	}
	for _, r := range *refs {
		switch x := r.(type) {
		case *ssa.Store:
			if x.Addr != a || x.Val == a {
				return false
			}
		case *ssa.UnOp:
		case *ssa.DebugRef:
		default:
			return false
		}
	}
	return true
}

// typeReachKeys lists heap arrays reachable for writing from a value of type T (used for external callees).
func typeReachKeys(T types.Type, seen map[string]bool, depth int) []string {
	if depth > 4 {
		return nil
	}
	switch u := under(T).(type) {
	case *types.Pointer:
		el := u.Elem()
		out := leafKeysOf(el, "M."+typeKey(el), map[string]bool{})
		if st, ok := under(el).(*types.Struct); ok {
			k := structKey(el)
			if seen[k] {
				return out
			}
			seen[k] = true
			for i := 0; i < st.NumFields(); i++ {
				out = append(out, typeReachKeys(st.Field(i).Type(), seen, depth+1)...)
			}
		}
		return out
	case *types.Slice:
		el := u.Elem()
		out := leafKeysOf(el, "M."+typeKey(el), map[string]bool{})
		out = append(out, typeReachKeys(el, seen, depth+1)...)
		return out
	case *types.Struct:
		var out []string
		for i := 0; i < u.NumFields(); i++ {
			out = append(out, typeReachKeys(u.Field(i).Type(), seen, depth+1)...)
		}
		return out
	}
	return nil
}

// knownPure lists external functions that write no memory visible to the library.
var knownPure = map[string]bool{
	"bytes.Equal": true, "bytes.IndexByte": true, "bytes.HasPrefix": true, "bytes.HasSuffix": true, "bytes.Index": true,
	"bytes.Compare": true, "bytes.EqualFold": true, "bytes.Contains": true, "bytes.LastIndexByte": true, "bytes.IndexAny": true,
	"unicode/utf8.RuneLen": true, "unicode/utf8.DecodeRune": true, "unicode/utf8.DecodeLastRune": true, "unicode/utf8.ValidRune": true,
	"unicode/utf8.RuneCount": true, "unicode/utf8.FullRune": true, "unicode/utf8.DecodeRuneInString": true, "unicode/utf8.RuneCountInString": true,
	"unicode/utf8.Valid": true, "unicode/utf8.ValidString": true,
	"unicode.IsOneOf": true, "unicode.Is": true, "unicode.IsGraphic": true, "unicode.IsLetter": true, "unicode.IsDigit": true, "unicode.IsSpace": true,
	"unicode.In": true, "unicode.IsPrint": true, "unicode.IsControl": true, "unicode.IsUpper": true, "unicode.ToLower": true, "unicode.ToUpper": true,
	"math.IsNaN": true, "math.IsInf": true, "math.Pow10": true, "math.Float64bits": true, "math.Abs": true, "math.Floor": true, "math.Log10": true,
	"math.Float64frombits": true, "math.Pow": true, "math.Trunc": true, "math.Signbit": true, "math.Ceil": true, "math.Round": true, "math.Mod": true, "math.Inf": true, "math.NaN": true,
	"strings.Repeat": true, "strings.Index": true, "strings.HasPrefix": true, "strings.ToLower": true, "strings.Contains": true,
	"strings.IndexByte": true, "strings.EqualFold": true, "strings.TrimSpace": true,
	"strconv.Itoa": true, "strconv.Quote": true, "strconv.FormatInt": true, "strconv.ParseFloat": true, "strconv.ParseInt": true, "strconv.Atoi": true,
	"errors.New": true, "fmt.Sprintf": true, "fmt.Errorf": true, "fmt.Sprint": true,
	"bytes.Replace": true, "bytes.ToLower": true, "bytes.TrimSpace": true, "bytes.Repeat": true, "bytes.Join": true, "bytes.Fields": true,
	"bytes.ReplaceAll": true, "bytes.NewBuffer": true, "bytes.NewReader": true, "bytes.NewBufferString": true, "strings.NewReader": true, "bytes.Split": true, "bytes.Title": true, "bytes.ToUpper": true, "bytes.Count": true,
	"encoding/base64.(*Encoding).DecodedLen": true, "encoding/base64.(*Encoding).EncodedLen": true,
	"sort.SearchInts": true, "os.Getpagesize": true,
}

// modset computes (memoised, by global fix-point) what a function may write.
func (E *Engine) modset(fn *ssa.Function) *ModSet {
	if E.inRepo(fn) {
		if m := E.modsetFromSummary(fn); m != nil {
			return m
		}
	}
	return E.externalModset(fn, nil)
}

func (E *Engine) externalModset(fn *ssa.Function, args []ssa.Value) *ModSet {
	m := &ModSet{Keys: map[string]bool{}}
	if fn != nil && knownPure[extName(fn)] {
		return m
	}
	if fn != nil {
		sig := fn.Signature
		if r := sig.Recv(); r != nil {
			m.add(typeReachKeys(r.Type(), map[string]bool{}, 0)...)
		}
		for i := 0; i < sig.Params().Len(); i++ {
			m.add(typeReachKeys(sig.Params().At(i).Type(), map[string]bool{}, 0)...)
		}
	}
	for _, a := range args {
		m.add(typeReachKeys(a.Type(), map[string]bool{}, 0)...)
	}
	return m
}

func extName(fn *ssa.Function) string {
	if fn.Pkg == nil {
		if fn.Object() != nil && fn.Object().Pkg() != nil {
			return fn.Object().Pkg().Path() + "." + fn.Name()
		}
		return fn.Name()
	}
	if recv := fn.Signature.Recv(); recv != nil {
		return fn.Pkg.Pkg.Path() + ".(" + types.TypeString(recv.Type(), func(*types.Package) string { return "" }) + ")." + fn.Name()
	}
	return fn.Pkg.Pkg.Path() + "." + fn.Name()
}

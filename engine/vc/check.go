package vc

import (
	"os/exec"
	"bufio"
	"encoding/json"
	"flag"
	"fmt"
	"os"
	"path/filepath"
	"runtime"
	"sort"
	"strconv"
	"strings"
	"time"
)

// Finding is one line of KNOWN_FINDINGS.txt.
type Finding struct {
	Kind       string // "finding" or "fixed"
	Property   string
	Obligation string
	Text       string
}

func loadFindings(path string) []Finding {
	f, err := os.Open(path)
	if err != nil {
		return nil
	}
	defer f.Close()
	var out []Finding
	sc := bufio.NewScanner(f)
	for sc.Scan() {
		line := strings.TrimSpace(sc.Text())
		if line == "" || strings.HasPrefix(line, "#") {
			continue
		}
		var fd Finding
		switch {
		case strings.HasPrefix(line, "finding:"):
			fd.Kind = "finding"
			line = strings.TrimSpace(strings.TrimPrefix(line, "finding:"))
		case strings.HasPrefix(line, "fixed:"):
			fd.Kind = "fixed"
			line = strings.TrimSpace(strings.TrimPrefix(line, "fixed:"))
		default:
			continue
		}
		for _, w := range strings.Fields(line) {
			if strings.HasPrefix(w, "property=") {
				fd.Property = strings.TrimPrefix(w, "property=")
			} else if strings.HasPrefix(w, "obligation=") {
				fd.Obligation = strings.TrimPrefix(w, "obligation=")
			}
		}
		fd.Text = line
		out = append(out, fd)
	}
	return out
}

type evidence struct {
	PropertyID  string                 `json:"property_id"`
	Tier        string                 `json:"tier"`
	Seed        int                    `json:"seed"`
	Level       string                 `json:"level"`
	Coverage    map[string]interface{} `json:"coverage"`
	Assumptions []string               `json:"assumptions"`
	WallS       float64                `json:"wall_s"`
	Violations  int                    `json:"violations"`
}

func cmdCheck(args []string) int {
	fs := flag.NewFlagSet("check", flag.ExitOnError)
	repo := fs.String("repo", "/repo", "repository")
	mirror := fs.String("mirror", "/verif/contracts", "contract mirror")
	prop := fs.String("property", "", "property id")
	tier := fs.String("tier", "", "quick or thorough")
	evdir := fs.String("evidence", "/verif/evidence", "evidence directory")
	replays := fs.String("replays", "/verif/replays", "replay directory")
	known := fs.String("known", "/verif/KNOWN_FINDINGS.txt", "known findings file")
	verbose := fs.Bool("v", false, "verbose")
	fs.Parse(args)
	if *tier == "" {
		*tier = os.Getenv("VERIF_TIER")
	}
	if *tier == "" {
		*tier = "quick"
	}
	seed, _ := strconv.Atoi(os.Getenv("VERIF_SEED"))
	ps := Props[*prop]
	if ps == nil {
		fmt.Printf("property %s is not claimed (see MANIFEST.json not_applicable)\n", *prop)
		return 2
	}
	t0 := time.Now()
	P, err := Load(*repo)
	if err != nil {
		fmt.Println("load:", err)
		return 2
	}
	S, err := LoadSpecs(*repo, *mirror)
	if err != nil {
		fmt.Println("contracts:", err)
		return 2
	}
	E := NewEngine(P, S)
	timeout := 10
	if *tier == "thorough" {
		timeout = 60
	}
	sel := E.Select(ps)
	var obls []*Obligation
	usesCnt := false
	usesDv := false
	orbitLemmas := map[string]string{}
	var unsupported []string
	notes := map[string]bool{}
	funcs := map[string]bool{}
	swept := map[string]bool{}
	for _, fl := range sel {
		fr := E.Encode(fl.Func, fl.Level)
		if fr.Unsupported != "" {
			unsupported = append(unsupported, fmt.Sprintf("%s [%s]: %s", fl.Func, fr.Level, fr.Unsupported))
			continue
		}
		if len(fl.Sel.Kinds) > 0 {
			swept[fl.Func] = true // annotation-free sweep: only obligations of the listed kinds are taken from this function
		} else {
			funcs[fl.Func] = true
		}
		if fr.Enc != nil && fr.Enc.usesCnt {
			usesCnt = true
		}
		if fr.Enc != nil && fr.Enc.usesDv {
			usesDv = true
		}
		if fr.Enc != nil {
			for n, script := range fr.Enc.orbitLemmas {
				orbitLemmas[n] = Prelude + RunEndAxioms + script
			}
		}
		if fr.Enc != nil && fr.Enc.usesRunEnd {
			notes["definitional axioms of runEnd (first address outside a character class, bounded by the slice end)"] = true
		}
		for _, n := range fr.Notes {
			notes[n] = true
		}
		for _, o := range fr.Obls {
			if !keepObligation(o, fl.Sel) {
				continue
			}
			obls = append(obls, o)
		}
	}
	// extra analyses
	var extra []*ExtraResult
	for _, a := range ps.Analyses {
		if f, ok := Analyses[a]; ok {
			extra = append(extra, f(E, ps)...)
		}
	}
	// `observer`: the function writes only memory it allocated itself (no field of its receiver, nothing reachable from
	// an argument, no package-level memory): decided on the write summary of the provenance analysis
	{
		var names []string
		for n := range funcs {
			names = append(names, n)
		}
		sort.Strings(names)
		for _, n := range names {
			ct := S.Contracts[n]
			if ct == nil || !ct.Observer {
				continue
			}
			fn := E.P.Funcs[n]
			if fn == nil {
				continue
			}
			sm := E.SummaryOf(fn)
			var bad []string
			if sm == nil {
				bad = append(bad, "no write summary")
			} else {
				for root, keys := range sm.Mod {
					if root == rootFresh {
						continue
					}
					for k := range keys {
						where := fmt.Sprintf("parameter %d", root)
						if root == rootGlob {
							where = "package-level memory"
						} else if root == rootUnknown {
							where = "unknown memory"
						}
						bad = append(bad, k+" (rooted at "+where+")")
					}
				}
			}
			sort.Strings(bad)
			extra = append(extra, &ExtraResult{Name: n + "/frame:observer", Kind: "frame", OK: len(bad) == 0, By: "provenance",
				Detail: "declared observer, but may write: " + strings.Join(bad, ", "), Note: "no-failing-input-found"})
		}
	}
	if usesCnt {
		extra = append(extra, lemmaProofs(CntLemmaProofs)...)
	}
	if usesDv {
		extra = append(extra, lemmaProofs(DvLemmaProofs)...)
	}
	if len(orbitLemmas) > 0 {
		extra = append(extra, lemmaProofs(orbitLemmas)...)
	}
	workers := runtime.NumCPU()
	results := DischargeAll(obls, timeout, workers, *tier == "thorough")
	// second pass: what no solver decided within the budget is retried with three times the budget and few workers,
	// so that a loaded machine does not turn a slow proof into an alarm
	var retry []*Obligation
	var retryIdx []int
	for i, r := range results {
		if r.Status == "unknown" {
			retry = append(retry, r.O)
			retryIdx = append(retryIdx, i)
		}
	}
	retried := len(retry)
	if retried > 0 && retried <= 64 {
		rr := DischargeAll(retry, timeout*3, 4, false)
		for k, r := range rr {
			r.Seconds += results[retryIdx[k]].Seconds
			results[retryIdx[k]] = r
		}
	}
	// thorough: cross-confirm with a second solver where it answers
	confirmed, disagreements := 0, 0
	if *tier == "thorough" {
		confirmed, disagreements = crossConfirm(results, timeout, workers)
	}
	findings := loadFindings(*known)
	bySolver := map[string]int{}
	solverSecs := 0.0
	discharged := 0
	violations := 0
	var samples []interface{}
	var slow []string
	type viol struct {
		name, replay, note string
	}
	var viols []viol
	knownPrinted := map[string]bool{}
	var coverUndecided []string
	for _, r := range results {
		solverSecs += r.Seconds
		if r.Status == "cover-undecided" {
			coverUndecided = append(coverUndecided, r.O.Name)
			continue
		}
		if r.Status == "discharged" {
			discharged++
			bySolver[r.Solver]++
			if len(samples) < 6 && r.O.Kind != "cover" && r.O.Goal != True {
				samples = append(samples, map[string]interface{}{"obligation": r.O.Name, "kind": r.O.Kind, "at": shortFile(r.O.Pos), "goal": truncate(r.O.Goal, 300), "solver": r.Solver, "seconds": round3(r.Seconds)})
			}
			if r.Seconds > 2 {
				slow = append(slow, fmt.Sprintf("%s %.1fs", r.O.Name, r.Seconds))
			}
			continue
		}
		// known finding?
		if fd := matchFinding(findings, *prop, r.O.Name); fd != nil {
			if !knownPrinted[fd.Text] {
				fmt.Printf("KNOWN-FINDING: property=%s %s\n", *prop, fd.Text)
				knownPrinted[fd.Text] = true
			}
			continue
		}
		violations++
		rp, note := writeReplay(E, *replays, *prop, r)
		viols = append(viols, viol{r.O.Name, rp, note})
	}
	for _, x := range extra {
		if x.OK {
			discharged++
			bySolver[x.By]++
			if len(samples) < 8 {
				samples = append(samples, map[string]interface{}{"obligation": x.Name, "kind": x.Kind, "detail": truncate(x.Detail, 300)})
			}
			continue
		}
		if fd := matchFinding(findings, *prop, x.Name); fd != nil {
			if !knownPrinted[fd.Text] {
				fmt.Printf("KNOWN-FINDING: property=%s %s\n", *prop, fd.Text)
				knownPrinted[fd.Text] = true
			}
			continue
		}
		violations++
		rp := writeExtraReplay(*replays, *prop, x)
		viols = append(viols, viol{x.Name, rp, x.Note})
	}
	// unsupported functions of a claimed property are failures of the check (never silently dropped)
	for _, u := range unsupported {
		violations++
		os.MkdirAll(filepath.Join(*replays, *prop), 0o755)
		rp := filepath.Join(*replays, *prop, "unsupported_"+sanitize(strings.SplitN(u, " ", 2)[0])+".txt")
		os.WriteFile(rp, []byte("function left the supported subset or its contract could not be evaluated; no obligation could be generated\n"+u+"\n"), 0o644)
		viols = append(viols, viol{"unsupported:" + u, rp, "no-failing-input-found"})
	}
	total := len(results) + len(extra) - len(coverUndecided)
	if total == 0 {
		violations++
		viols = append(viols, viol{"vacuity: zero obligations generated", filepath.Join(*replays, *prop, "vacuity.txt"), "no-failing-input-found"})
		os.MkdirAll(filepath.Join(*replays, *prop), 0o755)
		os.WriteFile(filepath.Join(*replays, *prop, "vacuity.txt"), []byte("no obligations were generated for this property\n"), 0o644)
	}
	if disagreements > 0 {
		violations++
		viols = append(viols, viol{"solver disagreement", filepath.Join(*replays, *prop, "disagreement.txt"), "no-failing-input-found"})
	}
	sort.Slice(viols, func(i, j int) bool { return viols[i].name < viols[j].name })
	for _, v := range viols {
		line := fmt.Sprintf("VIOLATION property=%s replay=%s", *prop, v.replay)
		if v.note != "" {
			line += " " + v.note
		}
		fmt.Println(line)
		fmt.Printf("  obligation: %s\n", v.name)
	}
	// evidence
	var fnames []string
	for f := range funcs {
		fnames = append(fnames, f)
	}
	sort.Strings(fnames)
	sweptOnly := 0
	for f := range swept {
		if !funcs[f] {
			sweptOnly++
		}
	}
	var assumptions []string
	assumptions = append(assumptions, baseAssumptions...)
	// callee contracts used at call sites: discharged by this check when the callee is selected at that facet level,
	// otherwise by the check of another property (named), otherwise an unverified assumption
	selHas := map[string]bool{}
	for _, fl := range sel {
		selHas[fmt.Sprintf("%s@%d", fl.Func, fl.Level)] = true
	}
	var elsewhere []string
	seenCallee := map[string]bool{}
	for n := range notes {
		if strings.HasPrefix(n, "callee-contract:") {
			rest := strings.TrimPrefix(n, "callee-contract:")
			k := strings.LastIndex(rest, "@")
			callee := rest[:k]
			lvl := int(rest[k+1] - '0')
			ct := E.effectiveContract(callee)
			if ct == nil {
				continue
			}
			// the facets of the postcondition clauses the call site relied on
			need := map[int]bool{}
			for _, group := range [][]*Clause{ct.Ensures, ct.Preserves} {
				for _, c := range group {
					if facetLevel[c.Facet] <= lvl {
						need[facetLevel[c.Facet]] = true
					}
				}
			}
			for f := range need {
				key := fmt.Sprintf("%s@%d", callee, f)
				if selHas[key] || seenCallee[key] {
					continue
				}
				seenCallee[key] = true
				var by []string
				if !ct.NoVerify {
					for _, id := range sortedPropIDs() {
						if id == *prop {
							continue
						}
						for _, fl := range E.Select(Props[id]) {
							if fl.Func == callee && fl.Level == f {
								by = append(by, id)
								break
							}
						}
					}
				}
				if len(by) == 0 {
					assumptions = append(assumptions, fmt.Sprintf("callee contract assumed, not discharged by any registered check: %s (facet %s clauses)", callee, levelNames[f]))
				} else {
					elsewhere = append(elsewhere, fmt.Sprintf("%s [%s] discharged under %s", callee, levelNames[f], strings.Join(by, ",")))
				}
			}
			continue
		}
		assumptions = append(assumptions, n)
	}
	sort.Strings(elsewhere)
	for name, ct := range S.Contracts {
		if ct.AssumeFacets != "" {
			assumptions = append(assumptions, "facet "+ct.AssumeFacets+" clauses assumed (not verified) for "+name)
		}
		if ct.Trusted {
			if ct.VerifyBody != "" {
				assumptions = append(assumptions, "trusted contract (frame and clauses below facet "+ct.VerifyBody+" assumed; body verified at facet "+ct.VerifyBody+"): "+name)
			} else {
				assumptions = append(assumptions, "trusted contract (assumed, body not verified): "+name)
			}
		}
	}
	for _, ax := range S.Axioms {
		assumptions = append(assumptions, "axiom: "+ax.Src)
	}
	for _, a := range ps.Analyses {
		if a == "frame" {
			for _, sc := range S.SharedConsts {
				assumptions = append(assumptions, "package-level memory declared shared-constant (may be referenced from heap objects, assumed never written): "+sc.Global+" in "+sc.Func+": "+sc.Reason)
			}
		}
		if a == "depth" {
			for _, r := range S.StructuralRecReasons {
				assumptions = append(assumptions, "recursion declared structural (bounded by the depth of a finite data structure, not by a guard): "+r)
			}
		}
	}
	sort.Strings(assumptions)
	if len(samples) == 0 {
		samples = append(samples, "none discharged")
	}
	cov := map[string]interface{}{
		"obligations":            total,
		"discharged":             discharged,
		"checker_cmd":            fmt.Sprintf("/verif/bin/vcgo check -property %s -tier %s   (per obligation: sliced query then full query on z3-new 5.1.0 (4 s), then z3-new, z3 4.8.12 and cvc5 1.0.3 raced with -T:%d; undecided ones retried once with three times the budget)", *prop, *tier, timeout),
		"trusted_base":           trustedBase,
		"functions_under_contract": fnames,
		"functions":              len(fnames),
		"functions_swept_without_contract": sweptOnly,
		"by_backend":             bySolver,
		"solver_seconds":         round3(solverSecs),
		"samples":                samples,
		"not_decided":            ps.NotDecided,
		"slowest":                slow,
		"unsupported":            unsupported,
		"cover_undecided":        coverUndecided,
		"callee_contracts_discharged_by_other_checks": elsewhere,
		"retried_with_3x_budget": retried,
		"known_findings_matched": len(knownPrinted),
		"explanation":            "every obligation is generated from /repo's current source (go/ssa) and the contracts in contracts_verif.go; integers are mathematical with Go's wrap-around modelled explicitly; loops are cut at inductive invariants, calls use callee contracts",
	}
	if *tier == "thorough" {
		cov["cross_confirmed"] = confirmed
		cov["solver_disagreements"] = disagreements
		// guard on the machinery itself: every must-fail mutant of this property (selftest/mutants/<id>-*.diff) is applied
		// to a scratch copy of the tree under check and must be reported by the quick check; a mutant whose patch no longer
		// applies (the tree was changed) is skipped. The outcome is evidence, it does not change the verdict on the property.
		if os.Getenv("VCGO_NO_SELFTEST") == "" {
			cov["must_fail_corpus"] = runSelftest(*prop, *repo)
		}
	}
	ev := evidence{PropertyID: *prop, Tier: *tier, Seed: seed, Level: "proof", Coverage: cov, Assumptions: assumptions, WallS: round3(time.Since(t0).Seconds()), Violations: violations}
	os.MkdirAll(*evdir, 0o755)
	data, _ := json.MarshalIndent(ev, "", " ")
	os.WriteFile(filepath.Join(*evdir, *prop+".json"), data, 0o644)
	if *verbose || violations > 0 {
		fmt.Printf("%s: %d functions, %d obligations, %d discharged, %d violations, %.1fs\n", *prop, len(fnames), total, discharged, violations, time.Since(t0).Seconds())
	} else {
		fmt.Printf("%s: %d functions under contract, %d/%d obligations discharged, %.1fs\n", *prop, len(fnames), discharged, total, time.Since(t0).Seconds())
	}
	if violations > 0 {
		return 1
	}
	return 0
}

func keepObligation(o *Obligation, s Sel) bool {
	if len(s.Kinds) > 0 {
		ok := false
		for _, k := range s.Kinds {
			if o.Kind == k {
				ok = true
			}
		}
		if !ok {
			return false
		}
	}
	if len(s.OnlyTags) > 0 && (o.Kind == "post" || o.Kind == "inv-entry" || o.Kind == "inv-step" || o.Kind == "inv-transition" || o.Kind == "inv-derived" || o.Kind == "callsite") && len(o.Tags) > 0 {
		ok := false
		for _, t := range o.Tags {
			for _, w := range s.OnlyTags {
				if t == w {
					ok = true
				}
			}
		}
		return ok
	}
	return true
}

func matchFinding(fs []Finding, prop, obl string) *Finding {
	for i := range fs {
		f := &fs[i]
		if f.Kind == "finding" && f.Property == prop && f.Obligation != "" && f.Obligation == obl {
			return f
		}
	}
	return nil
}

func truncate(s string, n int) string {
	if len(s) <= n {
		return s
	}
	return s[:n] + "…"
}

func round3(x float64) float64 { return float64(int64(x*1000+0.5)) / 1000 }

var trustedBase = []string{
	"golang.org/x/tools v0.29.0 go/packages, go/types and go/ssa (SSA of the real source, built on every run)",
	"vcgo (this VC generator: memory model, loop cutting, contract evaluation)",
	"SMT solvers z3 5.1.0 (z3-new), z3 4.8.12, cvc5 1.0.3",
}

var baseAssumptions = []string{
	"Go memory safety: typed pointers do not alias across types or struct fields (Burstall-style heap split); no unsafe, no data races within one instance",
	"slice lengths and capacities are below 2^56",
	"every object existing at a program point lies below the allocation frontier (bump-allocator model of the Go heap)",
	"external (standard library) functions write only memory reachable from their arguments; their results are unconstrained unless a trusted contract is listed",
	"external implementations of interfaces called by the library (io.Reader, io.Writer, visitors) do not write the library's own state",
}

// crossConfirm re-runs discharged obligations on a second solver.
func crossConfirm(results []*Result, timeout, workers int) (confirmed, disagreements int) {
	type job struct{ r *Result }
	ch := make(chan *Result)
	done := make(chan [2]int)
	for w := 0; w < workers; w++ {
		go func() {
			c, d := 0, 0
			for r := range ch {
				if r.Status != "discharged" || r.Solver == "simplifier" {
					continue
				}
				f, err := os.CreateTemp(WorkDir, "x*.smt2")
				if err != nil {
					continue
				}
				f.WriteString(r.O.Query(Prelude))
				f.Close()
				for _, s := range Solvers {
					if s.Name == r.Solver {
						continue
					}
					ans, _, _ := runSolver(s, 10, f.Name())
					if ans == r.O.Expect {
						c++
						break
					}
					if ans == "sat" || ans == "unsat" {
						d++
						break
					}
				}
				os.Remove(f.Name())
			}
			done <- [2]int{c, d}
		}()
	}
	for _, r := range results {
		ch <- r
	}
	close(ch)
	for w := 0; w < workers; w++ {
		x := <-done
		confirmed += x[0]
		disagreements += x[1]
	}
	return
}

// ExtraResult is an obligation decided by a non-SMT analysis (frame provenance, recursion-depth guards...).
type ExtraResult struct {
	Name   string
	Kind   string
	OK     bool
	By     string
	Detail string
	Note   string // "no-failing-input-found" or ""
	Replay string // text for the replay file
}

var Analyses = map[string]func(E *Engine, ps *PropSpec) []*ExtraResult{}

func writeExtraReplay(dir, prop string, x *ExtraResult) string {
	os.MkdirAll(filepath.Join(dir, prop), 0o755)
	p := filepath.Join(dir, prop, sanitize(x.Name)+".txt")
	os.WriteFile(p, []byte(fmt.Sprintf("obligation: %s\nkind: %s\n%s\n%s\n", x.Name, x.Kind, x.Detail, x.Replay)), 0o644)
	return p
}

// cntLemmas discharges the induction proofs of the lemmas about cnt that the prelude states as axioms.
func lemmaProofs(proofs map[string]string) []*ExtraResult {
	var out []*ExtraResult
	var names []string
	for n := range proofs {
		names = append(names, n)
	}
	sort.Strings(names)
	os.MkdirAll(WorkDir, 0o755)
	for _, n := range names {
		f, err := os.CreateTemp(WorkDir, "l*.smt2")
		if err != nil {
			continue
		}
		f.WriteString(proofs[n])
		f.Close()
		ans, _, _ := runSolver(Solvers[0], 20, f.Name())
		os.Remove(f.Name())
		out = append(out, &ExtraResult{Name: n, Kind: "lemma", OK: ans == "unsat", By: Solvers[0].Name,
			Detail: "induction proof of a spec-function lemma from the recursive definition (must be unsat); solver answered " + ans, Note: "no-failing-input-found"})
	}
	return out
}

// runSelftest runs selftest/run.sh for the mutants of one property against the repository under check.
func runSelftest(prop, repo string) map[string]interface{} {
	res := map[string]interface{}{}
	matches, _ := filepath.Glob("/verif/selftest/mutants/" + prop + "-*.diff")
	if len(matches) == 0 {
		res["mutants"] = 0
		return res
	}
	cmd := exec.Command("/verif/selftest/run.sh", "-j", "2", prop+"-*")
	cmd.Env = append(os.Environ(), "REPO="+repo, "VCGO_NO_SELFTEST=1")
	out, _ := cmd.CombinedOutput()
	var caught, missed, stale []string
	for _, l := range strings.Split(string(out), "\n") {
		f := strings.Fields(l)
		if len(f) < 2 {
			continue
		}
		name := strings.TrimSuffix(f[1], ":")
		switch f[0] {
		case "caught":
			caught = append(caught, name)
		case "MISSED":
			missed = append(missed, name)
		case "STALE":
			stale = append(stale, name)
		}
	}
	seen := map[string]bool{}
	uniq := func(xs []string) []string {
		var o []string
		for _, x := range xs {
			if !seen[x] {
				seen[x] = true
				o = append(o, x)
			}
		}
		return o
	}
	caught, missed, stale = uniq(caught), uniq(missed), uniq(stale)
	res["mutants"] = len(matches)
	res["caught"] = caught
	res["missed"] = missed
	res["skipped_patch_does_not_apply"] = stale
	if len(missed) > 0 {
		fmt.Printf("SELFTEST: %d must-fail mutant(s) of %s not reported: %s\n", len(missed), prop, strings.Join(missed, ", "))
	}
	return res
}

package vc

import (
	"path"
	"sort"
	"strings"
)

// PropSpec says which functions and facet levels carry a property's obligations.
type PropSpec struct {
	ID     string
	Title  string
	// Sel: function-name patterns (path.Match on canonical names) with the facet levels to run.
	Sel []Sel
	// NotDecided: clauses of the property statement that no obligation covers (reported in evidence).
	NotDecided []string
	// Extra analyses (non-SMT obligations) by name: "frame", "depth", "walk".
	Analyses []string
	Technique string
}

type Sel struct {
	Pattern string
	Levels  string // subset of "STF"
	// OnlyTags: if non-empty, at levels other than the implicit S obligations keep only clauses with one of these tags
	OnlyTags []string
	// Kinds: if non-empty restrict to these obligation kinds
	Kinds []string
	// Exclude patterns
	Except []string
}

// Props is the table of claimed properties. Properties absent here are not_applicable.
var Props = map[string]*PropSpec{}

func registerProp(p *PropSpec) { Props[p.ID] = p }

func init() {
	registerProp(&PropSpec{
		ID: "C12", Title: "Input and buffer.Lexer implement the documented cursor",
		Sel: []Sel{
			{Pattern: "parse.Input.*", Levels: "SF"},
			{Pattern: "parse.NewInput*", Levels: "SF"},
			{Pattern: "buffer.Lexer.*", Levels: "SF"},
			{Pattern: "buffer.NewLexer*", Levels: "SF"},
			{Pattern: "buffer.Reader.*", Levels: "SF"},
			{Pattern: "buffer.NewReader", Levels: "SF"},
			{Pattern: "buffer.Writer.*", Levels: "SF"},
			{Pattern: "buffer.NewWriter", Levels: "SF"},
		},
		Technique: "deductive verification: function contracts on parse.Input / buffer.Lexer, VCs from go/ssa discharged by z3/cvc5",
	})
}

// Select returns the functions (with levels) a property covers, in stable order.
func (E *Engine) Select(p *PropSpec) []FuncLevel {
	var out []FuncLevel
	seen := map[string]bool{}
	names := E.P.SortedFuncNames()
	for _, s := range p.Sel {
		for _, n := range names {
			if ok, _ := path.Match(s.Pattern, n); !ok {
				continue
			}
			if strings.Contains(n, "$") && !strings.Contains(s.Pattern, "$") {
				continue // closures only when asked for
			}
			skip := false
			for _, ex := range s.Except {
				if ok, _ := path.Match(ex, n); ok {
					skip = true
				}
			}
			if skip {
				continue
			}
			ct := E.S.Contracts[n]
			if ct != nil && (ct.Trusted || ct.NoVerify) {
				continue
			}
			have := map[int]bool{}
			for _, l := range E.LevelsOf(n) {
				have[l] = true
			}
			for _, lc := range s.Levels {
				l := facetLevel[string(lc)]
				if !have[l] {
					continue
				}
				key := n + "@" + string(lc)
				if seen[key] {
					continue
				}
				seen[key] = true
				out = append(out, FuncLevel{Func: n, Level: l, Sel: s})
			}
		}
	}
	sort.SliceStable(out, func(i, j int) bool {
		if out[i].Func != out[j].Func {
			return out[i].Func < out[j].Func
		}
		return out[i].Level < out[j].Level
	})
	return out
}

type FuncLevel struct {
	Func  string
	Level int
	Sel   Sel
}

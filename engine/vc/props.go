package vc

import (
	"path"
	"sort"
	"strings"
)

// PropSpec says which functions and facet levels carry a property's obligations.
type PropSpec struct {
	ID     string
	Title  string
	// Sel: function-name patterns (path.Match on canonical names) with the facet levels to run.
	Sel []Sel
	// NotDecided: clauses of the property statement that no obligation covers (reported in evidence).
	NotDecided []string
	// Extra analyses (non-SMT obligations) by name: "frame", "depth", "walk".
	Analyses []string
	DepthScope string // name prefix of the functions whose recursion cycles the "depth" analysis reports
	Technique string
	LevelText string
	LevelNote string
}

type Sel struct {
	Pattern string
	Levels  string // subset of "STF"
	// OnlyTags: if non-empty, at levels other than the implicit S obligations keep only clauses with one of these tags
	OnlyTags []string
	// Kinds: if non-empty restrict to these obligation kinds
	Kinds []string
	// Exclude patterns
	Except []string
}

// Props is the table of claimed properties. Properties absent here are not_applicable.
var Props = map[string]*PropSpec{}

func registerProp(p *PropSpec) { Props[p.ID] = p }

func init() {
	registerProp(&PropSpec{
		ID: "C12", Title: "Input and buffer.Lexer implement the documented cursor",
		Sel: []Sel{
			{Pattern: "parse.Input.*", Levels: "SF"},
			{Pattern: "parse.NewInput*", Levels: "SF"},
			{Pattern: "buffer.Lexer.*", Levels: "SF"},
			{Pattern: "buffer.NewLexer*", Levels: "SF"},
			{Pattern: "buffer.Reader.*", Levels: "SF"},
			{Pattern: "buffer.NewReader", Levels: "SF"},
			{Pattern: "buffer.Writer.*", Levels: "SF"},
			{Pattern: "buffer.NewWriter", Levels: "SF"},
		},
		Technique: "deductive verification: function contracts on parse.Input / buffer.Lexer, VCs from go/ssa discharged by z3/cvc5",
	})
	lexers := []Sel{
		{Pattern: "parse.Input.*", Levels: "S"},
		{Pattern: "css.Lexer.*", Levels: "S"}, {Pattern: "css.NewLexer", Levels: "S"},
		{Pattern: "html.Lexer.*", Levels: "S"}, {Pattern: "html.NewLexer", Levels: "S"}, {Pattern: "html.NewTemplateLexer", Levels: "S"},
		{Pattern: "xml.Lexer.*", Levels: "S"}, {Pattern: "xml.NewLexer", Levels: "S"},
		{Pattern: "json.Parser.*", Levels: "S"}, {Pattern: "json.NewParser", Levels: "S"},
		{Pattern: "js.Lexer.*", Levels: "S"}, {Pattern: "js.NewLexer", Levels: "S"},
		{Pattern: "css.Parser.*", Levels: "S"}, {Pattern: "css.NewParser", Levels: "S"},
	}
	registerProp(&PropSpec{
		ID: "C01", Title: "No input crashes, hangs or over-reads any lexer, parser or AST method",
		Sel: append(append([]Sel{}, lexers...), Sel{Pattern: "js.Parser.*", Levels: "F", OnlyTags: []string{"depth"}},
			Sel{Pattern: "css.Parser.*", Levels: "T", OnlyTags: []string{"C01"}},
			// nil-dereference obligations of the JSON conversion of object properties and array elements (their "is this JSON at
			// all" guards are what keeps a method definition or an elision from being dereferenced)
			Sel{Pattern: "js.Property.JSON", Levels: "S", Kinds: []string{"nil", "pre", "cover", "commaok"}}, Sel{Pattern: "js.ArrayExpr.JSON", Levels: "S", Kinds: []string{"nil", "pre", "cover", "commaok"}},
			// zero-annotation sweep over every function of the repository: a pointer obtained from a comma-ok type assertion is
			// dereferenced only where ok holds
			Sel{Pattern: "*", Levels: "S", Kinds: []string{"commaok"}, Except: []string{"*.init"}}),
		Analyses: []string{"depth"},
		NotDecided: []string{
			"memory safety (nil, bounds) and termination of the js.Parser functions and of the AST printing methods (JS/String/JSON): decided for all of them is only the annotation-free obligation that the result of a comma-ok type assertion is not dereferenced where ok is false; for the JS parser additionally the recursion-depth argument (every call-graph cycle passes through a depth guard; guards recurse only under their increment and limit; no parser function lowers a nesting counter)",
			"stack depth of the tree-recursive AST methods (Walk, JS, String, JSON, exprToBinding): declared structural recursion over a tree whose depth the parser limits bound (listed as assumptions)",
		},
		Technique: "deductive verification: safety contracts (cursor invariant, peek-before-move precondition, progress measure, sticky end) on every lexer/parser function; progress measure of the CSS grammar stream (2*unread bytes + open blocks + 2*pending close) strictly decreasing on every non-error css.Parser.Next; recursion-depth argument for js.Parse (call-graph cycle check modulo declared depth guards + at-call and counter-monotonicity VCs); VCs from go/ssa discharged by z3/cvc5",
	})
	registerProp(&PropSpec{
		ID: "C02", Title: "Tokens are faithful, ordered, non-empty slices of the input",
		Sel: []Sel{
			{Pattern: "css.Lexer.Next", Levels: "T"}, {Pattern: "js.Lexer.Next", Levels: "T"},
			{Pattern: "html.Lexer.*", Levels: "T"}, {Pattern: "xml.Lexer.*", Levels: "T"},
			{Pattern: "parse.Input.Shift", Levels: "S"}, {Pattern: "parse.Input.Lexeme", Levels: "S"}, {Pattern: "parse.Input.Bytes", Levels: "S"},
			{Pattern: "parse.ToLower", Levels: "S"}, {Pattern: "parse.Copy", Levels: "SF"},
		},
		NotDecided: []string{"lexing a token's text on its own yields the same token (two-run relational clause with look-ahead)"},
		Technique: "deductive verification: token-conservation contracts (returned slice = bytes moved over, cap==len, buffer frame) on the lexers' Next and shift functions; VCs discharged by z3/cvc5",
	})
	registerProp(&PropSpec{
		ID: "C16", Title: "Number/Dimension/URL/data-URI/media-type helpers match their definitions",
		Sel: []Sel{
			{Pattern: "parse.Number", Levels: "SF"}, {Pattern: "parse.Dimension", Levels: "SF"},
			{Pattern: "parse.Mediatype", Levels: "SF"}, {Pattern: "parse.DataURI", Levels: "SF"}, {Pattern: "parse.QuoteEntity", Levels: "S"},
			{Pattern: "parse.EncodeURL", Levels: "SF"}, {Pattern: "parse.DecodeURL", Levels: "SF"}, {Pattern: "parse.decodeURL", Levels: "SF"}, {Pattern: "parse.AppendEscape", Levels: "S"},
			{Pattern: "parse.EqualFold", Levels: "SF"}, {Pattern: "parse.ToLower", Levels: "SF"}, {Pattern: "parse.Copy", Levels: "SF"},
			{Pattern: "parse.TrimWhitespace", Levels: "SF"}, {Pattern: "parse.IsAllWhitespace", Levels: "SF"},
			{Pattern: "parse.IsWhitespace", Levels: "SF"}, {Pattern: "parse.IsNewline", Levels: "SF"},
			{Pattern: "css.ToHash", Levels: "SF"}, {Pattern: "html.ToHash", Levels: "SF"},
			{Pattern: "css.Hash.*", Levels: "S"}, {Pattern: "html.Hash.*", Levels: "S"},
		},
		NotDecided: []string{
			"EncodeURL/DecodeURL byte-for-byte functional behaviour and agreement with net/url (proved: both only write their own argument; an argument without percent escapes is decoded to itself with every '+' turned into a space, and by the data-URI decoder to itself unchanged, '+' included; the tables escape every byte the matching decoder gives a meaning to: '%' and '+' for URLs, '%' for data URIs)",
			"DataURI payload equality with encoding/base64 and Mediatype agreement with mime.ParseMediaType (external oracles); proved besides memory safety: a data URI reports a media type that does not start with ';' (text/plain when it has none), and Mediatype stops scanning only at the end of the input or at a byte that is neither padding nor a parameter separator (no parameter after spaces is left unread)",
			"completeness of the ToHash tables (every listed name hashes to its constant: the FNV arithmetic over XOR is outside the integer encoding); proved are soundness (a non-zero result names exactly the argument) and the consistency of the generated data: every table entry is a declared constant, every constant occurs in the table, and each constant's offset and length select its own name in the text",
		},
		Technique: "deductive verification: Number(b) == closed-form longest-prefix spec over axiomatised digit-run ends; reference-definition postconditions for EqualFold/ToLower/TrimWhitespace/IsAllWhitespace and the whitespace tables; hash soundness; zero-annotation bounds obligations for the remaining helpers; VCs discharged by z3/cvc5",
	})
	registerProp(&PropSpec{
		ID: "C17", Title: "Whitespace, entity and attribute normalisation preserves meaning",
		Sel: []Sel{
			{Pattern: "parse.ReplaceMultipleWhitespace", Levels: "SF"}, {Pattern: "parse.ReplaceMultipleWhitespaceAndEntities", Levels: "SF"}, {Pattern: "parse.replaceEntities", Levels: "SF"}, {Pattern: "parse.ReplaceEntities", Levels: "S"},
			{Pattern: "html.EscapeAttrVal", Levels: "SF"}, {Pattern: "xml.EscapeAttrVal", Levels: "SF"}, {Pattern: "xml.EscapeCDATAVal", Levels: "SF"},
		},
		NotDecided: []string{
			"decoded-text preservation and idempotence of ReplaceEntities (HTML's entity table is an external oracle); proved is the local guard they rest on: a reference is never decoded to a bare '&' directly in front of a letter, digit or '#'",
			"ReplaceMultipleWhitespace / ReplaceMultipleWhitespaceAndEntities: proved are memory safety, never-longer, that the newline flag is exactly 'the run scanned so far contains \\n or \\r', and the run rule at its source: after the iteration that meets a white-space byte, that position holds ' ' or (if the byte was a line break) a newline, whatever the run's length, and neither compaction nor entity rewriting writes in front of it; not decided: that the compaction drops exactly the rest of each run and nothing else (the end-to-end 'equals the regular-expression replacement' statement), and equality of the combined function with the two applied in sequence",
			"round trip of the escaped value through the html/xml lexers (proved instead are the sufficient local conditions: no raw quote inside a quoted value; an html value is left unquoted only if it contains no ASCII whitespace, quote, backtick, '=', '<' or '>')",
		},
		Technique: "deductive verification: in-place compaction index invariants, never-longer postcondition of replaceEntities under the stated map assumption, exact buffer sizing of the Escape* functions by a counting invariant (cnt spec function, lemmas proved by induction), no-raw-quote postcondition; VCs discharged by z3/cvc5",
	})
	registerProp(&PropSpec{
		ID: "C14", Title: "strconv parses and formats numbers consistently with the standard library",
		Sel: []Sel{
			{Pattern: "strconv.ParseInt", Levels: "SF"}, {Pattern: "strconv.ParseUint", Levels: "SF"},
			{Pattern: "strconv.LenInt", Levels: "SF"}, {Pattern: "strconv.LenUint", Levels: "SF"}, {Pattern: "strconv.AppendInt", Levels: "SF"},
			{Pattern: "strconv.ParseFloat", Levels: "SF"},
			{Pattern: "strconv.AppendNumber", Levels: "SF"}, {Pattern: "strconv.ParseNumber", Levels: "SF"},
			{Pattern: "strconv.AppendDecimal", Levels: "SF"},
		},
		NotDecided: []string{
			"ParseFloat/ParseDecimal/AppendFloat values and accuracy (floating point is outside the technique; for ParseFloat the number of bytes consumed is decided: sign, digits with at most one dot, optional exponent)",
			"AppendDecimal: the float scaling and rounding are abstracted (num := int64(f) is an arbitrary integer within the range the guard added by fix fef7a12 establishes; that range is the one assumption of the proof, float comparisons not being modelled); decided for every such integer: exact buffer sizing, all writes in bounds, destination prefix preserved, sign byte present for negative numbers and never overwritten, every appended byte a digit, the dot or the leading minus. Numbers of 9e18 and above go to AppendFloat, whose frame is assumed",
			"AppendNumber: decided for group sizes up to 6 (the property's own domain; the group arithmetic divides by the group size) and any separator width: exact buffer sizing (length formula), all writes in bounds, utf8.EncodeRune never called with too short a slice, destination prefix preserved, sign byte. Not decided: the digit values and the ParseNumber round trip (ParseNumber: index safety and termination only)",
		},
		Technique: "deductive verification: ParseInt/ParseUint == decimal value of the longest digit prefix with exact overflow behaviour (recursive spec digitsVal, lemmas by induction), LenInt/LenUint == mathematical digit count, AppendInt == prefix-preserving decimal expansion (quantified digit postcondition), AppendNumber/AppendDecimal exact sizing by counting invariants over an opaque digit-count function with lemmas proved from its definition; VCs discharged by z3/cvc5",
	})
	registerProp(&PropSpec{
		ID: "C19", Title: "BinaryReader/Writer round-trip and honour io contracts on every backend",
		Sel: []Sel{
			{Pattern: "parse.binaryReaderBytes.*", Levels: "SF"}, {Pattern: "parse.binaryReaderMmap.Bytes", Levels: "SF"}, {Pattern: "parse.binaryReaderMmap.Len", Levels: "SF"},
			{Pattern: "parse.binaryReaderReader.*", Levels: "SF"}, {Pattern: "parse.binaryReaderSeeker.*", Levels: "SF"}, {Pattern: "parse.binaryReaderReaderAt.*", Levels: "SF"},
			{Pattern: "parse.BinaryReader.*", Levels: "SF", Except: []string{"parse.BinaryReader.Clone", "parse.BinaryReader.Close", "parse.BinaryReader.InPageCache", "parse.BinaryReader.IBinaryReader"}},
			{Pattern: "parse.BinaryWriter.*", Levels: "SF"}, {Pattern: "parse.BitmapReader.*", Levels: "SF"}, {Pattern: "parse.BitmapWriter.*", Levels: "SF"},
			{Pattern: "parse.newBinaryReaderMmap", Levels: "SF"}, {Pattern: "parse.newBinaryReaderBytes", Levels: "S"}, {Pattern: "parse.NewBinaryReaderBytes", Levels: "S"}, {Pattern: "parse.NewBinaryReader", Levels: "S"},
			{Pattern: "parse.NewBinaryWriter", Levels: "S"}, {Pattern: "parse.NewBitmapReader", Levels: "S"}, {Pattern: "parse.NewBitmapWriter", Levels: "S"},
		},
		NotDecided: []string{
			"for the io.Reader / io.ReadSeeker / io.ReaderAt back ends the behavioural contract of IBinaryReader.Bytes is proved relative to ghost models of the documented io contracts (what Read/ReadAt/Seek deliver) and to the assumption that the length the client stated at construction is the length of the data (the view predicates rrView/rsView/raView, preserved by Bytes but established by no verified constructor)",
			"Read/ReadAt against io.Reader/io.ReaderAt: proved are that a nil error means a full read, that the bytes delivered are the content at the position, and that the error latched by the typed readers is neither consulted nor changed; not decided: when exactly the back end reports io.EOF (for stream back ends that is the underlying reader's choice)",
			"WriteUint16/32/64 and WriteInt16/32/64 byte layout (delegated to encoding/binary's AppendByteOrder, an external interface); the 8- and 24-bit writers (signed and unsigned) and all readers, including two's-complement sign extension of ReadInt8/16/24/32/64, are proved",
			"the operating system (os.File; syscall.Mmap is assumed to map the length it is asked for) and the file constructors; for the mmap constructor the size half of its view is proved: the mapped slice is exactly as long as the size Len() reports, so reads are clamped at the end of the file",
		},
		Technique: "deductive verification: behavioural interface contract for IBinaryReader.Bytes over a ghost content view (proved for the memory and mmap back ends, and for the three stream back ends relative to ghost models of io.Reader/io.ReadSeeker/io.ReaderAt), io.Seeker semantics of Seek, position bookkeeping and sticky first error, fixed-width decoding == sum of content bytes, bit-exact BitmapReader/BitmapWriter contracts; VCs discharged by z3/cvc5",
	})
	registerProp(&PropSpec{
		ID: "C20", Title: "Distinct parser instances are independent and safe to use concurrently",
		Analyses: []string{"frame"},
		NotDecided: []string{"interleavings are not explored: the frame argument (no write ever reaches shared memory) replaces a thread model, which the technique does not have"},
		Technique: "frame (modifies) obligations on every function: interprocedural provenance fix-point over go/ssa classifying every written location as argument-, receiver-, fresh- or package-level-rooted; the property holds iff no function outside initialisers writes package-level-rooted memory",
		LevelText: "A frame obligation per function of the eight packages (write set contains no package-level-rooted memory), an obligation per store of a pointer into package-level memory into a heap object (allowed only for memory declared sharedconst with a reason, listed as assumptions: otherwise memory loaded from an argument could be shared), one obligation that no package-level variable is written outside initialisers, and one that the library starts no goroutines and uses no unsafe. Decided by an interprocedural provenance analysis (a sound over-approximation of the write set), not by exploring schedules.",
	})
	registerProp(&PropSpec{
		ID: "C18", Title: "Walk visits every node of the tree once with balanced Enter/Exit",
		Analyses: []string{"walk"},
		NotDecided: []string{"that js.Parse only builds trees whose tagged unions (ClassElement) have exactly one alternative set: stated as the union directive in js/contracts_verif.go"},
		Technique: "deductive verification of js.Walk against a type-derived child relation: per switch arm a set-algebra obligation over uninterpreted subtree sets ({n} ∪ visited == {n} ∪ children(T)) discharged by z3, plus order obligations on the Enter/defer-Exit prologue",
		LevelText: "For every node type T of package js (every struct type implementing INode), children(T) is derived from go/types alone; the arm of Walk's type switch for *T must hand exactly those children to recursive Walk calls (obligation per arm discharged by the SMT solver: a missing or extra child yields a counter-model), every type with children must have an arm, the prologue must call Enter once before any child, defer Exit once on the returned visitor and skip the subtree on a nil visitor.",
	})
	registerProp(&PropSpec{
		ID: "C08", Title: "CSS parser emits a well-nested, token-conserving grammar stream",
		Sel: []Sel{{Pattern: "css.Parser.*", Levels: "SF"}, {Pattern: "css.NewParser", Levels: "S"}},
		NotDecided: []string{
			"Values() equals the source's component tokens with the stated whitespace rule for well-formed stylesheets (needs the CSS grammar as specification); proved are the rules it is built from, each where it is implemented: skipped white space and comments are recorded and stay recorded until the token is returned, white space after a combinator token (exactly one of , > + ~) is dropped and kept after anything else, the attribute-selector flag is set by '[' and cleared by the next ']', every bracket token changes the nesting level by exactly one, the kind of block an at-rule opens follows from its (lower-cased) name, a '}' ending a custom property is remembered as the end of the block",
			"provenance of every Token.Data (input slice in source order, constant, lower-cased copy, concatenation)",
			"nesting depth (level) never negative while no parse error was reported",
		},
		Technique: "deductive verification: typed state-stack invariant (bottom is a root state, others block states) with function-value identities, shared behavioural contract of the seven state functions applied at the dynamic dispatch in Next, push/pop postconditions per grammar unit, end-of-input report only with an empty block stack; VCs discharged by z3/cvc5",
	})
	registerProp(&PropSpec{
		ID: "C09", Title: "HTML lexer recognises tags, attributes, raw text and foreign content",
		Sel: []Sel{{Pattern: "html.Lexer.*", Levels: "SF"}, {Pattern: "html.NewLexer", Levels: "S"}, {Pattern: "html.NewTemplateLexer", Levels: "S"}, {Pattern: "html.ToHash", Levels: "SF"}, {Pattern: "html.Hash.*", Levels: "S"}},
		NotDecided: []string{
			"conformance of the token stream to the HTML construct grammar (one token per construct with the right type); proved are the extents it rests on: a comment ends at the first '-->' or '--!>', a CDATA section at the first ']]>', a doctype at the first '>', a quoted attribute value at its own closing quote whatever template regions follow it inside the token, and inside a template region a quoted string ends at the first quote after an even run of backslashes",
			"raw-text termination at the matching end tag and the script double-escape rules (proved: memory safety, the unchanged-input frame and token conservation of shiftRawText, candidate end-tag names are compared in lower case, the lexer is armed with exactly the tag whose name hashed to a raw-text element, and an empty raw text disarms it)",
			"svg/math subtrees returned as one token (proved: the quote flag of the subtree scanner is exactly the parity of the double quotes scanned); 'a delimited region is never split across tokens' (proved: in content the template token wins whenever the opening delimiter stands at the token's first byte); HasTemplate exactly when a delimiter was crossed (only: HasTemplate implies delimiters are configured)",
			"with template delimiters configured an attribute key is proved lower-cased unless a byte of the name equals the first byte of the opening delimiter (a necessary condition for a template region inside the name); that such a region really was entered is not decided",
			"completeness of the ToHash table on its ten names (soundness is proved)",
		},
		Technique: "deductive verification: inTag/rawTag state-machine postconditions of Next, lower-cased tag and attribute names, Text/AttrVal sub-slice and buffer-frame clauses (from C02), perfect-hash soundness, for arbitrary NUL-free template delimiters; VCs discharged by z3/cvc5",
	})
	registerProp(&PropSpec{
		ID: "C06", Title: "JS tokens follow the ECMAScript lexical grammar",
		Sel: []Sel{{Pattern: "js.Lexer.*", Levels: "SF"}, {Pattern: "js.NewLexer", Levels: "S"}},
		NotDecided: []string{
			"identifier tokens: Unicode ID_Start/ID_Continue classes and \\u escapes (for consumeIdentifierToken only memory safety, progress and the number of Unicode classes consulted are proved; relative to its verdict, taken as a ghost function of the position, Next is proved to return a PrivateIdentifierToken for '#' exactly when the scanner accepts what follows)",
			"numeric literals: proved are the extents of hexadecimal, binary, octal and decimal literals including numeric separators (a '_' only between digits of the radix), the BigInt suffix and the exponent; not decided: the legacy-octal and 'identifier directly after a number' error paths, and the extent of IntegerToken literals that start with 0 beyond longest match (proved: an integer literal without BigInt suffix never stops in front of '.', 'e' or 'E')",
			"template nesting via level/templateLevels (which '}' resumes a template); for string and template tokens the extent is proved (first unescaped delimiter / '${' / raw line break, with line continuations) but not the validity of the escape sequences inside",
			"RegExp(): proved is that the literal ends at the first '/' that is neither escaped nor inside a character class and that RegExp() rewinds over exactly '/' or '/='; the flags and the well-formedness of the pattern are not decided",
			"the converse direction for keywords (an identifier whose text is a keyword spelling never gets IdentifierToken) follows from the exact Keywords table used in the encoding but is not stated as a clause",
			"completeness: that every token sequence of the grammar is returned as exactly those tokens (an induction over token sequences); proved instead are the per-token clauses: canonical spelling of every operator, punctuator, reserved word and contextual keyword token, longest-match before '=', the '?.' digit look-ahead rule, CommentLineTerminatorToken iff the comment contains a line terminator",
		},
		Technique: "deductive verification: postconditions of js.Lexer.Next and its consume* helpers against the operatorBytes/reservedWordBytes/identifierBytes/op*Tokens/Keywords tables read from the source literals; VCs from go/ssa discharged by z3/cvc5",
	})
	registerProp(&PropSpec{
		ID: "C13", Title: "StreamLexer: chunking-independent, unfreed tokens intact, bounded memory",
		Sel: []Sel{{Pattern: "buffer.StreamLexer.*", Levels: "SF"}, {Pattern: "buffer.bufferPool.*", Levels: "SF"}, {Pattern: "buffer.NewStreamLexer*", Levels: "S"}},
		NotDecided: []string{
			"unfreed tokens stay intact: proved is that bufferPool.swap hands out only new memory, the buffer of an inactive block, or the current buffer when tail == 0 and the free credit covers it, and that swap/free write no byte memory; the pool invariant linking 'inactive' to 'every byte shifted from that block has been freed' (a linked-list accounting invariant over the whole call history) is not stated, so the end-to-end clause is not decided",
			"bounded memory when every token is freed (a resource bound over the whole stream); proved is the local accounting fact it rests on: a refill that changes buffers retires exactly the shifted bytes buf[:start] as the new head block and carries the unfinished token over",
			"termination of the refill loop (a reader may return (0, nil) forever) and of bufferPool.free (acyclicity of the block list)",
			"agreement of PeekRune with unicode/utf8 on invalid input (proved: length by the lead byte and the decoded value as payload bits of the bytes at the cursor's absolute offsets, across any refills the look-ahead needs; error is sticky, a refill after it changes nothing)",
			"the lexer built from a reader with a Bytes() method (z.r == nil): only memory safety",
		},
		Technique: "deductive verification with ghost state: a prophecy of the byte stream an io.Reader delivers (stream(r,i), delivered(r)); representation invariant 'the buffer holds the last len(buf) delivered bytes' kept by read() for every chunking of the reader; absolute-offset postconditions for Peek/Shift/ShiftLen; VCs from go/ssa discharged by z3/cvc5",
	})
	registerProp(&PropSpec{
		ID: "C15", Title: "Reported line, column and context locate the offending byte",
		Sel: []Sel{
			{Pattern: "parse.Position", Levels: "SF"}, {Pattern: "parse.positionContext", Levels: "SF"}, {Pattern: "parse.NewError", Levels: "SF"}, {Pattern: "parse.NewErrorLexer", Levels: "F"},
			{Pattern: "parse.Error.*", Levels: "S"}, {Pattern: "parse.Input.PeekRune", Levels: "SF"}, {Pattern: "parse.Input.Offset", Levels: "S"},
			{Pattern: "css.Parser.Err", Levels: "SF"}, {Pattern: "css.Parser.parseDeclaration", Levels: "F", OnlyTags: []string{"C15"}}, {Pattern: "buffer.NewReader", Levels: "SF"},
			{Pattern: "json.Parser.Next", Levels: "F", OnlyTags: []string{"C15"}},
			{Pattern: "js.Parse", Levels: "F", Kinds: []string{"callsite", "cover"}}, {Pattern: "js.Lexer.Next", Levels: "F", OnlyTags: []string{"C15"}}, {Pattern: "js.Lexer.consume*", Levels: "F", OnlyTags: []string{"C15"}},
			{Pattern: "xml.Lexer.Next", Levels: "F", OnlyTags: []string{"C15"}}, {Pattern: "html.Lexer.shiftRawText", Levels: "F", OnlyTags: []string{"C15"}},
		},
		NotDecided: []string{
			"the column (code points since the line start: the []rune conversion is modelled only by its length bounds) and the rendered context/caret string (fmt.Sprintf, strings.Repeat)",
			"that the scan stops exactly at the offset or inside the character containing it (exit condition of the loop; proved are the invariants: cursor <= offset, cursor at a character boundary, line == 1 + breaks ending before the cursor)",
			"js.Parse's offset 'cursor minus length of the current token' (the JS parser is outside the verified subset)",
			"NewErrorLexer is trusted for its frame (pure); its body is verified at facet F only (offset inside the input, error carries Position's line)",
			"css.Parser.Err is proved to be an observer (it writes no parser state, so nothing is cached between errors) and to build its error from the current err/errPos",
		},
		Technique: "deductive verification: user-defined recursive spec function lbEnds (line breaks ending before a position) with engine-asserted unfoldings, well-formed-UTF-8 hypothesis as a ghost attribute of the reader, loop invariants of parse.Position; ghost errOff links every error created by NewErrorLexer to the cursor, clauses on json.Parser.Next / js.Lexer.Next / css.Parser.Err bound it to the scanned span; VCs from go/ssa discharged by z3/cvc5",
	})
	registerProp(&PropSpec{
		ID: "C07", Title: "CSS tokens follow the CSS Syntax Level 3 token grammar",
		Sel: []Sel{{Pattern: "css.Lexer.*", Levels: "F"}, {Pattern: "css.IsIdent", Levels: "SF"}, {Pattern: "css.IsURLUnquoted", Levels: "SF"}},
		NotDecided: []string{
			"completeness over token sequences (every sequence written from the railroad diagrams is returned as exactly those tokens): proved instead are per-token extents and spellings",
			"full agreement of IsIdent / IsURLUnquoted with the lexer (an iff over the whole argument); proved on the real functions, through the contracts of NewInputBytes and of the lexer's own scanners, are necessary conditions on how an accepted argument begins: IsIdent rejects what starts like a number, a dimension or a lone '-', IsURLUnquoted rejects a first byte that cannot stand unescaped in an unquoted url",
			"the case-insensitive, escape-stripped recognition of 'url(' (bytes.Replace + EqualFold) and how consumeIdentlike combines the url( scanners; proved per scanner: the unquoted body stops at ')', the end of input or the first character that may not appear unescaped, a URL/BadURL token ends at ')' or the end of input, the BadURL remnant scan stops at the first ')' outside an escape",
			"function token extents (identifier followed by '('); comment, at-keyword and custom-property extents are proved",
		},
		Technique: "deductive verification: closed forms over digit/hex run ends for numbers, escapes and unicode ranges; user-defined orbit functions (first stopping position along variable-length scanning units) for identifiers, strings and BadURL remnants, with engine-asserted unfoldings; fixed spellings of delimiter tokens; VCs from go/ssa discharged by z3/cvc5",
	})
	registerProp(&PropSpec{
		ID: "C10", Title: "JSON parser accepts every valid document and reproduces it",
		Sel: []Sel{{Pattern: "json.Parser.*", Levels: "STF"}, {Pattern: "json.NewParser", Levels: "S"}},
		NotDecided: []string{"every document accepted by encoding/json is accepted (needs induction over the JSON grammar against the iterative state machine)"},
		Technique: "deductive verification: state-stack typing invariant, per-unit push/pop postconditions, skipped-bytes conservation clauses on json.Parser.Next; closed forms of the RFC 8259 number, literal and string tokens (digit-run ends, backslash-parity fold) for the three scanners; VCs discharged by z3/cvc5",
	})
	registerProp(&PropSpec{
		ID: "C11", Title: "XML lexer tokenises well-formed XML like a conforming XML reader",
		Sel: []Sel{{Pattern: "xml.Lexer.*", Levels: "STF"}, {Pattern: "xml.NewLexer", Levels: "S"}},
		NotDecided: []string{"agreement with encoding/xml on well-formed documents (external oracle); proved are the extents it rests on: tag and attribute names end at XML white space, '=' or the tag's closing delimiter and contain none of them, a quoted value runs to the first occurrence of its own quote, an unquoted one to white space or the tag's end, all four kinds of white space may surround '=', an end tag's Text() carries no trailing white space", "DOCTYPE quote/bracket tracking beyond termination at '>' or NUL"},
		Technique: "deductive verification: inTag state-machine postconditions, NUL-is-error clause, first-terminator clauses for CDATA/comment on the real lexer; VCs discharged by z3/cvc5",
	})
}

// Select returns the functions (with levels) a property covers, in stable order.
func (E *Engine) Select(p *PropSpec) []FuncLevel {
	var out []FuncLevel
	seen := map[string]bool{}
	names := E.P.SortedFuncNames()
	for _, s := range p.Sel {
		for _, n := range names {
			if ok, _ := path.Match(s.Pattern, n); !ok {
				continue
			}
			if strings.Contains(n, "$") && !strings.Contains(s.Pattern, "$") {
				continue // closures only when asked for
			}
			skip := false
			for _, ex := range s.Except {
				if ok, _ := path.Match(ex, n); ok {
					skip = true
				}
			}
			if skip {
				continue
			}
			ct := E.S.Contracts[n]
			if ct != nil && (ct.Trusted && ct.VerifyBody == "" || ct.NoVerify) {
				continue
			}
			have := map[int]bool{}
			for _, l := range E.LevelsOf(n) {
				have[l] = true
			}
			for _, lc := range s.Levels {
				l := facetLevel[string(lc)]
				if !have[l] {
					continue
				}
				if ct != nil && ct.Trusted && !strings.Contains(ct.VerifyBody, string(lc)) {
					continue
				}
				if ct != nil && strings.Contains(ct.AssumeFacets, string(lc)) {
					continue
				}
				key := n + "@" + string(lc)
				if seen[key] {
					continue
				}
				seen[key] = true
				out = append(out, FuncLevel{Func: n, Level: l, Sel: s})
			}
		}
	}
	sort.SliceStable(out, func(i, j int) bool {
		if out[i].Func != out[j].Func {
			return out[i].Func < out[j].Func
		}
		return out[i].Level < out[j].Level
	})
	return out
}

type FuncLevel struct {
	Func  string
	Level int
	Sel   Sel
}

func sortedPropIDs() []string {
	var ids []string
	for id := range Props {
		ids = append(ids, id)
	}
	sort.Strings(ids)
	return ids
}

package vc

import (
	"fmt"
	"os"
	"go/token"
	"go/types"
	"sort"
	"strings"

	"golang.org/x/tools/go/ssa"
)

// FuncResult is the outcome of encoding one function at one facet level.
type FuncResult struct {
	Func        string
	Level       string
	Obls        []*Obligation
	Unsupported string
	Notes       []string
	Enc         *Enc
	candFail    map[CandKey]bool
}

var levelNames = []string{"S", "T", "F"}

// Encode generates the obligations of one function at one facet level. Candidate invariants are first
// filtered to the inductive ones (Houdini): all are assumed, the ones not re-established are dropped, to a fix-point.
func (E *Engine) Encode(name string, level int) *FuncResult {
	ct := E.effectiveContract(name)
	fn := E.P.Funcs[name]
	if ct == nil || len(ct.LoopCand) == 0 || fn == nil {
		return E.encodeOnce(name, level, nil)
	}
	key := fmt.Sprintf("%s@%d", name, level)
	if E.candCache == nil {
		E.candCache = map[string]map[CandKey]bool{}
	}
	active, ok := E.candCache[key]
	if !ok {
		active = map[CandKey]bool{}
		// candidates of lower facets: exactly the ones that survived at the lower level (their obligations are
		// generated and checked there; assuming a dropped one here would be unsound)
		if level > 0 {
			E.Encode(name, level-1)
			for k := range E.candCache[fmt.Sprintf("%s@%d", name, level-1)] {
				active[k] = true
			}
		}
		li := E.loops(fn)
		for _, l := range li.loops {
			for _, cd := range ct.LoopCand {
				if (cd.Loop == 0 || cd.Loop == l.ord) && facetLevel[cd.Facet] == level {
					active[CandKey{cd, l.ord}] = true
				}
			}
		}
		for round := 0; round < 20 && len(active) > 0; round++ {
			r := E.encodeOnce(name, level, active)
			if r.Unsupported != "" {
				break
			}
			var obls []*Obligation
			for _, o := range r.Enc.Obls {
				if o.Cand != nil {
					obls = append(obls, o)
				}
			}
			drop := map[CandKey]bool{}
			for k := range r.candFail {
				drop[k] = true
			}
			saved := Solvers
			Solvers = Solvers[:1]
			rs := DischargeAll(obls, houdiniTimeout, 16, false)
			Solvers = saved
			for _, x := range rs {
				if x.Status != "discharged" {
					drop[*x.O.Cand] = true
					if os.Getenv("VCGO_DEBUG") != "" {
						fmt.Printf("houdini drop round %d: %s (%s %s) loop%d: %s\n", round, x.O.Name, x.Status, x.Answer, x.O.Cand.Loop, x.O.Cand.C.Src)
						DumpQuery(x.O, "/verif/work/houdini")
					}
				}
			}
			if len(drop) == 0 {
				break
			}
			for k := range drop {
				delete(active, k)
			}
		}
		E.candCache[key] = active
		if os.Getenv("VCGO_DEBUG") != "" {
			var ks []string
			for k := range active {
				ks = append(ks, fmt.Sprintf("loop%d: %s", k.Loop, k.C.Src))
			}
			sort.Strings(ks)
			fmt.Printf("houdini %s: kept %d candidates\n   %s\n", key, len(ks), strings.Join(ks, "\n   "))
		}
	}
	return E.encodeOnce(name, level, active)
}

// effectiveContract merges the contracts of the repository interfaces a method implements into its own contract:
// an implementation is verified against the behavioural contract callers rely on at interface call sites.
func (E *Engine) effectiveContract(name string) *Contract {
	if E.effCache == nil {
		E.effCache = map[string]*Contract{}
	}
	if c, ok := E.effCache[name]; ok {
		return c
	}
	own := E.S.Contracts[name]
	fn := E.P.Funcs[name]
	res := own
	if fn != nil && fn.Signature.Recv() != nil {
		recvT := fn.Signature.Recv().Type()
		var ikeys []string
		for key := range E.S.Contracts {
			ikeys = append(ikeys, key)
		}
		sort.Strings(ikeys)
		for _, key := range ikeys {
			ict := E.S.Contracts[key]
			parts := strings.Split(key, ".")
			if len(parts) != 3 || parts[2] != fn.Name() || ict.Extern {
				continue
			}
			// is parts[0].parts[1] an interface type that recvT implements?
			for _, sp := range E.P.SSA.AllPackages() {
				if sp == nil || sp.Pkg == nil || shortPkg(sp.Pkg.Path()) != parts[0] {
					continue
				}
				obj := sp.Pkg.Scope().Lookup(parts[1])
				tn, ok := obj.(*types.TypeName)
				if !ok {
					continue
				}
				iface, ok := under(tn.Type()).(*types.Interface)
				if !ok || !types.Implements(recvT, iface) {
					continue
				}
				merged := &Contract{Func: name}
				if res != nil {
					cp := *res
					merged = &cp
				}
				// clauses tagged "ghost" define ghost state in terms of the method's observable behaviour (true of every
				// implementation by definition of the ghost); they are assumed at call sites and not imposed on implementers
				merged.Requires = append(append([]*Clause{}, merged.Requires...), ict.Requires...)
				merged.Ensures = append(append([]*Clause{}, merged.Ensures...), nonGhost(ict.Ensures)...)
				merged.Preserves = append(append([]*Clause{}, merged.Preserves...), nonGhost(ict.Preserves)...)
				// renumber for stable obligation names
				for i, c := range merged.Ensures {
					cc := *c
					cc.Ord = i + 1
					merged.Ensures[i] = &cc
				}
				res = merged
			}
		}
	}
	E.effCache[name] = res
	return res
}

func (E *Engine) encodeOnce(name string, level int, cands map[CandKey]bool) (res *FuncResult) {
	res = &FuncResult{Func: name, Level: levelNames[level]}
	fn := E.P.Funcs[name]
	if fn == nil {
		res.Unsupported = "no such function"
		return
	}
	enc := NewEnc()
	res.Enc = enc
	fx := &fx{E: E, enc: enc, root: name, entryHeap: map[string]Term{}, strs: map[string]Value{}, floats: map[string]Term{}, globalVal: map[*ssa.Global]Value{},
		candActive: cands, candFail: map[CandKey]bool{}}
	res.candFail = fx.candFail
	fx.brk0 = enc.Decl("brk0", "Int")
	enc.Assume(Gt(fx.brk0, "1000000"))
	defer func() {
		if r := recover(); r != nil {
			switch e := r.(type) {
			case unsupportedErr:
				res.Unsupported = string(e)
			default:
				panic(r)
			}
		}
		for n := range enc.Notes {
			res.Notes = append(res.Notes, n)
		}
		sort.Strings(res.Notes)
		res.Notes = append(res.Notes, fx.unsupported...)
	}()
	ct := E.effectiveContract(name)
	fr := &frame{fx: fx, fn: fn, name: name, vals: map[ssa.Value]Value{}, params: map[string]Value{}, contract: ct, level: level}
	entry := NewState()
	entry.Brk = fx.brk0
	fr.entry = entry.Clone()
	for _, p := range fn.Params {
		v := fx.sym("p."+p.Name(), p.Type())
		fr.vals[p] = v
		fr.params[p.Name()] = v
		// memory reachable from parameters predates the call
		switch v.Kind {
		case KSlice:
			el := under(p.Type()).(*types.Slice).Elem()
			enc.Assume(Le(Add(v.T, Mul(v.Cap, Num(size(el)))), fx.brk0))
		case KInt:
			if pt, ok := under(p.Type()).(*types.Pointer); ok {
				enc.Assume(Le(Add(v.T, Num(size(pt.Elem()))), fx.brk0))
			}
		}
	}
	// implicit precondition: a pointer receiver is non-nil (checked at call sites that use the callee's contract)
	if fn.Signature.Recv() != nil && len(fn.Params) > 0 {
		if _, ok := under(fn.Params[0].Type()).(*types.Pointer); ok {
			enc.Assume(Ne(fr.vals[fn.Params[0]].T, "0"))
		}
	}
	for _, fv := range fn.FreeVars {
		v := fx.sym("fv."+fv.Name(), fv.Type())
		fr.vals[fv] = v
		fr.params[fv.Name()] = v
	}
	fr.curReach = True
	var probes []Probe
	if level >= 0 && fn.Parent() == nil {
		probes = fx.addProbes(fn, fr.params)
	}
	defer func() {
		for _, o := range enc.Obls {
			if o.Expect == "unsat" && o.Kind != "lemma" {
				o.Probes = probes
			}
		}
	}()
	if ct != nil {
		ev := fr.env(entry, entry, nil)
		ev.local = nil
		for _, group := range [][]*Clause{ct.Requires, ct.Preserves} {
			for _, c := range group {
				if facetLevel[c.Facet] > level {
					continue
				}
				t, err := ev.EvalBool(c.E)
				if err != nil {
					fr.specError(c, err)
					continue
				}
				if hasTag(c, "assumed") {
					fx.note("ASSUMED without proof (precondition tagged assumed, not established by callers): %s: %s", name, c.Src)
				}
				enc.Assume(t)
			}
		}
		// vacuity guard: the precondition must be satisfiable
		if len(ct.Requires) > 0 || len(ct.Preserves) > 0 {
			o := enc.Oblige(name, "cover", "requires", True, fr.pos(fn.Pos()))
			o.Expect = "sat"
			o.Facet = levelNames[level]
		}
	}
	exit, results, exitReach := fr.run(entry, True)
	fr.curReach = exitReach
	if ct != nil {
		ev := fr.env(exit, fr.entry, nil)
		ev.local = nil
		var res Value
		switch len(results) {
		case 0:
			res = Value{Kind: KTuple}
		case 1:
			res = results[0]
		default:
			res = Value{Kind: KTuple, Elems: results}
		}
		bindResults(ev, fn, res)
		for _, group := range [][]*Clause{ct.Ensures, ct.Preserves} {
			for _, c := range group {
				if facetLevel[c.Facet] != level {
					continue
				}
				if hasTag(c, "ghost") {
					// definitional clause of ghost state/functions: assumed at call sites, nothing to prove here
					fx.note("ghost definition (assumed at call sites): %s: %s", name, c.Src)
					continue
				}
				if hasTag(c, "assumed") {
					fx.note("ASSUMED without proof (clause tagged assumed): %s: %s", name, c.Src)
					continue
				}
				if hasTag(c, "perpath") && len(fr.rets) >= 1 {
					// one obligation per return statement, over that path's own state (no merge of the exit states): smaller
					// queries for functions with many early returns; together they are the clause
					saved := fr.curReach
					for ri, r := range fr.rets {
						pev := fr.env(r.st, fr.entry, nil)
						// a per-path clause may mention the function's local variables: they denote their values at that return
						var pres Value
						switch len(r.vals) {
						case 0:
							pres = Value{Kind: KTuple}
						case 1:
							pres = r.vals[0]
						default:
							pres = Value{Kind: KTuple, Elems: r.vals}
						}
						bindResults(pev, fn, pres)
						pt, err := pev.EvalBool(c.E)
						if err != nil {
							fr.specError(c, err)
							break
						}
						fr.curReach = r.reach
						n0 := len(enc.Obls)
						fr.obligeSplit("post", fmt.Sprintf("%s.ret%d", clauseName(c), ri+1), pt, fn.Pos(), c.Facet, c.Tags)
						for _, o := range enc.Obls[n0:] {
							o.Pos = token.Position{Filename: c.File, Line: c.Line}
						}
					}
					fr.curReach = saved
					continue
				}
				t, err := ev.EvalBool(c.E)
				if err != nil {
					fr.specError(c, err)
					continue
				}
				what := clauseName(c)
				if c.Kind == "preserves" {
					what = "preserves." + what
				}
				if t != True {
					n0 := len(enc.Obls)
					fr.obligeSplit("post", what, t, fn.Pos(), c.Facet, c.Tags)
					for _, o := range enc.Obls[n0:] {
						o.Pos = token.Position{Filename: c.File, Line: c.Line}
					}
				} else {
					// trivially true after simplification: still count it
					o := enc.Oblige(name, "post", what, True, token.Position{Filename: c.File, Line: c.Line})
					o.Facet, o.Tags = c.Facet, c.Tags
				}
			}
		}
		// reachability canary: the exit must be reachable (otherwise everything above is vacuous)
		if exitReach != False {
			o := enc.Oblige(name, "cover", "exit", exitReach, fr.pos(fn.Pos()))
			o.Expect = "sat"
			o.Facet = levelNames[level]
		}
	}
	// a callsite clause that matched no call would be vacuous
	if ct != nil && level >= 0 {
		for _, cs := range ct.CallSites {
			if facetLevel[cs.C.Facet] == level && !fr.csHit[cs] {
				fr.specError(cs.C, fmt.Errorf("callsite: %s makes no call of %s", name, cs.Callee))
			}
		}
	}
	// every lemma about an opaque specification function that was instantiated above is an obligation of this function:
	// proved for arbitrary integer arguments from the function's definition, in a query of its own
	if len(fx.sfUsed) > 0 {
		var keys []string
		for k := range fx.sfUsed {
			keys = append(keys, k)
		}
		sort.Strings(keys)
		for _, k := range keys {
			lm := fx.sfUsed[k]
			lenc := NewEnc()
			savedEnc, savedSeen := fx.enc, fx.sfSeen
			fx.enc, fx.sfSeen, fx.sfRevealAll = lenc, map[string]bool{}, true
			ev := fr.env(entry, entry, nil)
			ev.local = nil
			for _, p := range lm.Params {
				ev = ev.bind(p, IntV(lenc.Decl("lm."+p, "Int"), tInt))
			}
			t, err := ev.EvalBool(lm.C.E)
			fx.enc, fx.sfSeen, fx.sfRevealAll = savedEnc, savedSeen, false
			if err != nil {
				fr.specError(lm.C, err)
				continue
			}
			o := lenc.Oblige(name, "lemma", k, t, token.Position{Filename: lm.C.File, Line: lm.C.Line})
			o.Facet = levelNames[max(level, 0)]
			enc.Obls = append(enc.Obls, o)
		}
	}
	res.Obls = enc.Obls
	// at levels above S, only report obligations of that facet (implicit ones belong to S)
	if level > 0 {
		var keep []*Obligation
		for _, o := range enc.Obls {
			if facetLevel[o.Facet] == level {
				keep = append(keep, o)
			}
		}
		res.Obls = keep
	}
	for _, o := range res.Obls {
		if level > 0 {
			o.Name = o.Name + "@" + levelNames[level]
		}
	}
	return
}

// LevelsOf says which facet levels a contract needs.
func (E *Engine) LevelsOf(name string) []int {
	ct := E.effectiveContract(name)
	if ct == nil {
		return []int{0}
	}
	need := map[int]bool{0: true}
	for _, g := range [][]*Clause{ct.Ensures, ct.Preserves, ct.LoopInv, ct.AtCalls} {
		for _, c := range g {
			need[facetLevel[c.Facet]] = true
		}
	}
	for _, cs := range ct.CallSites {
		need[facetLevel[cs.C.Facet]] = true
	}
	var ls []int
	for l := 0; l < 3; l++ {
		if need[l] {
			ls = append(ls, l)
		}
	}
	return ls
}

func shortFile(p token.Position) string {
	f := p.Filename
	f = strings.TrimPrefix(f, "/repo/")
	return fmt.Sprintf("%s:%d", f, p.Line)
}

// houdiniTimeout bounds each candidate-invariant query (seconds).
var houdiniTimeout = 10

func nonGhost(cs []*Clause) []*Clause {
	var out []*Clause
	for _, c := range cs {
		if !hasTag(c, "ghost") {
			out = append(out, c)
		}
	}
	return out
}

func hasTag(c *Clause, tag string) bool {
	for _, t := range c.Tags {
		if t == tag {
			return true
		}
	}
	return false
}

package vc

import (
	"fmt"
	"go/types"
	"os"
	"sort"
	"strings"

	"golang.org/x/tools/go/packages"
	"golang.org/x/tools/go/ssa"
	"golang.org/x/tools/go/ssa/ssautil"
)

// Program is the loaded repository: typed packages plus SSA in naive form.
type Program struct {
	Repo  string
	Pkgs  []*packages.Package
	SSA   *ssa.Program
	SPkgs []*ssa.Package
	// Funcs maps the canonical name (pkg.Recv.Func or pkg.Func) to the SSA function.
	Funcs map[string]*ssa.Function
	Names map[*ssa.Function]string
}

const ModPath = "github.com/tdewolff/parse/v2"

// Load type-checks every package of the repository from its working tree and builds SSA.
func Load(repo string) (*Program, error) {
	cfg := &packages.Config{
		Mode: packages.NeedName | packages.NeedFiles | packages.NeedCompiledGoFiles | packages.NeedImports |
			packages.NeedDeps | packages.NeedTypes | packages.NeedSyntax | packages.NeedTypesInfo | packages.NeedTypesSizes,
		Dir:   repo,
		Tests: false,
		Env:   append(os.Environ(), "GOFLAGS=-mod=mod", "GOPROXY=off", "GOSUMDB=off", "GOTOOLCHAIN=local"),
	}
	pkgs, err := packages.Load(cfg, "./...")
	if err != nil {
		return nil, err
	}
	var errs []string
	for _, p := range pkgs {
		for _, e := range p.Errors {
			errs = append(errs, e.Error())
		}
	}
	if len(errs) > 0 {
		return nil, fmt.Errorf("package errors: %s", strings.Join(errs, "; "))
	}
	prog, spkgs := ssautil.AllPackages(pkgs, ssa.NaiveForm|ssa.InstantiateGenerics)
	prog.Build()
	P := &Program{Repo: repo, Pkgs: pkgs, SSA: prog, SPkgs: spkgs, Funcs: map[string]*ssa.Function{}, Names: map[*ssa.Function]string{}}
	for _, sp := range spkgs {
		if sp == nil || !strings.HasPrefix(sp.Pkg.Path(), ModPath) {
			continue
		}
		for _, m := range sp.Members {
			switch m := m.(type) {
			case *ssa.Function:
				P.add(m)
			case *ssa.Type:
				T := m.Type()
				for _, t := range []types.Type{T, types.NewPointer(T)} {
					ms := prog.MethodSets.MethodSet(t)
					for i := 0; i < ms.Len(); i++ {
						f := prog.MethodValue(ms.At(i))
						if f != nil && f.Synthetic == "" {
							P.add(f)
						}
					}
				}
			}
		}
	}
	return P, nil
}

func (P *Program) add(f *ssa.Function) {
	if _, ok := P.Names[f]; ok {
		return
	}
	n := FuncName(f)
	P.Funcs[n] = f
	P.Names[f] = n
	for _, af := range f.AnonFuncs {
		P.add(af)
	}
}

// FuncName gives pkg.Recv.Name (package = last path element; tests are not loaded).
func FuncName(f *ssa.Function) string {
	if f.Parent() != nil {
		return FuncName(f.Parent()) + "$" + strings.TrimPrefix(f.Name(), f.Parent().Name()+"$")
	}
	pkg := ""
	if f.Pkg != nil {
		pkg = shortPkg(f.Pkg.Pkg.Path())
	} else if f.Object() != nil && f.Object().Pkg() != nil {
		pkg = shortPkg(f.Object().Pkg().Path())
	}
	if recv := f.Signature.Recv(); recv != nil {
		t := recv.Type()
		if p, ok := t.(*types.Pointer); ok {
			t = p.Elem()
		}
		if n, ok := t.(*types.Named); ok {
			return pkg + "." + n.Obj().Name() + "." + f.Name()
		}
	}
	return pkg + "." + f.Name()
}

func shortPkg(path string) string {
	if path == ModPath {
		return "parse"
	}
	if strings.HasPrefix(path, ModPath+"/") {
		return strings.TrimPrefix(path, ModPath+"/")
	}
	return path
}

// SortedFuncNames lists functions of the repository in a stable order.
func (P *Program) SortedFuncNames() []string {
	var ns []string
	for n := range P.Funcs {
		ns = append(ns, n)
	}
	sort.Strings(ns)
	return ns
}

// Dump writes the SSA of one function.
func (P *Program) Dump(name string) {
	f := P.Funcs[name]
	if f == nil {
		fmt.Println("no such function:", name)
		return
	}
	f.WriteTo(os.Stdout)
}

package vc

import (
	"fmt"
	"go/types"
	"sort"
	"strings"
)

type Kind int

const (
	KInt    Kind = iota // integers, pointers, func values, maps, chans, floats (opaque codes): sort Int
	KBool               // sort Bool
	KSlice              // T=ptr, Len, Cap
	KString             // T=ptr, Len
	KIface              // Tag (type id, 0 = nil), T = payload
	KStruct             // Elems per field
	KTuple              // Elems
	KArray              // array value: T = address of a snapshot (arrays are always handled by address)
)

// Value is a symbolic Go value.
type Value struct {
	Kind  Kind
	T     Term
	Len   Term
	Cap   Term
	Tag   Term
	Elems []Value
	Typ   types.Type
}

func IntV(t Term, typ types.Type) Value  { return Value{Kind: KInt, T: t, Typ: typ} }
func BoolV(t Term) Value                 { return Value{Kind: KBool, T: t, Typ: types.Typ[types.Bool]} }
func (v Value) String() string {
	switch v.Kind {
	case KSlice:
		return fmt.Sprintf("slice(%s,%s,%s)", v.T, v.Len, v.Cap)
	case KString:
		return fmt.Sprintf("string(%s,%s)", v.T, v.Len)
	case KIface:
		return fmt.Sprintf("iface(%s,%s)", v.Tag, v.T)
	case KStruct, KTuple:
		var s []string
		for _, e := range v.Elems {
			s = append(s, e.String())
		}
		return "{" + strings.Join(s, ", ") + "}"
	}
	return v.T
}

// terms lists the scalar terms of a value in a fixed order (used for merging and equality).
func (v Value) terms() []Term {
	switch v.Kind {
	case KSlice:
		return []Term{v.T, v.Len, v.Cap}
	case KString:
		return []Term{v.T, v.Len}
	case KIface:
		return []Term{v.Tag, v.T}
	case KStruct, KTuple:
		var out []Term
		for _, e := range v.Elems {
			out = append(out, e.terms()...)
		}
		return out
	}
	return []Term{v.T}
}

// sorts lists the sorts of terms().
func (v Value) sorts() []string {
	switch v.Kind {
	case KBool:
		return []string{"Bool"}
	case KSlice:
		return []string{"Int", "Int", "Int"}
	case KString, KIface:
		return []string{"Int", "Int"}
	case KStruct, KTuple:
		var out []string
		for _, e := range v.Elems {
			out = append(out, e.sorts()...)
		}
		return out
	}
	return []string{"Int"}
}

// rebuild makes a value of the same shape from a list of terms.
func (v Value) rebuild(ts []Term) (Value, []Term) {
	r := v
	switch v.Kind {
	case KSlice:
		r.T, r.Len, r.Cap = ts[0], ts[1], ts[2]
		return r, ts[3:]
	case KString:
		r.T, r.Len = ts[0], ts[1]
		return r, ts[2:]
	case KIface:
		r.Tag, r.T = ts[0], ts[1]
		return r, ts[2:]
	case KStruct, KTuple:
		r.Elems = make([]Value, len(v.Elems))
		for i, e := range v.Elems {
			r.Elems[i], ts = e.rebuild(ts)
		}
		return r, ts
	}
	r.T = ts[0]
	return r, ts[1:]
}

// ---------------------------------------------------------------- type layout

func under(t types.Type) types.Type { return types.Unalias(t).Underlying() }

func isBoolType(t types.Type) bool {
	b, ok := under(t).(*types.Basic)
	return ok && b.Info()&types.IsBoolean != 0
}

func isFloatType(t types.Type) bool {
	b, ok := under(t).(*types.Basic)
	return ok && b.Info()&(types.IsFloat|types.IsComplex) != 0
}

func isStringType(t types.Type) bool {
	b, ok := under(t).(*types.Basic)
	return ok && b.Info()&types.IsString != 0
}

// intRange returns the value range of an integer type, ok=false for non-integers.
func intRange(t types.Type) (lo, hi Term, bits int, signed bool, ok bool) {
	b, isb := under(t).(*types.Basic)
	if !isb || b.Info()&types.IsInteger == 0 {
		return "", "", 0, false, false
	}
	switch b.Kind() {
	case types.Int8:
		bits, signed = 8, true
	case types.Int16:
		bits, signed = 16, true
	case types.Int32:
		bits, signed = 32, true
	case types.Int, types.Int64, types.UntypedInt, types.UntypedRune:
		bits, signed = 64, true
	case types.Uint8:
		bits = 8
	case types.Uint16:
		bits = 16
	case types.Uint32:
		bits = 32
	case types.Uint, types.Uint64, types.Uintptr:
		bits = 64
	default:
		return "", "", 0, false, false
	}
	if signed {
		return "(- " + Pow2(bits-1) + ")", Sub(Pow2(bits-1), "1"), bits, true, true
	}
	return "0", pow2m1(bits), bits, false, true
}

func pow2m1(bits int) Term {
	return fmt.Sprint(new(bigInt).Sub(pow2[bits], bigOne))
}

// size is the number of address slots a value of type t occupies.
func size(t types.Type) int64 {
	switch u := under(t).(type) {
	case *types.Struct:
		var s int64
		for i := 0; i < u.NumFields(); i++ {
			s += size(u.Field(i).Type())
		}
		if s == 0 {
			s = 1
		}
		return s
	case *types.Array:
		n := u.Len() * size(u.Elem())
		if n == 0 {
			n = 1
		}
		return n
	}
	return 1
}

func fieldOffset(st *types.Struct, idx int) int64 {
	var s int64
	for i := 0; i < idx; i++ {
		s += size(st.Field(i).Type())
	}
	return s
}

// typeKey names a type for heap-array keys.
func typeKey(t types.Type) string {
	t = types.Unalias(t)
	if b, ok := t.(*types.Basic); ok {
		switch b.Kind() {
		case types.Uint8:
			return "uint8"
		case types.Int32:
			return "int32"
		}
		return b.Name()
	}
	s := types.TypeString(t, func(p *types.Package) string { return shortPkg(p.Path()) })
	return sanitize(s)
}

// structKey names a struct type for field arrays.
func structKey(t types.Type) string {
	t = types.Unalias(t)
	if n, ok := t.(*types.Named); ok {
		p := ""
		if n.Obj().Pkg() != nil {
			p = shortPkg(n.Obj().Pkg().Path()) + "."
		}
		return sanitize(p + n.Obj().Name())
	}
	return typeKey(t)
}

// Leaf describes one scalar memory array used by a location of some type.
type Leaf struct {
	Key  string // heap array name
	Off  int64  // address offset from the location's base
	Sort string // "Int" or "Bool"
}

// ---------------------------------------------------------------- state

// State is the symbolic machine state: local cells and heap arrays.
type State struct {
	Cells map[interface{}]Value // *ssa.Alloc (non-escaping) -> value
	Heap  map[string]Term       // array key -> current array term
	Brk   Term                  // allocation frontier
}

func NewState() *State {
	return &State{Cells: map[interface{}]Value{}, Heap: map[string]Term{}}
}

func (s *State) Clone() *State {
	n := &State{Cells: make(map[interface{}]Value, len(s.Cells)), Heap: make(map[string]Term, len(s.Heap)), Brk: s.Brk}
	for k, v := range s.Cells {
		n.Cells[k] = v
	}
	for k, v := range s.Heap {
		n.Heap[k] = v
	}
	return n
}

func sortedKeys(m map[string]Term) []string {
	var ks []string
	for k := range m {
		ks = append(ks, k)
	}
	sort.Strings(ks)
	return ks
}

package vc

import (
	"fmt"
	"go/ast"
	"go/token"
	"go/types"
	"os"
	"sort"
	"strings"
)

// C18: js.Walk against the type-derived child relation.
//
// children(T) is computed from go/types alone: every field (through embedded and plain structs, slices, arrays and
// pointers) whose type implements INode, except the types listed under "walk exclude" (scope tables). This is
// independent of walk.go. For every arm of Walk's type switch the set of nodes it hands to recursive Walk calls is
// read off the arm; the obligation  {n} ∪ ⋃ visited  ==  {n} ∪ ⋃ children(T)  is a set-algebra formula over
// uninterpreted subtree sets, discharged by the SMT solver (a missing or extra child gives a counter-model).
// Order obligations: Enter before the switch, Exit deferred right after a non-nil Enter, nothing else calls them.

func init() { Analyses["walk"] = walkAnalysis }

type childRef struct {
	path string // access path from n, e.g. "Body", "List[]", "List[].StaticBlock"
	kind string // ptr, iface, value, elem-ptr, elem-iface, elem-value
}

func walkAnalysis(E *Engine, ps *PropSpec) []*ExtraResult {
	var out []*ExtraResult
	fail := func(name, detail string) {
		out = append(out, &ExtraResult{Name: "js.Walk/" + name, Kind: "walk", OK: false, By: "walk", Detail: detail, Note: "no-failing-input-found"})
	}
	var jsPkg *types.Package
	var jsSyntax []*ast.File
	var info *types.Info
	var fset *token.FileSet
	for _, p := range E.P.Pkgs {
		if p.PkgPath == ModPath+"/js" {
			jsPkg, jsSyntax, info, fset = p.Types, p.Syntax, p.TypesInfo, p.Fset
		}
	}
	if jsPkg == nil {
		fail("load", "package js not found")
		return out
	}
	inodeObj := jsPkg.Scope().Lookup("INode")
	if inodeObj == nil {
		fail("load", "INode not found")
		return out
	}
	inode := under(inodeObj.Type()).(*types.Interface)
	isNode := func(T types.Type) bool {
		if types.IsInterface(T) {
			return types.Implements(T, inode) || types.AssignableTo(T, inodeObj.Type())
		}
		return types.Implements(T, inode) || types.Implements(types.NewPointer(T), inode)
	}
	exclude := map[string]bool{}
	unions := map[string][]string{}
	inlineUnion := map[string]bool{}
	for _, c := range E.S.WalkDirectives {
		f := strings.Fields(c)
		if len(f) >= 2 && f[0] == "exclude" {
			for _, t := range f[1:] {
				exclude[t] = true
			}
		}
		if len(f) >= 3 && f[0] == "union" {
			// union T: A | B | C
			name := strings.TrimSuffix(f[1], ":")
			var alts []string
			for _, a := range f[2:] {
				if a != "|" {
					alts = append(alts, a)
				}
			}
			unions[name] = alts
		}
		if len(f) >= 2 && f[0] == "inline" {
			for _, t := range f[1:] {
				inlineUnion[t] = true
			}
		}
	}
	typeName := func(T types.Type) string {
		if p, ok := T.(*types.Pointer); ok {
			T = p.Elem()
		}
		if n, ok := types.Unalias(T).(*types.Named); ok {
			return n.Obj().Name()
		}
		return T.String()
	}
	// children of a struct type
	var childrenOf func(T types.Type, prefix string, depth int) []childRef
	childrenOf = func(T types.Type, prefix string, depth int) []childRef {
		var res []childRef
		st, ok := under(T).(*types.Struct)
		if !ok || depth > 3 {
			return nil
		}
		for i := 0; i < st.NumFields(); i++ {
			f := st.Field(i)
			FT := f.Type()
			name := prefix + f.Name()
			if exclude[typeName(FT)] || exclude[typeName(T)+"."+f.Name()] {
				continue
			}
			switch u := under(FT).(type) {
			case *types.Interface:
				if isNode(FT) {
					res = append(res, childRef{name, "iface"})
				}
			case *types.Pointer:
				if isNode(FT) && !exclude[typeName(u.Elem())] {
					res = append(res, childRef{name, "ptr"})
				}
			case *types.Slice:
				el := u.Elem()
				if exclude[typeName(el)] {
					continue
				}
				switch under(el).(type) {
				case *types.Interface:
					if isNode(el) {
						res = append(res, childRef{name + "[]", "elem-iface"})
					}
				case *types.Pointer:
					if isNode(el) {
						res = append(res, childRef{name + "[]", "elem-ptr"})
					}
				case *types.Struct:
					if _, isUnion := unions[typeName(el)]; isUnion {
						res = append(res, childRef{name + "[]", "elem-union:" + typeName(el)})
					} else if isNode(el) {
						res = append(res, childRef{name + "[]", "elem-value"})
					} else {
						for _, c := range childrenOf(el, name+"[].", depth+1) {
							res = append(res, c)
						}
					}
				}
			case *types.Struct:
				if isNode(FT) {
					res = append(res, childRef{name, "value"})
				} else {
					res = append(res, childrenOf(FT, name+".", depth+1)...)
				}
			}
		}
		return res
	}
	// node types of package js
	nodeTypes := map[string]types.Type{}
	for _, n := range jsPkg.Scope().Names() {
		tn, ok := jsPkg.Scope().Lookup(n).(*types.TypeName)
		if !ok || tn.IsAlias() {
			continue
		}
		if _, isStruct := under(tn.Type()).(*types.Struct); isStruct && isNode(tn.Type()) && !exclude[n] {
			if _, isUnion := unions[n]; isUnion && inlineUnion[n] {
				continue // handled inline by its parent, never a node of its own
			}
			nodeTypes[n] = tn.Type()
		}
	}
	// find func Walk
	var walkFn *ast.FuncDecl
	for _, f := range jsSyntax {
		for _, d := range f.Decls {
			if fd, ok := d.(*ast.FuncDecl); ok && fd.Name.Name == "Walk" && fd.Recv == nil {
				walkFn = fd
			}
		}
	}
	if walkFn == nil || walkFn.Body == nil {
		fail("load", "func Walk not found")
		return out
	}
	pos := func(n ast.Node) string { return shortFile(fset.Position(n.Pos())) }
	// ---- order obligations on the prologue
	body := walkFn.Body.List
	vName, nName := "v", "n"
	if ps := walkFn.Type.Params.List; len(ps) == 2 && len(ps[0].Names) == 1 && len(ps[1].Names) == 1 {
		vName, nName = ps[0].Names[0].Name, ps[1].Names[0].Name
	}
	src := func(n ast.Node) string {
		data, err := os.ReadFile(fset.Position(n.Pos()).Filename)
		if err != nil {
			return ""
		}
		s, e := fset.Position(n.Pos()).Offset, fset.Position(n.End()).Offset
		if s < 0 || e > len(data) || s > e {
			return ""
		}
		return strings.Join(strings.Fields(string(data[s:e])), " ")
	}
	okPrologue := len(body) >= 4
	var sw *ast.TypeSwitchStmt
	detail := ""
	if okPrologue {
		s0, s1, s2 := src(body[0]), src(body[1]), src(body[2])
		if s0 != fmt.Sprintf("if %s == nil { return }", nName) {
			okPrologue, detail = false, "first statement must skip nil nodes: "+s0
		}
		if s1 != fmt.Sprintf("if %s = %s.Enter(%s); %s == nil { return }", vName, vName, nName, vName) {
			okPrologue, detail = false, "second statement must call Enter once and stop on a nil visitor: "+s1
		}
		if s2 != fmt.Sprintf("defer %s.Exit(%s)", vName, nName) {
			okPrologue, detail = false, "third statement must defer Exit on the visitor Enter returned: "+s2
		}
		var isSw bool
		sw, isSw = body[3].(*ast.TypeSwitchStmt)
		if !isSw || len(body) != 4 {
			okPrologue, detail = false, "the prologue must be followed by exactly the type switch"
		}
	}
	out = append(out, &ExtraResult{Name: "js.Walk/order:enter-before-children-exit-after", Kind: "walk", OK: okPrologue, By: "walk",
		Detail: "Walk = nil check; v = v.Enter(n), return if nil (subtree skipped, no Exit); defer v.Exit(n); type switch over the children. " + detail, Note: "no-failing-input-found"})
	if sw == nil {
		return out
	}
	// no other Enter/Exit calls and every recursive call passes the visitor returned by Enter
	badCalls := ""
	ast.Inspect(sw, func(x ast.Node) bool {
		if call, ok := x.(*ast.CallExpr); ok {
			if sel, ok := call.Fun.(*ast.SelectorExpr); ok && (sel.Sel.Name == "Enter" || sel.Sel.Name == "Exit") {
				badCalls += pos(call) + " calls " + sel.Sel.Name + "; "
			}
			if id, ok := call.Fun.(*ast.Ident); ok && id.Name == "Walk" {
				if len(call.Args) != 2 || src(call.Args[0]) != vName {
					badCalls += pos(call) + " does not pass the visitor returned by Enter; "
				}
			}
		}
		if _, ok := x.(*ast.DeferStmt); ok {
			badCalls += pos(x) + " extra defer; "
		}
		if _, ok := x.(*ast.GoStmt); ok {
			badCalls += pos(x) + " go statement; "
		}
		return true
	})
	out = append(out, &ExtraResult{Name: "js.Walk/order:single-enter-exit", Kind: "walk", OK: badCalls == "", By: "walk",
		Detail: "no arm calls Enter or Exit, defers, or starts goroutines; every recursive call passes the visitor Enter returned. " + badCalls, Note: "no-failing-input-found"})

	// ---- per-arm visited sets
	arms := map[string]*ast.CaseClause{}
	for _, cc := range sw.Body.List {
		c := cc.(*ast.CaseClause)
		for _, te := range c.List {
			T := info.TypeOf(te)
			if T == nil {
				continue
			}
			if p, ok := T.(*types.Pointer); ok {
				arms[typeName(p.Elem())] = c
			} else {
				arms["value:"+typeName(T)] = c
			}
		}
	}
	var names []string
	for n := range nodeTypes {
		names = append(names, n)
	}
	sort.Strings(names)
	for _, tn := range names {
		T := nodeTypes[tn]
		kids := childrenOf(T, "", 0)
		arm := arms[tn]
		if arm == nil {
			ok := len(kids) == 0
			d := "no arm for *" + tn + "; type-derived children: none"
			if !ok {
				var ks []string
				for _, k := range kids {
					ks = append(ks, k.path)
				}
				d = "no arm for *" + tn + " although the type has node-typed children " + fmt.Sprint(ks) + ": they are never walked"
			}
			out = append(out, &ExtraResult{Name: "js.Walk/arm:" + tn, Kind: "walk", OK: ok, By: "walk", Detail: d, Note: "no-failing-input-found",
				Replay: "parse a program containing a " + tn + " node and walk it with a visitor that records Enter calls: the children listed above are missing"})
			continue
		}
		w := &armWalker{src: src, pos: pos, n: "n", unions: unions}
		for _, st := range arm.Body {
			w.stmt(st, "true")
		}
		if alts, isUnion := unions[tn]; isUnion {
			w.selfUnion = alts
		}
		res := w.obligation(tn, kids)
		out = append(out, res)
	}
	return out
}

// armWalker collects, for one arm, the child paths handed to Walk with their guards.
type armWalker struct {
	src     func(ast.Node) string
	pos     func(ast.Node) string
	n       string
	visits  []visit
	bad     []string
	unions  map[string][]string
	loopVar map[string]string // index or item variable -> slice path
	itemCopy map[string]bool  // range item variables that are copies of struct elements
	selfUnion []string
	dead      bool     // an unconditional return has been passed: later statements of the arm never run
	retGuards []string // guards under which an earlier statement returned
}

type visit struct {
	path  string
	guard string // "true", "nonnil:<path>", "union:<slicepath>:<k>" or "?<text>"
	byCopy bool
}

func (w *armWalker) pathOf(e ast.Expr) (path string, copy bool, ok bool) {
	switch x := e.(type) {
	case *ast.Ident:
		if x.Name == w.n {
			return "", false, true
		}
		if sp, isItem := w.loopVar[x.Name]; isItem && strings.HasSuffix(sp, "[]") {
			return sp, w.itemCopy[x.Name], true
		}
	case *ast.SelectorExpr:
		p, c, ok := w.pathOf(x.X)
		if !ok {
			return "", false, false
		}
		if p == "" {
			return x.Sel.Name, c, true
		}
		return p + "." + x.Sel.Name, c, true
	case *ast.UnaryExpr:
		if x.Op == token.AND {
			return w.pathOf(x.X)
		}
	case *ast.IndexExpr:
		p, c, ok := w.pathOf(x.X)
		if !ok {
			return "", false, false
		}
		if id, isId := x.Index.(*ast.Ident); isId {
			if sp, known := w.loopVar[id.Name]; known && sp == p {
				return p + "[]", c, true
			}
		}
		return "", false, false
	case *ast.ParenExpr:
		return w.pathOf(x.X)
	}
	return "", false, false
}

func (w *armWalker) stmt(s ast.Stmt, guard string) {
	if w.dead {
		return
	}
	for _, rg := range w.retGuards {
		if !strings.Contains(guard, "!"+rg) {
			if guard == "true" {
				guard = "!" + rg
			} else {
				guard = guard + "&!" + rg
			}
		}
	}
	switch x := s.(type) {
	case *ast.ReturnStmt:
		if len(x.Results) != 0 {
			w.bad = append(w.bad, w.pos(x)+": return with values")
		}
		// everything after a return is skipped: unconditionally (the rest of the arm is dead) or under the return's guard
		if guard == "true" {
			w.dead = true
		} else {
			w.retGuards = append(w.retGuards, "?returned earlier under "+strings.ReplaceAll(guard, "&", " and "))
		}
	case *ast.ExprStmt:
		call, ok := x.X.(*ast.CallExpr)
		if !ok {
			w.bad = append(w.bad, w.pos(x)+": unrecognised statement "+w.src(x))
			return
		}
		if id, ok := call.Fun.(*ast.Ident); !ok || id.Name != "Walk" || len(call.Args) != 2 {
			w.bad = append(w.bad, w.pos(x)+": call other than Walk: "+w.src(x))
			return
		}
		p, c, ok := w.pathOf(call.Args[1])
		if !ok || p == "" {
			w.bad = append(w.bad, w.pos(x)+": cannot read the child expression "+w.src(call.Args[1]))
			return
		}
		// taking the address of (a field of) a range-loop copy hands Enter a node that is not in the tree
		_, isAddr := call.Args[1].(*ast.UnaryExpr)
		w.visits = append(w.visits, visit{path: p, guard: guard, byCopy: c && isAddr})
	case *ast.IfStmt:
		if x.Init != nil {
			w.bad = append(w.bad, w.pos(x)+": if with init statement")
			return
		}
		// recognised guards: <path> != nil
		g := "?" + w.src(x.Cond)
		if be, ok := x.Cond.(*ast.BinaryExpr); ok && be.Op == token.NEQ && w.src(be.Y) == "nil" {
			if p, _, ok := w.pathOf(be.X); ok && p != "" {
				g = "nonnil:" + p
			}
		}
		thenG := g
		if guard != "true" {
			thenG = guard + "&" + g
		}
		for _, st := range x.Body.List {
			w.stmt(st, thenG)
		}
		if x.Else != nil {
			elseG := "!" + g
			if guard != "true" {
				elseG = guard + "&!" + g
			}
			switch e := x.Else.(type) {
			case *ast.BlockStmt:
				for _, st := range e.List {
					w.stmt(st, elseG)
				}
			case *ast.IfStmt:
				w.stmt(e, elseG)
			}
		}
	case *ast.ForStmt:
		// for i := 0; i < len(n.F); i++ { ... }
		ok := false
		if as, isAs := x.Init.(*ast.AssignStmt); isAs && len(as.Lhs) == 1 && w.src(as.Rhs[0]) == "0" {
			iv := w.src(as.Lhs[0])
			if be, isBe := x.Cond.(*ast.BinaryExpr); isBe && be.Op == token.LSS && w.src(be.X) == iv {
				if call, isCall := be.Y.(*ast.CallExpr); isCall && w.src(call.Fun) == "len" && len(call.Args) == 1 {
					if p, _, okp := w.pathOf(call.Args[0]); okp && p != "" {
						if inc, isInc := x.Post.(*ast.IncDecStmt); isInc && inc.Tok == token.INC && w.src(inc.X) == iv {
							if w.loopVar == nil {
								w.loopVar = map[string]string{}
							}
							w.loopVar[iv] = p
							for _, st := range x.Body.List {
								w.stmt(st, guard)
							}
							delete(w.loopVar, iv)
							ok = true
						}
					}
				}
			}
		}
		if !ok {
			w.bad = append(w.bad, w.pos(x)+": loop is not of the form for i := 0; i < len(n.F); i++")
		}
	case *ast.RangeStmt:
		p, _, okp := w.pathOf(x.X)
		if !okp || p == "" || x.Value == nil || (x.Key != nil && w.src(x.Key) != "_") {
			w.bad = append(w.bad, w.pos(x)+": range loop not over a child slice with a value variable")
			return
		}
		iv := w.src(x.Value)
		if w.loopVar == nil {
			w.loopVar = map[string]string{}
		}
		if w.itemCopy == nil {
			w.itemCopy = map[string]bool{}
		}
		w.loopVar[iv] = p + "[]"
		w.itemCopy[iv] = true // decided per use: taking the address of a field of a range copy visits a copy
		for _, st := range x.Body.List {
			w.stmt(st, guard)
		}
		delete(w.loopVar, iv)
		delete(w.itemCopy, iv)
	default:
		w.bad = append(w.bad, w.pos(s)+": unrecognised statement "+w.src(s))
	}
}

// obligation builds and discharges the set-algebra obligation of one arm.
func (w *armWalker) obligation(tn string, kids []childRef) *ExtraResult {
	res := &ExtraResult{Name: "js.Walk/arm:" + tn, Kind: "walk", By: "z3-new", Note: "no-failing-input-found"}
	if len(w.bad) > 0 {
		res.OK = false
		res.Detail = "arm outside the recognised shape: " + strings.Join(w.bad, "; ")
		return res
	}
	// symbols
	sym := map[string]string{}
	var decls []string
	setOf := func(path string) string {
		if s, ok := sym[path]; ok {
			return s
		}
		s := fmt.Sprintf("S%d", len(sym))
		sym[path] = s
		decls = append(decls, fmt.Sprintf("(declare-const %s (Array Int Bool)) ; subtrees of n.%s", s, path))
		decls = append(decls, fmt.Sprintf("(declare-const nn_%s Bool)", s))
		// a nil child has an empty subtree
		decls = append(decls, fmt.Sprintf("(assert (=> (not nn_%s) (= %s EMPTY)))", s, s))
		return s
	}
	empty := "((as const (Array Int Bool)) false)"
	union := func(a, b string) string {
		if a == "EMPTY" {
			return b
		}
		return fmt.Sprintf("((_ map or) %s %s)", a, b)
	}
	var condOf func(g string) string
	var slicePaths map[string]bool
	freeConds := 0
	condOf = func(g string) string {
		if g == "true" {
			return "true"
		}
		var parts []string
		for _, a := range strings.Split(g, "&") {
			neg := strings.HasPrefix(a, "!")
			a = strings.TrimPrefix(a, "!")
			var c string
			if strings.HasPrefix(a, "nonnil:") {
				pth := strings.TrimPrefix(a, "nonnil:")
				if slicePaths[pth+"[]"] {
					pth += "[]" // a nil slice has no elements
				}
				c = "nn_" + setOf(pth)
			} else {
				freeConds++
				c = fmt.Sprintf("free%d", freeConds)
				decls = append(decls, fmt.Sprintf("(declare-const %s Bool) ; %s", c, a))
			}
			if neg {
				c = "(not " + c + ")"
			}
			parts = append(parts, c)
		}
		if len(parts) == 1 {
			return parts[0]
		}
		return "(and " + strings.Join(parts, " ") + ")"
	}
	slicePaths = map[string]bool{}
	for _, v := range w.visits {
		slicePaths[v.path] = true
	}
	for _, k := range kids {
		slicePaths[k.path] = true
	}
	visited := "EMPTY"
	var vdesc, copies []string
	for _, v := range w.visits {
		s := setOf(v.path)
		vdesc = append(vdesc, v.path+" if "+v.guard)
		c := condOf(v.guard)
		t := s
		if c != "true" {
			t = fmt.Sprintf("(ite %s %s EMPTY)", c, s)
		}
		visited = union(visited, t)
		if v.byCopy {
			copies = append(copies, v.path)
		}
	}
	required := "EMPTY"
	var kdesc []string
	if len(w.selfUnion) > 0 {
		// the node itself is a tagged union: only the first alternative that is set belongs to the tree
		t := "EMPTY"
		for i := len(w.selfUnion) - 1; i >= 0; i-- {
			s := setOf(w.selfUnion[i])
			if i == len(w.selfUnion)-1 {
				t = s
			} else {
				t = fmt.Sprintf("(ite nn_%s %s %s)", s, s, t)
			}
		}
		required = t
		kdesc = append(kdesc, "{"+strings.Join(w.selfUnion, "|")+"}")
		kids = nil
	}
	for _, k := range kids {
		if strings.HasPrefix(k.kind, "elem-union:") {
			// tagged union: exactly the first non-nil alternative is part of the tree
			alts := w.unions[strings.TrimPrefix(k.kind, "elem-union:")]
			t := "EMPTY"
			for i := len(alts) - 1; i >= 0; i-- {
				s := setOf(k.path + "." + alts[i])
				if i == len(alts)-1 {
					t = s
				} else {
					t = fmt.Sprintf("(ite nn_%s %s %s)", s, s, t)
				}
			}
			required = union(required, t)
			kdesc = append(kdesc, k.path+"{"+strings.Join(alts, "|")+"}")
			continue
		}
		required = union(required, setOf(k.path))
		kdesc = append(kdesc, k.path)
	}
	q := "(define-fun EMPTY () (Array Int Bool) " + empty + ")\n"
	q += strings.Join(decls, "\n") + "\n(assert (not (= " + visited + " " + required + ")))\n(check-sat)\n"
	os.MkdirAll(WorkDir, 0o755)
	f, err := os.CreateTemp(WorkDir, "w*.smt2")
	ans := "error"
	if err == nil {
		f.WriteString(q)
		f.Close()
		ans, _, _ = runSolver(Solvers[0], 10, f.Name())
		os.Remove(f.Name())
	}
	res.OK = ans == "unsat" && len(copies) == 0
	res.Detail = fmt.Sprintf("type-derived children of %s: %v; visited by the arm: %v; set equality %s", tn, kdesc, vdesc, map[bool]string{true: "valid (unsat)", false: "NOT valid: solver answered " + ans}[ans == "unsat"])
	if len(copies) > 0 {
		res.Detail += fmt.Sprintf("; the arm passes the address of a field of a range-loop copy (%v): the node handed to Enter is not the node of the tree", copies)
	}
	res.Replay = q
	return res
}

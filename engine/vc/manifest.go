package vc

import (
	"bufio"
	"encoding/json"
	"fmt"
	"os"
	"sort"
	"strings"
)

// NotClaimed gives the reason for every property without a check.
var NotClaimed = map[string]string{
	"C03": "functional correctness of a 2400-line recursive-descent parser against the ECMAScript grammar (precedence, associativity, cover grammar, ASI), observed through String() of a heap tree of about sixty node types: stating it needs the grammar as a specification and an inductive invariant over trees built across the parser's whole call history; the contracts this verifier can discharge (per-function pre/postconditions over integers, slices and field-split heaps, no inductive reasoning over recursive heap structures) cannot express or decide it. The crash-freedom, recursion-depth and cursor aspects of js.Parse are decided under C01 (DESIGN.md section 0.9)",
	"C04": "'occurrences of the same binding share one Var, different bindings never do' relates the finished tree to ECMAScript's scoping semantics (hoisting, block scopes, parameter scopes, arrow-head reinterpretation) over the whole sequence of Declare/Use/Hoist/Undeclare calls the parser makes; deciding it needs that semantics as ghost state plus a tree-inductive invariant, which per-function contracts over this engine's memory model cannot carry (DESIGN.md section 0.9)",
	"C05": "relational round trip Parse∘JS∘Parse across two large components through io.Writer/strings; no per-function contract within reach of the verifier states 're-parses to the same tree' (DESIGN.md section 0.9 and section 5 C05)",
}

var pendingReason = "no check registered yet: contracts for this property are not discharged yet (engine under construction, DESIGN.md §10)"

func cmdManifest(args []string) int {
	f, err := os.Open("/verif/properties.jsonl")
	if err != nil {
		fmt.Println(err)
		return 2
	}
	defer f.Close()
	var ids []string
	sc := bufio.NewScanner(f)
	sc.Buffer(make([]byte, 1<<20), 1<<22)
	for sc.Scan() {
		var p struct {
			ID string `json:"id"`
		}
		if json.Unmarshal(sc.Bytes(), &p) == nil && p.ID != "" {
			ids = append(ids, p.ID)
		}
	}
	sort.Strings(ids)
	var checks []map[string]interface{}
	var na []map[string]string
	var served []string
	for _, id := range ids {
		ps := Props[id]
		if ps == nil {
			r := NotClaimed[id]
			if r == "" {
				r = pendingReason
			}
			na = append(na, map[string]string{"property_id": id, "reason": r})
			continue
		}
		served = append(served, id)
		text := ps.LevelText
		if text == "" {
			text = "Every obligation generated from /repo's current source for the functions under contract (bounds, nil, callee preconditions, loop invariants and variants, postconditions taken from the property statement) is discharged by an SMT solver for all inputs and all iterations."
		}
		if len(ps.NotDecided) > 0 {
			text += " Not decided (no obligation covers it): " + strings.Join(ps.NotDecided, "; ") + "."
		}
		note := ps.LevelNote
		if note == "" {
			note = "Trusted: go/ssa construction (x/tools v0.29.0), the VC generator vcgo, the SMT solvers; Go's type-safe memory model as encoded (field-split heap, bump allocation); assumed contracts of standard-library callees and every contract marked trusted, all listed in the evidence file."
		}
		checks = append(checks, map[string]interface{}{
			"property_id":         id,
			"quick_cmd":           fmt.Sprintf("/verif/bin/vcgo check -property %s -tier quick", id),
			"thorough_cmd":        fmt.Sprintf("/verif/bin/vcgo check -property %s -tier thorough", id),
			"evidence_file":       fmt.Sprintf("/verif/evidence/%s.json", id),
			"replay_cmd_template": "/verif/bin/vcgo replay {path}",
			"engine":              "vcgo",
			"level_claimed":       map[string]string{"category": "proof", "text": text, "design_ref": "DESIGN.md §5 " + id},
			"level_note":          note,
			"technique":           ps.Technique,
		})
	}
	m := map[string]interface{}{
		"version":   1,
		"setup_cmd": "cd /verif/engine && GOFLAGS=-mod=vendor GOPROXY=off GOSUMDB=off GOTOOLCHAIN=local go build -o /verif/bin/vcgo ./cmd/vcgo",
		"hooks": map[string]interface{}{
			"guard":            "verif",
			"enable":           "contracts are comment-only Go files /repo/**/contracts_verif.go behind //go:build verif; the verifier reads them as text (mirror: /verif/contracts), nothing is compiled into the library",
			"baseline_off_cmd": "cd /repo && GOFLAGS=-mod=mod GOPROXY=off GOSUMDB=off go test -vet=off -count=1 ./...",
			"source_commits":   hookCommits(),
			"add_only":         true,
		},
		"engines": []map[string]interface{}{{
			"name": "vcgo", "path": "/verif/engine", "serves_properties": served,
			"kind_free_text": "self-built verification-condition generator for Go: go/packages + go/ssa (naive form) of the real source -> symbolic execution with state merging -> SMT-LIB obligations; contracts as structured comments; obligations discharged by z3 5.1.0 / z3 4.8.12 / cvc5 1.0.3",
		}},
		"checks":         checks,
		"notes":          "See DESIGN.md. Properties move from not_applicable to checks as their contracts discharge on the (repaired) tree; KNOWN_FINDINGS.txt lists repaired defects.",
		"not_applicable": na,
	}
	data, _ := json.MarshalIndent(m, "", " ")
	os.WriteFile("/verif/MANIFEST.json", append(data, '\n'), 0o644)
	fmt.Printf("MANIFEST.json: %d checks, %d not applicable\n", len(checks), len(na))
	return 0
}

func hookCommits() []string {
	data, err := os.ReadFile("/verif/HOOK_COMMITS.txt")
	if err != nil {
		return []string{}
	}
	var out []string
	for _, l := range strings.Split(string(data), "\n") {
		if l = strings.TrimSpace(l); l != "" && !strings.HasPrefix(l, "#") {
			out = append(out, strings.Fields(l)[0])
		}
	}
	return out
}

package vc

import (
	"flag"
	"fmt"
	"os"
	"strings"
)

func Main(args []string) int {
	if len(args) == 0 {
		fmt.Println("usage: vcgo dump|check|list ...")
		return 2
	}
	switch args[0] {
	case "escapes":
		// list the places where a package-level-rooted pointer is stored into a heap object
		P, err := Load("/repo")
		if err != nil {
			fmt.Println(err)
			return 2
		}
		S, err := LoadSpecs("/repo", "/verif/contracts")
		if err != nil {
			fmt.Println(err)
			return 2
		}
		E := NewEngine(P, S)
		pa := E.provenance()
		for _, n := range E.P.SortedFuncNames() {
			for _, g := range pa.sums[E.P.Funcs[n]].GE {
				fmt.Printf("%s %s: %s %v\n", n, shortFile(g.Pos), g.Via, g.Globals)
			}
		}
		return 0
	case "cycles":
		// print the recursion cycles that pass through no declared depth guard
		P, err := Load("/repo")
		if err != nil {
			fmt.Println(err)
			return 2
		}
		S, err := LoadSpecs("/repo", "/verif/contracts")
		if err != nil {
			fmt.Println(err)
			return 2
		}
		E := NewEngine(P, S)
		for _, x := range depthAnalysis(E, &PropSpec{}) {
			fmt.Println(x.OK, x.Name, x.Detail)
		}
		return 0
	case "dump":
		fs := flag.NewFlagSet("dump", flag.ExitOnError)
		repo := fs.String("repo", "/repo", "repository")
		fs.Parse(args[1:])
		P, err := Load(*repo)
		if err != nil {
			fmt.Println(err)
			return 2
		}
		for _, n := range fs.Args() {
			P.Dump(n)
		}
		return 0
	case "check":
		return cmdCheck(args[1:])
	case "verify":
		return cmdVerify(args[1:])
	case "manifest":
		return cmdManifest(args[1:])
	case "replay":
		if len(args) > 1 {
			data, err := os.ReadFile(args[1])
			if err != nil {
				fmt.Println(err)
				return 2
			}
			fmt.Print(string(data))
			return replayRun(args[1])
		}
		return 2
	case "summary":
		return cmdSummary(args[1:])
	case "model":
		// vcgo model file.smt2 [prefix...]: print values of named Bool/Int symbols with the given prefixes
		return cmdModel(args[1:])
	case "list":
		P, err := Load("/repo")
		if err != nil {
			fmt.Println(err)
			return 2
		}
		for _, n := range P.SortedFuncNames() {
			fmt.Println(n)
		}
		return 0
	}
	return 2
}

func cmdVerify(args []string) int {
	fs := flag.NewFlagSet("verify", flag.ExitOnError)
	repo := fs.String("repo", "/repo", "repository")
	mirror := fs.String("mirror", "/verif/contracts", "contract mirror")
	timeout := fs.Int("timeout", 10, "solver timeout (s)")
	dump := fs.String("dump", "", "directory to dump failed queries")
	verbose := fs.Bool("v", false, "verbose")
	dumpAll := fs.Bool("dumpall", false, "with -dump: write every query, not only the failed ones")
	onlyLevels := fs.String("levels", "", "restrict to these facet levels (e.g. F)")
	fs.Parse(args)
	P, err := Load(*repo)
	if err != nil {
		fmt.Println(err)
		return 2
	}
	S, err := LoadSpecs(*repo, *mirror)
	if err != nil {
		fmt.Println(err)
		return 2
	}
	E := NewEngine(P, S)
	bad := 0
	for _, name := range fs.Args() {
		for _, lvl := range E.LevelsOf(name) {
			if *onlyLevels != "" && !strings.Contains(*onlyLevels, levelNames[lvl]) {
				continue
			}
			if ct := E.S.Contracts[name]; ct != nil && strings.Contains(ct.AssumeFacets, levelNames[lvl]) {
				fmt.Printf("%s [%s]: assumed (assumefacet)\n", name, levelNames[lvl])
				continue
			}
			fr := E.Encode(name, lvl)
			if fr.Unsupported != "" {
				fmt.Printf("%s [%s]: UNSUPPORTED %s\n", name, fr.Level, fr.Unsupported)
				bad++
				continue
			}
			rs := DischargeAll(fr.Obls, *timeout, 16, false)
			ok := 0
			for _, r := range rs {
				if r.Status == "discharged" || r.Status == "cover-undecided" {
					ok++
					if *dumpAll && *dump != "" {
						DumpQuery(r.O, *dump)
					}
					if *verbose {
						fmt.Printf("   ok   %s (%s %.2fs)\n", r.O.Name, r.Solver, r.Seconds)
					}
				} else {
					bad++
					fmt.Printf("   %s %s (%s: %s %.2fs) at %s\n", strings.ToUpper(r.Status), r.O.Name, r.Solver, r.Answer, r.Seconds, shortFile(r.O.Pos))
					if *dump != "" {
						fmt.Println("      query:", DumpQuery(r.O, *dump))
					}
				}
			}
			fmt.Printf("%s [%s]: %d/%d discharged\n", name, fr.Level, ok, len(rs))
			if *verbose {
				for _, n := range fr.Notes {
					fmt.Println("   note:", n)
				}
			}
		}
	}
	if bad > 0 {
		return 1
	}
	return 0
}

func cmdModel(args []string) int {
	if len(args) < 1 {
		return 2
	}
	data, err := os.ReadFile(args[0])
	if err != nil {
		fmt.Println(err)
		return 2
	}
	prefixes := args[1:]
	if len(prefixes) == 0 {
		prefixes = []string{"reach.", "p.", "exit.", "cond"}
	}
	var names []string
	for _, line := range strings.Split(string(data), "\n") {
		var name string
		if strings.HasPrefix(line, "(define-fun ") {
			f := strings.Fields(line)
			if len(f) > 3 && (f[3] == "Bool" || f[3] == "Int") {
				name = f[1]
			}
		} else if strings.HasPrefix(line, "(declare-const ") {
			f := strings.Fields(line)
			if len(f) > 2 && (strings.HasPrefix(f[2], "Bool") || strings.HasPrefix(f[2], "Int")) {
				name = f[1]
			}
		}
		if name == "" {
			continue
		}
		for _, p := range prefixes {
			if strings.HasPrefix(name, p) {
				names = append(names, name)
				break
			}
		}
	}
	q := string(data) + "(get-value (" + strings.Join(names, " ") + "))\n"
	tmp := args[0] + ".model.smt2"
	os.WriteFile(tmp, []byte(q), 0o644)
	defer os.Remove(tmp)
	_, out, _ := runSolver(Solvers[0], 30, tmp)
	out = strings.ReplaceAll(out, ")\n (", ")\n(")
	for _, l := range strings.Split(out, "\n") {
		if strings.Contains(l, " false)") {
			continue
		}
		fmt.Println(l)
	}
	return 0
}

func cmdSummary(args []string) int {
	P, err := Load("/repo")
	if err != nil {
		fmt.Println(err)
		return 2
	}
	S, _ := LoadSpecs("/repo", "/verif/contracts")
	E := NewEngine(P, S)
	for _, n := range args {
		fn := P.Funcs[n]
		if fn == nil {
			fmt.Println("no such function", n)
			continue
		}
		s := E.SummaryOf(fn)
		fmt.Printf("%s: ret=%v\n", n, s.Ret)
		for r, keys := range s.Mod {
			var ks []string
			for k := range keys {
				ks = append(ks, k)
			}
			fmt.Printf("   root %d: %v\n", r, ks)
		}
		for _, g := range s.GW {
			fmt.Printf("   global write at %s via %s\n", shortFile(g.Pos), g.Via)
		}
	}
	return 0
}

package vc

import (
	"flag"
	"fmt"
	"strings"
)

func Main(args []string) int {
	if len(args) == 0 {
		fmt.Println("usage: vcgo dump|check|list ...")
		return 2
	}
	switch args[0] {
	case "dump":
		fs := flag.NewFlagSet("dump", flag.ExitOnError)
		repo := fs.String("repo", "/repo", "repository")
		fs.Parse(args[1:])
		P, err := Load(*repo)
		if err != nil {
			fmt.Println(err)
			return 2
		}
		for _, n := range fs.Args() {
			P.Dump(n)
		}
		return 0
	case "check":
		return cmdCheck(args[1:])
	case "verify":
		return cmdVerify(args[1:])
	case "list":
		P, err := Load("/repo")
		if err != nil {
			fmt.Println(err)
			return 2
		}
		for _, n := range P.SortedFuncNames() {
			fmt.Println(n)
		}
		return 0
	}
	return 2
}

func cmdVerify(args []string) int {
	fs := flag.NewFlagSet("verify", flag.ExitOnError)
	repo := fs.String("repo", "/repo", "repository")
	mirror := fs.String("mirror", "/verif/contracts", "contract mirror")
	timeout := fs.Int("timeout", 10, "solver timeout (s)")
	dump := fs.String("dump", "", "directory to dump failed queries")
	verbose := fs.Bool("v", false, "verbose")
	fs.Parse(args)
	P, err := Load(*repo)
	if err != nil {
		fmt.Println(err)
		return 2
	}
	S, err := LoadSpecs(*repo, *mirror)
	if err != nil {
		fmt.Println(err)
		return 2
	}
	E := NewEngine(P, S)
	bad := 0
	for _, name := range fs.Args() {
		for _, lvl := range E.LevelsOf(name) {
			fr := E.Encode(name, lvl)
			if fr.Unsupported != "" {
				fmt.Printf("%s [%s]: UNSUPPORTED %s\n", name, fr.Level, fr.Unsupported)
				bad++
				continue
			}
			rs := DischargeAll(fr.Obls, *timeout, 16, false)
			ok := 0
			for _, r := range rs {
				if r.Status == "discharged" || r.Status == "cover-undecided" {
					ok++
					if *verbose {
						fmt.Printf("   ok   %s (%s %.2fs)\n", r.O.Name, r.Solver, r.Seconds)
					}
				} else {
					bad++
					fmt.Printf("   %s %s (%s: %s %.2fs) at %s\n", strings.ToUpper(r.Status), r.O.Name, r.Solver, r.Answer, r.Seconds, shortFile(r.O.Pos))
					if *dump != "" {
						fmt.Println("      query:", DumpQuery(r.O, *dump))
					}
				}
			}
			fmt.Printf("%s [%s]: %d/%d discharged\n", name, fr.Level, ok, len(rs))
			if *verbose {
				for _, n := range fr.Notes {
					fmt.Println("   note:", n)
				}
			}
		}
	}
	if bad > 0 {
		return 1
	}
	return 0
}

package vc

import (
	"bytes"
	"context"
	"fmt"
	"os"
	"os/exec"
	"path/filepath"
	"strings"
	"sync"
	"time"
)

// Result of discharging one obligation.
type Result struct {
	O       *Obligation
	Status  string // "discharged", "failed" (counterexample / cover unsat), "unknown"
	Solver  string
	Answer  string // raw first line
	Seconds float64
	Model   map[string]string // probe label -> value
	Output  string
}

type SolverCfg struct {
	Name string
	Args func(timeoutS int, file string) []string
}

var Solvers = []SolverCfg{
	{"z3-new", func(t int, f string) []string { return []string{"z3-new", fmt.Sprintf("-T:%d", t), f} }},
	{"z3", func(t int, f string) []string { return []string{"z3", fmt.Sprintf("-T:%d", t), f} }},
	{"cvc5", func(t int, f string) []string {
		return []string{"cvc5", fmt.Sprintf("--tlimit=%d", t*1000), "--produce-models", f}
	}},
	// same solver without E-matching (model-based quantifier instantiation only): decides goals on which the
	// multi-pattern axioms of the run-end functions make E-matching diverge
	{"z3-new/mbqi", func(t int, f string) []string {
		return []string{"z3-new", fmt.Sprintf("-T:%d", t), "smt.ematching=false", f}
	}},
}

// WorkDir is where query files are written.
var WorkDir = "/verif/work"

func runSolver(cfg SolverCfg, timeoutS int, file string) (answer, out string, secs float64) {
	return runSolverCtx(context.Background(), cfg, timeoutS, file)
}

func runSolverCtx(parent context.Context, cfg SolverCfg, timeoutS int, file string) (answer, out string, secs float64) {
	args := cfg.Args(timeoutS, file)
	ctx, cancel := context.WithTimeout(parent, time.Duration(timeoutS+2)*time.Second)
	defer cancel()
	cmd := exec.CommandContext(ctx, args[0], args[1:]...)
	var buf bytes.Buffer
	cmd.Stdout = &buf
	cmd.Stderr = &buf
	t0 := time.Now()
	cmd.Run()
	secs = time.Since(t0).Seconds()
	out = buf.String()
	first := strings.TrimSpace(strings.SplitN(out, "\n", 2)[0])
	switch first {
	case "sat", "unsat", "unknown", "timeout":
		answer = first
	default:
		if ctx.Err() != nil || strings.Contains(first, "interrupted by timeout") {
			answer = "timeout"
		} else {
			answer = "error"
		}
	}
	return
}

// Discharge runs the portfolio on one obligation.
func Discharge(o *Obligation, timeoutS int, allSolvers bool) *Result {
	r := &Result{O: o}
	if o.Expect == "unsat" && o.Goal == True {
		r.Status, r.Solver, r.Answer = "discharged", "simplifier", "trivial"
		return r
	}
	os.MkdirAll(WorkDir, 0o755)
	f, err := os.CreateTemp(WorkDir, "q*.smt2")
	if err != nil {
		r.Status, r.Output = "unknown", err.Error()
		return r
	}
	q := o.Query(Prelude)
	f.WriteString(q)
	f.Close()
	defer os.Remove(f.Name())
	// first attempt: the query sliced to the goal's definitional cone (fewer quantified frames); unsat is conclusive
	if o.Expect == "unsat" {
		if sq, ok := o.SlicedQuery(Prelude); ok {
			if sf, err := os.CreateTemp(WorkDir, "s*.smt2"); err == nil {
				sf.WriteString(sq)
				sf.Close()
				to := timeoutS
				if to > 5 {
					to = 5
				}
				ans, _, secs := runSolver(Solvers[0], to, sf.Name())
				os.Remove(sf.Name())
				r.Seconds += secs
				if ans == "unsat" {
					r.Status, r.Solver, r.Answer = "discharged", Solvers[0].Name+"/sliced", ans
					return r
				}
			}
		}
	}
	// second attempt: the abstracted query (control-flow skeleton + the heap arrays of the goal; unsat is conclusive) and
	// the full query with the short budget, run side by side: whichever decides first wins, so that an abstraction that does
	// not help costs no waiting time
	stage1Done := false
	var stage1Ans, stage1Out string
	if o.Expect == "unsat" && o.Kind != "cover" {
		if aq, ok := o.AbstractQuery(Prelude); ok {
			if af, err := os.CreateTemp(WorkDir, "a*.smt2"); err == nil {
				af.WriteString(aq)
				af.Close()
				if os.Getenv("VCGO_DUMPABS") != "" {
					os.WriteFile(filepath.Join(WorkDir, "abs_"+sanitize(o.Name)+".smt2"), []byte(aq), 0o644)
				}
				to := timeoutS
				if to > 5 {
					to = 5
				}
				short := timeoutS
				if short > 4 {
					short = 4
				}
				type part struct {
					abs      bool
					ans, out string
				}
				ctx, cancel := context.WithCancel(context.Background())
				ch := make(chan part, 2)
				t0 := time.Now()
				go func() {
					a, o2, _ := runSolverCtx(ctx, Solvers[0], to, af.Name())
					ch <- part{true, a, o2}
				}()
				go func() {
					a, o2, _ := runSolverCtx(ctx, Solvers[0], short, f.Name())
					ch <- part{false, a, o2}
				}()
				decided := false
				for k := 0; k < 2 && !decided; k++ {
					pr := <-ch
					if pr.abs {
						if pr.ans == "unsat" {
							r.Status, r.Solver, r.Answer = "discharged", Solvers[0].Name+"/abstracted", pr.ans
							decided = true
						}
					} else {
						stage1Done, stage1Ans, stage1Out = true, pr.ans, pr.out
						if pr.ans == "unsat" || pr.ans == "sat" {
							decided = true
						}
					}
				}
				cancel()
				r.Seconds += time.Since(t0).Seconds()
				os.Remove(af.Name())
				if r.Status == "discharged" {
					return r
				}
			}
		}
	}
	if o.Kind == "cover" {
		// vacuity guards: short budget, first solver only
		ans, out, secs := runSolver(Solvers[0], 3, f.Name())
		r.Seconds += secs
		r.Solver, r.Answer, r.Output = Solvers[0].Name, ans, out
		if ans == o.Expect {
			r.Status = "discharged"
			return r
		}
		if ans == "sat" || ans == "unsat" {
			r.Status = "failed"
			return r
		}
		r.Status = "cover-undecided"
		return r
	}
	finish := func(s SolverCfg, ans, out string) bool {
		r.Solver, r.Answer, r.Output = s.Name, ans, out
		if ans == o.Expect {
			r.Status = "discharged"
			return true
		}
		if ans == "sat" || ans == "unsat" {
			r.Status = "failed"
			if ans == "sat" {
				r.Model = parseModel(o, out)
				if m := smallModel(o, s, q); m != nil {
					r.Model = m
				}
			}
			return true
		}
		return false
	}
	// stage 1: the first solver alone with a short budget (decides almost everything)
	short := timeoutS
	if short > 4 {
		short = 4
	}
	if stage1Done {
		if finish(Solvers[0], stage1Ans, stage1Out) {
			return r
		}
	} else {
		ans, out, secs := runSolver(Solvers[0], short, f.Name())
		r.Seconds += secs
		if finish(Solvers[0], ans, out) {
			return r
		}
	}
	// stage 2: race the whole portfolio with the full budget; the first definite answer wins
	type answer struct {
		s        SolverCfg
		ans, out string
	}
	ctx, cancel := context.WithCancel(context.Background())
	defer cancel()
	ch := make(chan answer, len(Solvers))
	t0 := time.Now()
	n := 0
	for i, s := range Solvers {
		if i == 0 && short == timeoutS {
			continue // already had the full budget
		}
		n++
		go func(s SolverCfg) {
			a, o2, _ := runSolverCtx(ctx, s, timeoutS, f.Name())
			ch <- answer{s, a, o2}
		}(s)
	}
	for ; n > 0; n-- {
		a := <-ch
		if a.ans == "sat" || a.ans == "unsat" {
			cancel()
			r.Seconds += time.Since(t0).Seconds()
			finish(a.s, a.ans, a.out)
			return r
		}
		r.Solver, r.Answer, r.Output = a.s.Name, a.ans, a.out
	}
	r.Seconds += time.Since(t0).Seconds()
	r.Status = "unknown"
	if o.Kind == "cover" {
		// a vacuity guard that no solver could decide is not a failed proof; it is reported as undecided
		r.Status = "cover-undecided"
	}
	return r
}

// parseModel reads the (get-value ...) answer.
func parseModel(o *Obligation, out string) map[string]string {
	m := map[string]string{}
	k := strings.Index(out, "((")
	if k < 0 {
		return m
	}
	body := out[k:]
	// tokens: ((term value) (term value) ...)
	vals := splitTopLevel(body)
	for i, p := range o.Probes {
		if i < len(vals) {
			// value is the last s-expression inside the pair
			parts := splitTopLevel(vals[i])
			if len(parts) >= 2 {
				m[p.Label] = normNum(parts[len(parts)-1])
			}
		}
	}
	return m
}

// splitTopLevel splits "(a b (c d))" into its top-level elements.
func splitTopLevel(s string) []string {
	s = strings.TrimSpace(s)
	if len(s) < 2 || s[0] != '(' {
		return nil
	}
	// find matching close
	depth := 0
	end := -1
	for i, c := range s {
		if c == '(' {
			depth++
		} else if c == ')' {
			depth--
			if depth == 0 {
				end = i
				break
			}
		}
	}
	if end < 0 {
		return nil
	}
	inner := s[1:end]
	var out []string
	depth = 0
	start := -1
	for i := 0; i < len(inner); i++ {
		c := inner[i]
		switch {
		case c == '(':
			if depth == 0 && start < 0 {
				start = i
			}
			depth++
		case c == ')':
			depth--
			if depth == 0 {
				out = append(out, inner[start:i+1])
				start = -1
			}
		case c == ' ' || c == '\n' || c == '\t':
			if depth == 0 && start >= 0 {
				out = append(out, inner[start:i])
				start = -1
			}
		default:
			if depth == 0 && start < 0 {
				start = i
			}
		}
	}
	if start >= 0 {
		out = append(out, inner[start:])
	}
	return out
}

func normNum(s string) string {
	s = strings.TrimSpace(s)
	if strings.HasPrefix(s, "(- ") && strings.HasSuffix(s, ")") {
		return "-" + strings.TrimSpace(s[3:len(s)-1])
	}
	return s
}

// DischargeAll runs obligations on a worker pool.
func DischargeAll(obls []*Obligation, timeoutS, workers int, allSolvers bool) []*Result {
	res := make([]*Result, len(obls))
	var wg sync.WaitGroup
	ch := make(chan int)
	for w := 0; w < workers; w++ {
		wg.Add(1)
		go func() {
			defer wg.Done()
			for i := range ch {
				res[i] = Discharge(obls[i], timeoutS, allSolvers)
			}
		}()
	}
	for i := range obls {
		ch <- i
	}
	close(ch)
	wg.Wait()
	return res
}

// DumpQuery writes the query of an obligation to a file (for debugging and replay files).
func DumpQuery(o *Obligation, dir string) string {
	os.MkdirAll(dir, 0o755)
	p := filepath.Join(dir, sanitize(o.Name)+".smt2")
	os.WriteFile(p, []byte(o.Query(Prelude)), 0o644)
	return p
}

// smallModel asks the solver again for a counterexample whose slices and strings are short, so that the
// probed elements describe the whole pre-state and the replay on the real code is faithful.
func smallModel(o *Obligation, s SolverCfg, q string) map[string]string {
	var extra []string
	for _, p := range o.Probes {
		switch {
		case strings.HasSuffix(p.Label, ".len"):
			extra = append(extra, "(assert (<= "+p.T+" 24))")
		case strings.HasSuffix(p.Label, ".cap"):
			extra = append(extra, "(assert (<= "+p.T+" 32))")
		}
	}
	if len(extra) == 0 {
		return nil
	}
	k := strings.LastIndex(q, "(check-sat)")
	if k < 0 {
		return nil
	}
	q2 := q[:k] + strings.Join(extra, "\n") + "\n" + q[k:]
	f, err := os.CreateTemp(WorkDir, "m*.smt2")
	if err != nil {
		return nil
	}
	f.WriteString(q2)
	f.Close()
	defer os.Remove(f.Name())
	ans, out, _ := runSolver(s, 5, f.Name())
	if ans != "sat" {
		return nil
	}
	return parseModel(o, out)
}

package vc

import (
	"fmt"
	"go/token"
	"go/types"
	"sort"
	"strings"

	"golang.org/x/tools/go/ssa"
)

func (fr *frame) call(instr *ssa.Call, c *ssa.CallCommon, st *State) Value {
	fx := fr.fx
	pos := c.Pos()
	var resT types.Type
	if instr != nil {
		resT = instr.Type()
	} else {
		resT = c.Signature().Results()
	}
	if bi, ok := c.Value.(*ssa.Builtin); ok {
		return fr.builtin(bi, c, st, resT, pos)
	}
	var args []Value
	if c.IsInvoke() {
		args = append(args, fr.val(c.Value))
	}
	for _, a := range c.Args {
		args = append(args, fr.val(a))
	}
	targets, ext, dyn := fx.E.callTargets(c)
	// obligations a depth guard attaches to every call that may lead back to it
	if fr.contract != nil && fr.prefix == "" && len(fr.contract.AtCalls) > 0 {
		comp := fx.E.recursiveComponent(fr.fn)
		rec := false
		for _, t := range targets {
			if comp[t] {
				rec = true
			}
		}
		if rec {
			ev := fr.env(st, fr.entry, nil)
			ev.local = nil
			for _, ac := range fr.contract.AtCalls {
				if facetLevel[ac.Facet] != fr.level {
					continue
				}
				t, err := ev.EvalBool(ac.E)
				if err != nil {
					fr.specError(ac, err)
					continue
				}
				what := clauseName(ac)
				if len(targets) > 0 {
					what += "." + targets[0].Name()
				}
				fr.obligeSplit("atcall", what, t, pos, ac.Facet, ac.Tags)
			}
		}
	}
	// assertions the function under verification makes about its own calls of a named function
	if fr.contract != nil && fr.prefix == "" && len(fr.contract.CallSites) > 0 {
		for _, cs := range fr.contract.CallSites {
			hit := false
			for _, t := range targets {
				if fx.E.P.Names[t] == cs.Callee {
					hit = true
				}
			}
			if !hit && ext != nil && extName(ext) == cs.Callee {
				hit = true
			}
			if !hit {
				continue
			}
			if fr.csHit == nil {
				fr.csHit = map[*CallSite]bool{}
			}
			fr.csHit[cs] = true
			if facetLevel[cs.C.Facet] != fr.level {
				continue
			}
			ev := fr.env(st, fr.entry, nil)
			for i, a := range args {
				ev = ev.bind(fmt.Sprintf("arg%d", i), a)
			}
			t, err := ev.EvalBool(cs.C.E)
			if err != nil {
				fr.specError(cs.C, err)
				continue
			}
			fr.obligeSplit("callsite", clauseName(cs.C)+"."+cs.Callee, t, pos, cs.C.Facet, cs.C.Tags)
		}
	}
	if c.IsInvoke() {
		recv := args[0]
		fr.oblige("nil", exprName(c.Value)+"."+c.Method.Name(), Ne(recv.Tag, "0"), pos)
		if ict := fx.E.S.Contracts[ifaceKey(c.Value.Type(), c.Method.Name())]; ict != nil && len(targets) > 0 {
			// behavioural contract of the interface method (every repository implementation is verified against it)
			m := fx.E.callMods(c)
			if ict.Pure {
				m = &ModSet{Keys: map[string]bool{}}
			} else if len(ict.Modifies) > 0 {
				// declared frame of the interface method (ownership assumption: the back end does not write its client)
				m = &ModSet{Keys: map[string]bool{}}
				for _, k := range ict.Modifies {
					if k != "nothing" {
						m.Keys[k] = true
					}
				}
				fx.note("assumed frame of %s: writes only %v (a back end never writes the BinaryReader that owns it)", ifaceKey(c.Value.Type(), c.Method.Name()), ict.Modifies)
			}
			fr.ifaceMods = m
			defer func() { fr.ifaceMods = nil }()
			res := fr.callContract(targets[0], ict, args, st, resT, pos, nil)
			if ict.Pure && res.Kind == KInt {
				if fx.enc.ghosts == nil {
					fx.enc.ghosts = map[string]int{}
				}
				g := "pure." + sanitize(ifaceKey(c.Value.Type(), c.Method.Name()))
				fx.enc.ghosts[g] = 1
				fr.assume(Eq(res.T, app("g!"+g, recv.T)))
			}
			return res
		}
	}
	if !dyn && len(targets) == 1 {
		callee := targets[0]
		name := FuncName(callee)
		if mc, ok := c.Value.(*ssa.MakeClosure); ok {
			_ = mc
			fr.unsupported("direct call of a closure literal")
		}
		// receiver nil check is done by the callee's own dereferences; for contracts we need non-nil receivers explicitly
		if ct := fx.E.effectiveContract(name); ct != nil && !ct.Inline {
			return fr.callContract(callee, ct, args, st, resT, pos, c)
		}
		if fr.canInline(callee) {
			return fr.inline(callee, args, st, resT, pos)
		}
		fx.note("call to %s abstracted: no contract and not inlinable (result and written fields unconstrained)", name)
		pre := st.Clone()
		r := fr.havocCall(fx.E.modset(callee), st, resT, name)
		fr.assumeFreshResults(callee, r, pre)
		return r
	}
	if ext != nil {
		if ect := fx.E.S.Contracts["extern:"+extName(ext)]; ect != nil && len(ext.Params) == len(args) {
			fx.note("assumed contract of external function %s", extName(ext))
			return fr.callContract(ext, ect, args, st, resT, pos, nil)
		}
		if r, ok := fr.externalCall(ext, args, st, resT, pos); ok {
			return r
		}
		fx.note("external call %s: assumed to write only memory reachable from its arguments; result unconstrained", extName(ext))
		return fr.havocCall(fx.E.externalModset(ext, c.Args), st, resT, extName(ext))
	}
	// call through a function-typed parameter that has a behavioural contract
	if !c.IsInvoke() && fr.contract != nil && fr.prefix == "" {
		if p := paramOfValue(c.Value); p != nil {
			if fp, ok := fr.contract.FuncParams[p.Name()]; ok {
				like := fx.E.P.Funcs[fp.Like]
				lct := fx.E.S.Contracts[fp.Like]
				recv, okr := fr.params[fp.Recv]
				if like != nil && lct != nil && okr {
					fr.viaFuncParam = true
					defer func() { fr.viaFuncParam = false }()
					// self() in the shared contract denotes the function value actually passed
					fr.dynSelf = fr.val(c.Value).T
					defer func() { fr.dynSelf = "" }()
					return fr.callContract(like, lct, append([]Value{recv}, args...), st, resT, pos, nil)
				}
			}
		}
	}
	// dynamic call with a declared behavioural contract (function values kept in data structures)
	if !c.IsInvoke() && fr.contract != nil && fr.contract.DynCall != nil && fr.prefix == "" {
		dc := fr.contract.DynCall
		like := fx.E.P.Funcs[dc.Like]
		lct := fx.E.effectiveContract(dc.Like)
		if like != nil && lct != nil {
			// the callee value must be one of the functions sharing that contract
			fv := fr.val(c.Value)
			var alts []Term
			var names []string
			for n, f := range fx.E.P.Funcs {
				if types.Identical(f.Signature, like.Signature) && sameContract(fx.E.effectiveContract(n), lct) {
					names = append(names, n)
				}
			}
			sort.Strings(names)
			for _, n := range names {
				alts = append(alts, Eq(fv.T, fx.funcID(n)))
			}
			o := fx.enc.Oblige(fx.root, "dyncall", "target", Implies(fr.curReach, Or(alts...)), fr.pos(pos))
			o.Facet = "S"
			fr.assume(Or(alts...))
			fr.dynSelf = fv.T
			defer func() { fr.dynSelf = "" }()
			return fr.callContract(like, lct, args, st, resT, pos, nil)
		}
	}
	// dynamic call
	m := fx.E.callMods(c)
	what := "function value"
	if c.IsInvoke() {
		what = "interface method " + c.Method.Name()
	}
	fx.note("dynamic call (%s): targets resolved by signature/implementation; effects havocked at field granularity", what)
	if !c.IsInvoke() {
		fr.oblige("nil", exprName(c.Value)+"()", Ne(fr.val(c.Value).T, "0"), pos)
	}
	return fr.havocCall(m, st, resT, what)
}

func (fr *frame) havocCall(m *ModSet, st *State, resT types.Type, what string) Value {
	fx := fr.fx
	if m.All {
		fr.unsupported("call with unknown effects: %s", what)
	}
	var keys []string
	for k := range m.Keys {
		keys = append(keys, k)
	}
	sort.Strings(keys)
	fx.havocKeys(st, keys)
	nb := fx.enc.Decl("brk.call", "Int")
	fx.enc.Assume(Ge(nb, fx.brkOf(st)))
	st.Brk = nb
	r := fr.freshResult(resT)
	fx.assumeBelowBrk(r, st)
	return r
}

func (fr *frame) freshResult(resT types.Type) Value {
	if resT == nil {
		return Value{Kind: KTuple}
	}
	if t, ok := resT.(*types.Tuple); ok && t.Len() == 0 {
		return Value{Kind: KTuple}
	}
	return fr.fx.sym("ret", resT)
}

// canInline: loop-free or annotated, not recursive, within depth.
func (fr *frame) canInline(callee *ssa.Function) bool {
	fx := fr.fx
	if fr.depth >= fx.E.MaxInline || len(callee.Blocks) == 0 {
		return false
	}
	for f := fr; f != nil; f = f.parent {
		if f.fn == callee {
			return false
		}
	}
	if fx.E.recursive(callee) {
		return false
	}
	li := fx.E.loops(callee)
	if li.irreducible {
		return false
	}
	if len(li.loops) > 0 {
		// loops need invariants from a contract marked inline
		ct := fx.E.S.Contracts[FuncName(callee)]
		if ct == nil {
			return false
		}
	}
	n := 0
	for _, b := range callee.Blocks {
		n += len(b.Instrs)
	}
	return n <= 400
}

// recursive reports whether fn can reach itself through static calls.
func (E *Engine) recursive(fn *ssa.Function) bool {
	seen := map[*ssa.Function]bool{}
	var visit func(f *ssa.Function) bool
	visit = func(f *ssa.Function) bool {
		for _, b := range f.Blocks {
			for _, ins := range b.Instrs {
				if ci, ok := ins.(ssa.CallInstruction); ok {
					targets, _, _ := E.callTargets(ci.Common())
					for _, t := range targets {
						if t == fn {
							return true
						}
						if !seen[t] {
							seen[t] = true
							if visit(t) {
								return true
							}
						}
					}
				}
			}
		}
		return false
	}
	return visit(fn)
}

func (fr *frame) bindParams(callee *ssa.Function, args []Value) map[string]Value {
	ps := map[string]Value{}
	for i, p := range callee.Params {
		if i < len(args) {
			v := args[i]
			v.Typ = p.Type()
			ps[p.Name()] = v
		}
	}
	return ps
}

func (fr *frame) inline(callee *ssa.Function, args []Value, st *State, resT types.Type, pos token.Pos) Value {
	fx := fr.fx
	name := FuncName(callee)
	sub := &frame{fx: fx, fn: callee, name: name, vals: map[ssa.Value]Value{}, params: fr.bindParams(callee, args),
		entry: st.Clone(), prefix: fr.prefix + "inl(" + name + ").", depth: fr.depth + 1, level: fr.level,
		contract: fx.E.S.Contracts[name], parent: fr}
	for i, p := range callee.Params {
		if i < len(args) {
			v := args[i]
			v.Typ = p.Type()
			sub.vals[p] = v
		}
	}
	if len(callee.FreeVars) > 0 {
		fr.unsupported("inlining a closure with free variables")
	}
	exit, results, exitReach := sub.run(st.Clone(), fr.curReach)
	// continue in the caller under the callee's exit condition
	*st = *exit
	_ = exitReach
	// paths on which the callee does not return (panic) are excluded: they were reported as obligations
	fr.curReachNarrow(exitReach)
	switch len(results) {
	case 0:
		return Value{Kind: KTuple}
	case 1:
		return results[0]
	}
	return Value{Kind: KTuple, Elems: results, Typ: resT}
}

// curReachNarrow restricts the current reachability (after a call that may not return).
func (fr *frame) curReachNarrow(c Term) {
	if c == fr.curReach {
		return
	}
	fr.curReach = fr.fx.enc.Def("reach.after", "Bool", And(fr.curReach, c))
}

// callContract applies a callee's contract: check requires, havoc its write set, assume ensures.
func (fr *frame) callContract(callee *ssa.Function, ct *Contract, args []Value, st *State, resT types.Type, pos token.Pos, cc *ssa.CallCommon) Value {
	fx := fr.fx
	name := FuncName(callee)
	sub := &frame{fx: fx, fn: callee, name: name, params: fr.bindParams(callee, args), level: fr.level, prefix: fr.prefix, depth: fr.depth, curReach: fr.curReach, selfT: fr.dynSelf}
	pre := st.Clone()
	if !ct.Extern && !ct.Trusted && callee.Blocks != nil {
		fx.note("callee-contract:%s@%d", name, fr.level)
	}
	if callee.Signature.Recv() != nil && len(args) > 0 && !ct.Extern && fr.ifaceMods == nil {
		if _, ok := under(callee.Params[0].Type()).(*types.Pointer); ok {
			fr.oblige("nil", "recv."+callee.Name(), Ne(args[0].T, "0"), pos)
		}
	}
	if cc != nil && len(ct.FuncParams) > 0 {
		fr.checkFuncParams(callee, ct, cc, args, pos)
	}
	if cc != nil && len(ct.MapSpecs) > 0 {
		// the caller must pass a map for which it assumes the same property itself (its own parameter with the same mapspec)
		for pname, ms := range ct.MapSpecs {
			ok := False
			for i, p := range callee.Params {
				if p.Name() != pname || i >= len(cc.Args) {
					continue
				}
				if q := paramOfValue(cc.Args[i]); q != nil && fr.contract != nil && fr.prefix == "" {
					if mine := fr.contract.MapSpecs[q.Name()]; mine != nil && strings.Join(strings.Fields(mine.Src), " ") == strings.Join(strings.Fields(ms.Src), " ") {
						ok = True
					}
				}
			}
			o := fx.enc.Oblige(fx.root, "mapspec", fr.prefix+callee.Name()+"."+pname, Implies(fr.curReach, ok), fr.pos(pos))
			o.Facet = "S"
		}
	}
	ev := sub.env(st, pre, nil)
	ev.local = nil
	for _, group := range [][]*Clause{ct.Requires, ct.Preserves} {
		for _, c := range group {
			if facetLevel[c.Facet] > fr.level {
				continue
			}
			t, err := ev.EvalBool(c.E)
			if err != nil {
				fr.specError(c, fmt.Errorf("at call to %s: %v", name, err))
				continue
			}
			if hasTag(c, "assumed") {
				// assumption about the callee's pre-state that is not established by callers (listed in the evidence)
				continue
			}
			if facetLevel[c.Facet] == fr.level {
				fr.obligeSplit("pre", callee.Name()+"."+clauseName(c), t, pos, c.Facet, nil)
			}
			fr.assume(t)
		}
	}
	// effects
	m := fx.E.modset(callee)
	if fr.ifaceMods != nil {
		m = fr.ifaceMods
	}
	if ct.Pure {
		m = &ModSet{Keys: map[string]bool{}}
	}
	var res Value
	if m.All {
		fr.unsupported("contracted callee %s has unknown effects", name)
	}
	var keys []string
	for k := range m.Keys {
		keys = append(keys, k)
	}
	sort.Strings(keys)
	fx.havocKeys(st, keys)
	if len(keys) > 0 || fx.E.allocates(callee) {
		nb := fx.enc.Decl("brk.call", "Int")
		fx.enc.Assume(Ge(nb, fx.brkOf(st)))
		st.Brk = nb
	}
	res = fr.freshResult(resT)
	fx.assumeBelowBrk(res, st)
	fr.assumeFreshResults(callee, res, pre)
	ev2 := sub.env(st, pre, nil)
	ev2.local = nil
	bindResults(ev2, callee, res)
	for _, group := range [][]*Clause{ct.Ensures, ct.Preserves} {
		for _, c := range group {
			if facetLevel[c.Facet] > fr.level {
				continue
			}
			if fr.viaFuncParam && strings.HasPrefix(c.Label, "own") {
				continue // clause specific to the concrete method, not part of the behavioural interface
			}
			if hasTag(c, "local") {
				continue // proved for the function itself, deliberately not exported to callers (keeps their queries small)
			}
			t, err := ev2.EvalBool(c.E)
			if err != nil {
				fr.specError(c, fmt.Errorf("at call to %s: %v", name, err))
				continue
			}
			if hasTag(c, "ghost") {
				fx.note("ghost model clause assumed at calls of %s: %s", name, clauseName(c))
			} else if hasTag(c, "assumed") {
				fx.note("ASSUMED without proof (clause tagged assumed) at calls of %s: %s", name, clauseName(c))
			}
			fr.assume(t)
		}
	}
	if ct.Trusted {
		fx.note("trusted contract (body not verified): %s", name)
	}
	return res
}

func bindResults(ev *Env, fn *ssa.Function, res Value) {
	rs := fn.Signature.Results()
	switch rs.Len() {
	case 0:
	case 1:
		ev.vars["result"] = res
		ev.vars["result0"] = res
		if n := rs.At(0).Name(); n != "" && n != "_" {
			ev.vars[n] = res
		}
	default:
		for i := 0; i < rs.Len() && i < len(res.Elems); i++ {
			ev.vars[fmt.Sprintf("result%d", i)] = res.Elems[i]
			if n := rs.At(i).Name(); n != "" && n != "_" {
				ev.vars[n] = res.Elems[i]
			}
		}
	}
}

// allocates reports whether a function may allocate (conservatively true for anything with calls/allocs).
func (E *Engine) allocates(fn *ssa.Function) bool {
	for _, b := range fn.Blocks {
		for _, ins := range b.Instrs {
			switch x := ins.(type) {
			case *ssa.Alloc:
				if !isCell(x) {
					return true
				}
			case *ssa.MakeSlice, *ssa.MakeInterface, *ssa.MakeClosure, *ssa.MakeMap, *ssa.Convert:
				return true
			case ssa.CallInstruction:
				if _, ok := x.Common().Value.(*ssa.Builtin); ok {
					if x.Common().Value.Name() == "append" {
						return true
					}
					continue
				}
				return true
			}
		}
	}
	return false
}

// ---------------------------------------------------------------- builtins

func (fr *frame) builtin(bi *ssa.Builtin, c *ssa.CallCommon, st *State, resT types.Type, pos token.Pos) Value {
	fx := fr.fx
	switch bi.Name() {
	case "len":
		v := fr.val(c.Args[0])
		switch v.Kind {
		case KSlice, KString:
			return IntV(v.Len, tInt)
		case KArray:
			return IntV(Num(under(v.Typ).(*types.Array).Len()), tInt)
		}
		if _, ok := under(c.Args[0].Type()).(*types.Map); ok {
			n := fx.enc.Decl("maplen", "Int")
			fx.enc.Assume(Ge(n, "0"))
			return IntV(n, tInt)
		}
		fr.unsupported("len of %v", c.Args[0].Type())
	case "cap":
		v := fr.val(c.Args[0])
		if v.Kind == KSlice {
			return IntV(v.Cap, tInt)
		}
		fr.unsupported("cap of %v", c.Args[0].Type())
	case "append":
		return fr.appendBuiltin(c, st, pos)
	case "copy":
		return fr.copyBuiltin(c, st, pos)
	case "ssa:deferstack":
		return IntV("0", resT)
	case "ssa:wrapnilchk":
		return fr.val(c.Args[0])
	case "min", "max":
		a, b := fr.val(c.Args[0]), fr.val(c.Args[1])
		if bi.Name() == "min" {
			return IntV(app("imin", a.T, b.T), resT)
		}
		return IntV(app("imax", a.T, b.T), resT)
	case "delete", "clear", "print", "println":
		return Value{Kind: KTuple}
	}
	fr.unsupported("builtin %s", bi.Name())
	return Value{}
}

// appendBuiltin models append(s, t...) with in-place growth when capacity allows.
func (fr *frame) appendBuiltin(c *ssa.CallCommon, st *State, pos token.Pos) Value {
	fx := fr.fx
	s := fr.val(c.Args[0])
	t := fr.val(c.Args[1])
	sl := under(c.Args[0].Type()).(*types.Slice)
	el := sl.Elem()
	esz := size(el)
	tlen := t.Len
	// the appended source is a slice or a string (append([]byte, string...))
	newLen := fx.enc.Def("ap.len", "Int", Add(s.Len, tlen))
	fits := fx.enc.Def("ap.fits", "Bool", Le(newLen, s.Cap))
	fresh := fx.enc.Decl("ap.new", "Int")
	ncap := fx.enc.Decl("ap.cap", "Int")
	fx.enc.Assume(And(Ge(fresh, fx.brkOf(st)), Gt(fresh, "0"), Ge(ncap, newLen), Le(ncap, Pow2(maxLenBits))))
	ptr := fx.enc.Def("ap.ptr", "Int", Ite(fits, s.T, fresh))
	rcap := fx.enc.Def("ap.rcap", "Int", Ite(fits, s.Cap, ncap))
	st.Brk = fx.enc.Def("brk", "Int", Ite(fits, fx.brkOf(st), Add(fresh, Mul(ncap, Num(esz)))))
	// appending nothing to nil stays nil
	if esz != 1 {
		// element-wise structure: havoc the element arrays in the written range (coarse)
		keys := fx.leafKeys(el, "M."+typeKey(el))
		// single-element append of a known struct value: write it precisely when in place is decidable
		if n, ok := isNumLit(tlen); ok && n == 1 {
			srcv := fx.loadAt(st, t.T, el, "M."+typeKey(el))
			// copy old elements when reallocated: not expressible without quantifiers over multi-slot elements; havoc then restore known element
			fr.copyElemsQuant(st, keys, s.T, ptr, Mul(s.Len, Num(esz)), fits)
			fx.storeAt(st, Add(ptr, Mul(s.Len, Num(esz))), el, "M."+typeKey(el), srcv)
		} else {
			fx.note("append of multi-slot elements: destination contents havocked")
			fx.havocKeys(st, keys)
		}
		return Value{Kind: KSlice, T: ptr, Len: newLen, Cap: rcap, Typ: c.Args[0].Type()}
	}
	// one-slot elements
	keys := fx.leafKeys(el, "M."+typeKey(el))
	if n, ok := isNumLit(tlen); ok && n <= 4 {
		// read sources first (they may alias the destination)
		var srcs []Value
		for i := int64(0); i < n; i++ {
			if t.Kind == KString {
				b := IntV(Select(fx.strMem(), Add(t.T, Num(i))), el)
				srcs = append(srcs, b)
			} else {
				srcs = append(srcs, fx.loadAt(st, Add(t.T, Num(i)), el, "M."+typeKey(el)))
			}
		}
		fr.copyElemsQuant(st, keys, s.T, ptr, s.Len, fits)
		for i := int64(0); i < n; i++ {
			fx.storeAt(st, Add(ptr, Add(s.Len, Num(i))), el, "M."+typeKey(el), srcs[i])
		}
		return Value{Kind: KSlice, T: ptr, Len: newLen, Cap: rcap, Typ: c.Args[0].Type()}
	}
	// general: new memory arrays with a quantified description
	for _, k := range keys {
		old := fx.heapOf(st, k)
		nm := fx.enc.Decl(k, fx.heapSort(k))
		fx.nq++
		q := fmt.Sprintf("k?%d", fx.nq)
		var src Term
		if t.Kind == KString {
			src = Select(fx.strMem(), Add(t.T, Sub(q, Add(ptr, s.Len))))
		} else {
			src = Select(old, Add(t.T, Sub(q, Add(ptr, s.Len))))
		}
		inOld := And(Le(ptr, q), Lt(q, Add(ptr, s.Len)))
		inNew := And(Le(Add(ptr, s.Len), q), Lt(q, Add(ptr, newLen)))
		fx.enc.Assume(Forall(q, Ite(inNew, Eq(Select(nm, q), src),
			Ite(inOld, Eq(Select(nm, q), Select(old, Add(s.T, Sub(q, ptr)))), Eq(Select(nm, q), Select(old, q))))))
		st.Heap[k] = nm
	}
	return Value{Kind: KSlice, T: ptr, Len: newLen, Cap: rcap, Typ: c.Args[0].Type()}
}

// copyElemsQuant: when append reallocates (not fits), the first n slots are copied from src to dst.
func (fr *frame) copyElemsQuant(st *State, keys []string, src, dst, n Term, fits Term) {
	fx := fr.fx
	for _, k := range keys {
		old := fx.heapOf(st, k)
		nm := fx.enc.Decl(k, fx.heapSort(k))
		fx.nq++
		q := fmt.Sprintf("k?%d", fx.nq)
		moved := And(Not(fits), Le(dst, q), Lt(q, Add(dst, n)))
		fx.enc.Assume(Forall(q, Ite(moved, Eq(Select(nm, q), Select(old, Add(src, Sub(q, dst)))), Eq(Select(nm, q), Select(old, q)))))
		st.Heap[k] = nm
	}
}

func (fr *frame) copyBuiltin(c *ssa.CallCommon, st *State, pos token.Pos) Value {
	fx := fr.fx
	d := fr.val(c.Args[0])
	s := fr.val(c.Args[1])
	el := under(c.Args[0].Type()).(*types.Slice).Elem()
	esz := size(el)
	n := fx.enc.Def("copy.n", "Int", app("imin", d.Len, s.Len))
	keys := fx.leafKeys(el, "M."+typeKey(el))
	for _, k := range keys {
		old := fx.heapOf(st, k)
		nm := fx.enc.Decl(k, fx.heapSort(k))
		fx.nq++
		q := fmt.Sprintf("k?%d", fx.nq)
		var src Term
		if s.Kind == KString {
			src = Select(fx.strMem(), Add(s.T, Sub(q, d.T)))
		} else {
			src = Select(old, Add(s.T, Sub(q, d.T)))
		}
		in := And(Le(d.T, q), Lt(q, Add(d.T, Mul(n, Num(esz)))))
		fx.enc.Assume(Forall(q, Ite(in, Eq(Select(nm, q), src), Eq(Select(nm, q), Select(old, q)))))
		st.Heap[k] = nm
	}
	return IntV(n, tInt)
}

// assumeFreshResults: results that the provenance analysis shows to be always freshly allocated lie above the old frontier.
func (fr *frame) assumeFreshResults(callee *ssa.Function, res Value, pre *State) {
	fx := fr.fx
	n := callee.Signature.Results().Len()
	brk := fx.brkOf(pre)
	one := func(i int, v Value) {
		if !fx.E.returnsFresh(callee, i) {
			return
		}
		switch v.Kind {
		case KInt:
			if _, ok := under(v.Typ).(*types.Pointer); ok {
				fr.assume(Ge(v.T, brk))
			}
		case KSlice:
			fr.assume(Or(Eq(v.T, "0"), Ge(v.T, brk)))
		}
	}
	if n == 1 {
		one(0, res)
		return
	}
	for i := 0; i < n && i < len(res.Elems); i++ {
		one(i, res.Elems[i])
	}
}

// paramOfValue traces a value to the parameter it was copied from (directly or through its spill cell).
func paramOfValue(v ssa.Value) *ssa.Parameter {
	switch x := v.(type) {
	case *ssa.Parameter:
		return x
	case *ssa.UnOp:
		a, ok := x.X.(*ssa.Alloc)
		if !ok || !isCell(a) {
			return nil
		}
		var p *ssa.Parameter
		for _, r := range *a.Referrers() {
			if st, ok := r.(*ssa.Store); ok && st.Addr == a {
				q, ok := st.Val.(*ssa.Parameter)
				if !ok || (p != nil && p != q) {
					return nil
				}
				p = q
			}
		}
		return p
	}
	return nil
}

// checkFuncParams: the actual argument must be a method value of a method whose contract reads the same as the
// declared one, bound to the declared receiver.
func (fr *frame) checkFuncParams(callee *ssa.Function, ct *Contract, cc *ssa.CallCommon, args []Value, pos token.Pos) {
	fx := fr.fx
	off := 0 // in call mode the receiver is Args[0]
	for name, fp := range ct.FuncParams {
		idx, recvIdx := -1, -1
		for i, p := range callee.Params {
			if p.Name() == name {
				idx = i
			}
			if p.Name() == fp.Recv {
				recvIdx = i
			}
		}
		ok := False
		why := "not a method value"
		if idx >= off && idx-off < len(cc.Args) && recvIdx >= 0 {
			if mc, is := cc.Args[idx-off].(*ssa.MakeClosure); is {
				w := mc.Fn.(*ssa.Function)
				if obj, isf := w.Object().(*types.Func); isf && len(mc.Bindings) == 1 {
					m := fx.E.P.SSA.FuncValue(obj)
					if m != nil {
						mname := FuncName(m)
						if sameContract(fx.E.S.Contracts[mname], fx.E.S.Contracts[fp.Like]) {
							ok = Eq(fr.val(mc.Bindings[0]).T, args[recvIdx].T)
							why = ""
						} else {
							why = "contract of " + mname + " differs from " + fp.Like
						}
					}
				}
			}
		}
		if why != "" {
			fx.enc.Comment("funcparam " + name + ": " + why)
		}
		o := fx.enc.Oblige(fx.root, "funcparam", fr.prefix+callee.Name()+"."+name, Implies(fr.curReach, ok), fr.pos(pos))
		o.Facet = "S"
	}
}

func sameContract(a, b *Contract) bool {
	if a == nil || b == nil {
		return false
	}
	sig := func(c *Contract) string {
		var sb []string
		for _, g := range [][]*Clause{c.Requires, c.Ensures, c.Preserves} {
			for _, cl := range g {
				if strings.HasPrefix(cl.Label, "own") || hasTag(cl, "local") {
					continue
				}
				sb = append(sb, cl.Kind+"["+cl.Facet+"]"+strings.Join(strings.Fields(cl.Src), " "))
			}
		}
		return strings.Join(sb, ";")
	}
	return sig(a) == sig(b)
}

// ifaceKey names the contract of an interface method: pkg.Iface.Method.
func ifaceKey(T types.Type, method string) string {
	if n, ok := types.Unalias(T).(*types.Named); ok && n.Obj().Pkg() != nil {
		return shortPkg(n.Obj().Pkg().Path()) + "." + n.Obj().Name() + "." + method
	}
	return "?." + method
}

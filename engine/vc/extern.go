package vc

import (
	"go/token"
	"go/types"

	"golang.org/x/tools/go/ssa"
)

// externalCall models selected standard-library functions precisely (trusted specifications, listed in the evidence).
func (fr *frame) externalCall(fn *ssa.Function, args []Value, st *State, resT types.Type, pos token.Pos) (Value, bool) {
	return Value{}, false
}

package main

import (
	"fmt"
	"os"

	"vcgo/vc"
)

func main() {
	os.Exit(vc.Main(os.Args[1:]))
}

var _ = fmt.Sprint
